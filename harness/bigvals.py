"""Events on constants beyond TLC's 32-bit integers (kind "bigarith", Contracts!BigArithContract).
Numbers travel as decimal digit lists (least significant first) with a sign; nothing here judges a result."""
import io
import itertools
import re
import warnings
from fractions import Fraction
from harness.common import fresh_env
from pysmt.typing import INT, REAL
from pysmt.solvers.eager import EagerModel
from pysmt.smtlib.printers import to_smtlib
from pysmt.smtlib.parser import SmtLibParser

INTS = [2 ** 53 + 1, -(2 ** 53 + 1), 2 ** 62 + 3, 10 ** 19 + 7, -(10 ** 19) - 9, 2 ** 31, -(2 ** 31), 2 ** 64 - 1, 3, -7, 1, 0,
        9007199254740993, 123456789012345678901234567890]
RATS = [Fraction(2 ** 53 + 1, 3), Fraction(-(10 ** 19 + 7), 2 ** 40 + 1), Fraction(1, 3), Fraction(10 ** 20, 7), Fraction(-5, 2),
        Fraction(2 ** 62 + 3), Fraction(0), Fraction(7, 10 ** 18 + 3)]


def z(n):
    n = int(n)
    return {"neg": n < 0, "mag": [int(c) for c in reversed(str(abs(n)))] if n != 0 else []}


def q(fr):
    fr = Fraction(fr)
    return {"n": z(fr.numerator), "d": [int(c) for c in reversed(str(fr.denominator))]}


NONE = {"k": "other", "z": z(0), "q": q(0), "b": 0}


def outcome(node):
    o = dict(NONE)
    if node.is_int_constant():
        o.update(k="int", z=z(node.constant_value()))
    elif node.is_real_constant():
        o.update(k="real", q=q(node.constant_value()))
    elif node.is_bool_constant():
        o.update(k="bool", b=1 if node.constant_value() else 0)
    return o


def numerals(text):
    """Integer numerals of an SMT-LIB term text in order of appearance, (- n) read as negative."""
    out = []
    for m in re.finditer(r"\(-\s+(\d+)\)|(?<![\w.])(\d+)(?![\w.])", text):
        out.append(z(-int(m.group(1))) if m.group(1) else z(int(m.group(2))))
    return out


def events(ck, id0, quick):
    warnings.simplefilter("ignore")
    evs = []
    ops = ["plus", "minus", "times", "div", "le", "lt", "equals", "toreal"]
    ipairs = list(itertools.product(INTS, INTS))
    rpairs = list(itertools.product(RATS, RATS))
    if quick:
        ipairs = [p for k, p in enumerate(ipairs) if (k + ck.seed) % 3 == 0]
        rpairs = [p for k, p in enumerate(rpairs) if (k + ck.seed) % 2 == 0]
    for sort, pairs in (("Int", ipairs), ("Real", rpairs)):
        for a, b in pairs:
            for op in ops:
                if op == "div" and b == 0:
                    continue
                if op == "toreal" and (sort == "Real" or b != pairs[0][1]):
                    continue
                env = fresh_env()
                m = env.formula_manager
                mk = m.Int if sort == "Int" else m.Real
                ty = INT if sort == "Int" else REAL
                x, y = m.Symbol("x", ty), m.Symbol("y", ty)
                build = {"plus": m.Plus, "minus": m.Minus, "times": m.Times, "div": m.Div, "le": m.LE, "lt": m.LT,
                         "equals": m.Equals}.get(op)
                ev = {"id": id0 + len(evs), "kind": "bigarith", "sort": sort, "op": op, "a": z(a if sort == "Int" else 0),
                      "b": z(b if sort == "Int" else 0), "qa": q(a), "qb": q(b), "res": "error", "simp": NONE, "gv": NONE,
                      "txt": [], "back": True, "exc": ""}
                try:
                    if op == "toreal":
                        t, tx = m.ToReal(mk(a)), m.ToReal(x)
                    else:
                        t, tx = build(mk(a), mk(b)), build(x, y)
                    ev["simp"] = outcome(t.simplify())
                    ev["gv"] = outcome(EagerModel({x: mk(a), y: mk(b)}, env).get_value(tx))
                    f = t if t.get_type().is_bool_type() else m.Equals(t, t)
                    text = to_smtlib(f, daggify=False)
                    if sort == "Int":
                        ns = numerals(to_smtlib(t, daggify=False))
                        ev["txt"] = ns
                    back = SmtLibParser(env).get_script(io.StringIO("(assert %s)" % text)).commands[-1].args[0]
                    ev["back"] = back is f
                    ev["res"] = "ok"
                    ck.nontrivial(("big", sort, op, str(a), str(b)))
                except Exception as ex:
                    ev["exc"] = "%s: %s" % (type(ex).__name__, str(ex)[:100])
                ck.count()
                evs.append(ev)
    return evs
