"""Events on constants beyond TLC's 32-bit integers (kind "bigarith", Contracts!BigArithContract).
Numbers travel as decimal digit lists (least significant first) with a sign; nothing here judges a result."""
import io
import itertools
import re
import warnings
from fractions import Fraction
from harness.common import fresh_env
from pysmt.typing import INT, REAL
from pysmt.solvers.eager import EagerModel
from pysmt.smtlib.printers import to_smtlib
from pysmt.smtlib.parser import SmtLibParser

INTS = [2 ** 53 + 1, -(2 ** 53 + 1), 2 ** 62 + 3, 10 ** 19 + 7, -(10 ** 19) - 9, 2 ** 31, -(2 ** 31), 2 ** 64 - 1, 3, -7, 1, 0,
        9007199254740993, 123456789012345678901234567890]
RATS = [Fraction(2 ** 53 + 1, 3), Fraction(-(10 ** 19 + 7), 2 ** 40 + 1), Fraction(1, 3), Fraction(10 ** 20, 7), Fraction(-5, 2),
        Fraction(2 ** 62 + 3), Fraction(0), Fraction(7, 10 ** 18 + 3)]


def z(n):
    n = int(n)
    return {"neg": n < 0, "mag": [int(c) for c in reversed(str(abs(n)))] if n != 0 else []}


def q(fr):
    fr = Fraction(fr)
    return {"n": z(fr.numerator), "d": [int(c) for c in reversed(str(fr.denominator))]}


NONE = {"k": "other", "z": z(0), "q": q(0), "b": 0}


def outcome(node):
    o = dict(NONE)
    if node.is_int_constant():
        o.update(k="int", z=z(node.constant_value()))
    elif node.is_real_constant():
        o.update(k="real", q=q(node.constant_value()))
    elif node.is_bool_constant():
        o.update(k="bool", b=1 if node.constant_value() else 0)
    return o


def numerals(text):
    """Integer numerals of an SMT-LIB term text in order of appearance, (- n) read as negative."""
    out = []
    for m in re.finditer(r"\(-\s+(\d+)\)|(?<![\w.])(\d+)(?![\w.])", text):
        out.append(z(-int(m.group(1))) if m.group(1) else z(int(m.group(2))))
    return out


_D = r"\d+\.\d+"
_REAL = re.compile(r"\(-\s+\(/\s+(%s)\s+(%s)\)\s*\)|\(-\s+(%s)\s*\)|\(/\s+(%s)\s+(%s)\)|(?<![\w.])(%s)(?![\w.])" % (_D, _D, _D, _D, _D, _D))


def real_literals(text):
    """Real literals of an SMT-LIB term text in order of appearance: d.d, (/ d.d d.d), and their negations (- lit)."""
    out = []
    for m in _REAL.finditer(text):
        g = m.groups()
        if g[0]:
            v = -Fraction(g[0]) / Fraction(g[1])
        elif g[2]:
            v = -Fraction(g[2])
        elif g[3]:
            v = Fraction(g[3]) / Fraction(g[4])
        else:
            v = Fraction(g[5])
        out.append(q(v))
    return out


def dedup(xs):
    out = []
    for x in xs:
        if x not in out:
            out.append(x)
    return out


def events(ck, id0, quick):
    warnings.simplefilter("ignore")
    evs = []
    ops = ["plus", "minus", "times", "div", "le", "lt", "equals", "toreal"]
    ipairs = list(itertools.product(INTS, INTS))
    rpairs = list(itertools.product(RATS, RATS))
    if quick:
        ipairs = ck.rng.sample(ipairs, len(ipairs) // 3)
        rpairs = ck.rng.sample(rpairs, len(rpairs) // 2)
    for sort, pairs in (("Int", ipairs), ("Real", rpairs)):
        for a, b in pairs:
            for op in ops:
                if op == "div" and b == 0:
                    continue
                if op == "toreal" and (sort == "Real" or b != pairs[0][1]):
                    continue
                env = fresh_env()
                m = env.formula_manager
                mk = m.Int if sort == "Int" else m.Real
                ty = INT if sort == "Int" else REAL
                x, y = m.Symbol("x", ty), m.Symbol("y", ty)
                build = {"plus": m.Plus, "minus": m.Minus, "times": m.Times, "div": m.Div, "le": m.LE, "lt": m.LT,
                         "equals": m.Equals}.get(op)
                ev = {"id": id0 + len(evs), "kind": "bigarith", "sort": sort, "op": op, "a": z(a if sort == "Int" else 0),
                      "b": z(b if sort == "Int" else 0), "qa": q(a), "qb": q(b), "res": "error", "simp": NONE, "gv": NONE,
                      "txt": [], "dtxt": [], "qtxt": [], "dqtxt": [], "back": True, "hr": "unparsed", "hrsimp": NONE, "exc": ""}
                try:
                    if op == "toreal":
                        t, tx = m.ToReal(mk(a)), m.ToReal(x)
                    else:
                        t, tx = build(mk(a), mk(b)), build(x, y)
                    ev["simp"] = outcome(t.simplify())
                    ev["gv"] = outcome(EagerModel({x: mk(a), y: mk(b)}, env).get_value(tx))
                    f = t if t.get_type().is_bool_type() else m.Equals(t, t)
                    text = to_smtlib(f, daggify=False)
                    if sort == "Int":
                        ns = numerals(to_smtlib(t, daggify=False))
                        ev["txt"] = ns
                    back = SmtLibParser(env).get_script(io.StringIO("(assert %s)" % text)).commands[-1].args[0]
                    # ... and through the let-DAG printer, which spells constants with code of its own
                    dtext = to_smtlib(f, daggify=True)
                    dback = SmtLibParser(env).get_script(io.StringIO("(assert %s)" % dtext)).commands[-1].args[0]
                    if sort == "Int":
                        ev["dtxt"] = dedup(numerals(to_smtlib(t, daggify=True)))      # a shared constant may be printed once
                    elif op not in ("toreal", "div"):
                        ev["qtxt"] = real_literals(to_smtlib(t, daggify=False))
                        ev["dqtxt"] = dedup(real_literals(to_smtlib(t, daggify=True)))
                    ev["back"] = back is f and dback is f
                    # the human-readable syntax: what parse(serialize(t)) denotes (judged like simplify(t))
                    try:
                        from pysmt.parsing import HRParser
                        g = HRParser(env).parse(t.serialize())
                    except Exception:
                        g = None                      # outside the fragment of the human-readable parser
                    if g is not None:
                        ev["hr"] = "ok"
                        ev["hrsimp"] = outcome(g.simplify())
                    ev["res"] = "ok"
                    ck.nontrivial(("big", sort, op, str(a), str(b)))
                except Exception as ex:
                    ev["exc"] = "%s: %s" % (type(ex).__name__, str(ex)[:100])
                ck.count()
                evs.append(ev)
    return evs


def nat(n):
    return [int(c) for c in reversed(str(n))] if n else []


BVNONE = {"k": "other", "v": [], "w": 0, "b": 0}


def bvout(node):
    o = dict(BVNONE)
    if node.is_bv_constant():
        o.update(k="bv", v=nat(node.constant_value()), w=node.bv_width())
    elif node.is_bool_constant():
        o.update(k="bool", b=1 if node.constant_value() else 0)
    return o


def bv_events(ck, id0, quick):
    """Bit-vector operators at widths 32, 33, 64, 65, 128 (kind "bigbv", Contracts!BigBVContract)."""
    from pysmt.typing import BVType
    warnings.simplefilter("ignore")
    evs = []
    binops = ["bv_add", "bv_sub", "bv_mul", "bv_udiv", "bv_urem", "bv_and", "bv_or", "bv_xor", "bv_lshl", "bv_lshr", "bv_ashr",
              "bv_sdiv", "bv_srem", "bv_ult", "bv_ule", "bv_slt", "bv_sle", "equals", "bv_concat"]
    for w in ((33, 64, 128) if quick else (32, 33, 64, 65, 128)):
        vals = [0, 1, 3, w - 1, w, w + 1, 2 ** (w - 1), 2 ** (w - 1) - 1, 2 ** w - 1, 2 ** w - 2, (2 ** w) // 3, (2 ** (w + 1)) // 3 % 2 ** w,
                2 ** (w // 2) + 1, 10 ** 9 + 7]
        pairs = list(itertools.product(vals, vals))
        if quick:
            pairs = ck.rng.sample(pairs, 40)
        cases = [(op, a, b, []) for (a, b) in pairs for op in binops]
        for a in vals:
            cases += [("bv_not", a, 0, []), ("bv_neg", a, 0, []), ("bv_zext", a, 0, [7]), ("bv_sext", a, 0, [9]),
                      ("bv_extract", a, 0, [w - 1, w - 8]), ("bv_extract", a, 0, [w // 2 + 3, 5]), ("bv_extract", a, 0, [0, 0]),
                      ("bv_rol", a, 0, [1]), ("bv_rol", a, 0, [w - 3]), ("bv_ror", a, 0, [5]), ("bv_ror", a, 0, [w])]
        for op, a, b, p in cases:
            env = fresh_env()
            m = env.formula_manager
            x, y = m.Symbol("x", BVType(w)), m.Symbol("y", BVType(w))
            table = {"bv_add": m.BVAdd, "bv_sub": m.BVSub, "bv_mul": m.BVMul, "bv_udiv": m.BVUDiv, "bv_urem": m.BVURem, "bv_and": m.BVAnd,
                     "bv_or": m.BVOr, "bv_xor": m.BVXor, "bv_lshl": m.BVLShl, "bv_lshr": m.BVLShr, "bv_ashr": m.BVAShr, "bv_sdiv": m.BVSDiv,
                     "bv_srem": m.BVSRem, "bv_ult": m.BVULT, "bv_ule": m.BVULE, "bv_slt": m.BVSLT, "bv_sle": m.BVSLE, "equals": m.Equals,
                     "bv_concat": m.BVConcat}
            ev = {"id": id0 + len(evs), "kind": "bigbv", "op": op, "w": w, "a": nat(a), "b": nat(b), "p": p, "res": "error",
                  "simp": BVNONE, "gv": BVNONE, "back": True, "exc": ""}
            try:
                if op in table:
                    mk = lambda u, v: table[op](u, v)
                elif op == "bv_not":
                    mk = lambda u, v: m.BVNot(u)
                elif op == "bv_neg":
                    mk = lambda u, v: m.BVNeg(u)
                elif op == "bv_zext":
                    mk = lambda u, v: m.BVZExt(u, p[0])
                elif op == "bv_sext":
                    mk = lambda u, v: m.BVSExt(u, p[0])
                elif op == "bv_extract":
                    mk = lambda u, v: m.BVExtract(u, p[1], p[0])
                elif op == "bv_rol":
                    mk = lambda u, v: m.BVRol(u, p[0])
                else:
                    mk = lambda u, v: m.BVRor(u, p[0])
                ca, cb = m.BV(a, w), m.BV(b, w)
                t = mk(ca, cb)
                ev["simp"] = bvout(t.simplify())
                ev["gv"] = bvout(EagerModel({x: ca, y: cb}, env).get_value(mk(x, y)))
                f = t if t.get_type().is_bool_type() else m.Equals(t, t)
                back = SmtLibParser(env).get_script(io.StringIO("(assert %s)" % to_smtlib(f, daggify=False))).commands[-1].args[0]
                ev["back"] = back is f
                ev["res"] = "ok"
                ck.nontrivial(("bigbv", op, w, a, b, tuple(p)))
            except Exception as ex:
                ev["exc"] = "%s: %s" % (type(ex).__name__, str(ex)[:100])
            ck.count()
            evs.append(ev)
    return evs
