"""Shared machinery of the per-property drivers: corpus cache, verdict pipeline,
known findings, replay files, evidence."""
import hashlib
import json
import os
import random
import sys
import time
from concurrent.futures import ThreadPoolExecutor

VERIF = os.path.dirname(os.path.dirname(os.path.abspath(__file__)))
REPO = os.environ.get("VERIF_REPO", "/repo")
if REPO not in sys.path:
    sys.path.insert(0, REPO)
if VERIF not in sys.path:
    sys.path.insert(0, VERIF)

from harness import tlc  # noqa: E402

BUILD = os.path.join(VERIF, "build")
CORPUS = os.path.join(BUILD, "corpus")
REPLAY = os.path.join(VERIF, "replay")
EVIDENCE = os.path.join(VERIF, "evidence")


def _spec_hash(*relpaths):
    h = hashlib.sha256()
    for rp in relpaths:
        with open(os.path.join(tlc.SPEC, rp), "rb") as f:
            h.update(f.read())
    return h.hexdigest()[:16]


def gen_corpus(layer, shards=1, module="gen/Gen_Terms", deps=("gen/Gen_Terms.tla", "SmtTypes.tla", "SmtValues.tla"),
               extra_constants=None):
    """TLC-generated term corpus for `layer` (cached under build/corpus by spec hash)."""
    os.makedirs(CORPUS, exist_ok=True)
    tag = "%s_%s_%s" % (os.path.basename(module), layer, _spec_hash(*deps))
    out = os.path.join(CORPUS, tag + ".ndjson")
    if os.path.exists(out):
        return _read_ndjson(out)
    parts = []

    def one(k):
        cfg = os.path.join(CORPUS, "%s_%d_%d.cfg" % (tag, k, os.getpid()))        # (names private to this process)
        lines = ["SPECIFICATION Spec", "CHECK_DEADLOCK FALSE", "CONSTANTS",
                 '  Layer = "%s"' % layer, "  NShards = %d" % shards, "  Shard = %d" % k]
        for kk, vv in (extra_constants or {}).items():
            lines.append("  %s = %s" % (kk, vv))
        with open(cfg, "w") as f:
            f.write("\n".join(lines) + "\n")
        part = os.path.join(CORPUS, "%s_%d_%d.part" % (tag, k, os.getpid()))
        r = tlc.run(module, cfg=cfg, env={"OUT_FILE": part}, workers=1, heap="2g", timeout=1800)
        os.remove(cfg)
        if r.rc != 0 or r.error:
            raise tlc.TLCError("generator %s/%s failed:\n%s" % (module, layer, r.out[-1200:]))
        return part, r

    with ThreadPoolExecutor(max_workers=min(shards, tlc.NCPU)) as ex:
        res = list(ex.map(one, range(shards)))
    seen = set()
    tmp = out + ".tmp%d" % os.getpid()
    with open(tmp, "w") as fo:
        for part, _ in res:
            with open(part) as fi:
                for line in fi:
                    if line not in seen:
                        seen.add(line)
                        fo.write(line)
            os.remove(part)
    os.rename(tmp, out)
    return _read_ndjson(out)


def _read_ndjson(path):
    with open(path) as f:
        return [json.loads(l) for l in f if l.strip()]


# ---------------------------------------------------------------------------
def load_known_findings():
    p = os.path.join(VERIF, "known_findings.json")
    if not os.path.exists(p):
        return []
    with open(p) as f:
        return json.load(f).get("findings", [])


def _sig_match(pattern, sig):
    for k, v in pattern.items():
        if k not in sig:
            return False
        if isinstance(v, list):
            if sig[k] not in v:
                return False
        elif sig[k] != v:
            return False
    return True


class Check(object):
    """Accumulates what a run covered and turns rejected events into verdict lines."""

    def __init__(self, prop, tier=None, seed=None):
        self.prop = prop
        self.tier = tier or os.environ.get("VERIF_TIER", "quick")
        if self.tier not in ("quick", "thorough"):
            self.tier = "quick"
        self.seed = int(seed if seed is not None else os.environ.get("VERIF_SEED", "0") or 0)
        self.rng = random.Random(self.seed * 1000003 + sum(ord(c) for c in prop))
        self.t0 = time.time()
        self.cov = {"states": 0, "transitions": 0, "traces_validated_against_impl": 0,
                    "evaluations": 0, "distinct_nontrivial": 0, "samples": [], "rule": "",
                    "exhaustive": False, "parts": {}, "drift": 0, "inconclusive": 0,
                    "skipped_clauses": 0, "known_findings_matched": 0, "notes": []}
        self.assumptions = []
        self.violations = []      # (sig, replay_payload)
        self.known = [k for k in load_known_findings() if k.get("property") == prop and k.get("status", "open") == "open"]
        self.known_hits = {}
        self._nontrivial = set()
        self.machinery_errors = []

    # ---- coverage bookkeeping
    def add_tlc(self, r_or_stats):
        if isinstance(r_or_stats, dict):
            self.cov["states"] += r_or_stats.get("states", 0)
            self.cov["transitions"] += r_or_stats.get("transitions", 0)
            self.cov["traces_validated_against_impl"] += r_or_stats.get("validated", 0)
            for k, v in r_or_stats.get("skipped", {}).items():
                self.cov["skipped_clauses"] += v
                self.cov.setdefault("skipped_by_clause", {})
                self.cov["skipped_by_clause"][k] = self.cov["skipped_by_clause"].get(k, 0) + v
            inc = r_or_stats.get("inconclusive", [])
            self.cov["inconclusive"] += len(inc)
            for i in inc[:3]:
                self.cov["notes"].append("inconclusive event %s: %s" % (i.get("id"), (i.get("error") or "")[:700]))
        else:
            self.cov["states"] += r_or_stats.distinct
            self.cov["transitions"] += r_or_stats.generated

    def count(self, n=1):
        self.cov["evaluations"] += n

    def nontrivial(self, key):
        self._nontrivial.add(key if isinstance(key, (str, int, tuple)) else json.dumps(key, sort_keys=True))

    def sample(self, s, limit=6):
        if len(self.cov["samples"]) < limit:
            self.cov["samples"].append(s)

    def part(self, name, **kw):
        self.cov["parts"][name] = kw

    def note(self, s):
        if len(self.cov["notes"]) < 40:
            self.cov["notes"].append(s)

    # ---- verdicts
    def violation(self, sig, payload):
        """sig: flat dict describing the failing event (matched against known findings)."""
        for k in self.known:
            if _sig_match(k["signature"], sig):
                self.known_hits.setdefault(k["what"], 0)
                self.known_hits[k["what"]] += 1
                self.cov["known_findings_matched"] += 1
                return
        self.violations.append((sig, payload))

    def machinery_error(self, msg):
        self.machinery_errors.append(msg)

    def finish(self, level="model_checking"):
        os.makedirs(EVIDENCE, exist_ok=True)
        rc = 0
        for what, n in sorted(self.known_hits.items()):
            print("KNOWN-FINDING: property=%s %s (matched %d event(s))" % (self.prop, what, n))
        if self.violations:
            rc = 1
            import collections
            summ = collections.Counter((str(sig.get("proc", sig.get("kind", ""))), str(sig.get("clause", ""))) for sig, _ in self.violations)
            for (a, b), n in summ.most_common(30):
                print("violation-class %s/%s: %d" % (a, b, n))
            d = os.path.join(REPLAY, self.prop)
            os.makedirs(d, exist_ok=True)
            seen = set()
            for n, (sig, payload) in enumerate(self.violations):
                key = json.dumps(sig, sort_keys=True)
                if key in seen:
                    continue
                seen.add(key)
                if len(seen) > 60:
                    print("... %d further violations not listed" % (len(self.violations) - n))
                    break
                p = os.path.join(d, "%s_%s_%d.json" % (self.tier, self.seed, n))
                with open(p, "w") as f:
                    json.dump({"property": self.prop, "signature": sig, "case": payload}, f, indent=1, default=str)
                print("VIOLATION property=%s replay=%s  %s" % (self.prop, p, json.dumps(sig, sort_keys=True)))
        self.cov["distinct_nontrivial"] = len(self._nontrivial)
        if not self.cov["samples"]:
            self.cov["samples"] = ["(no case was explored)"]
        ev = {"property_id": self.prop, "tier": self.tier, "seed": self.seed, "level": level,
              "coverage": self.cov, "assumptions": self.assumptions,
              "wall_s": round(time.time() - self.t0, 2), "violations": len(self.violations)}
        with open(os.path.join(EVIDENCE, self.prop + ".json"), "w") as f:
            json.dump(ev, f, indent=1, default=str)
        if self.machinery_errors:
            for m in self.machinery_errors[:5]:
                print("MACHINERY-ERROR: %s" % m[:2000])
            if rc == 0:
                rc = 2
        print("%s %s tier=%s seed=%d: evaluations=%d traces=%d states=%d violations=%d known=%d drift=%d inconclusive=%d wall=%.1fs"
              % ("PASS" if rc == 0 else ("FAIL" if rc == 1 else "ERROR"), self.prop, self.tier, self.seed,
                 self.cov["evaluations"], self.cov["traces_validated_against_impl"], self.cov["states"],
                 len(self.violations), self.cov["known_findings_matched"], self.cov["drift"],
                 self.cov["inconclusive"], time.time() - self.t0))
        return rc


def fresh_env():
    """A fresh pySMT environment installed as the current one."""
    import pysmt.environment
    pysmt.environment.reset_env()
    env = pysmt.environment.get_env()
    env.enable_infix_notation = True
    return env


def root_sig(j):
    """Small structural description of a term for finding signatures."""
    return j["op"]
