"""C01 - simplification preserves type and meaning.

(A) MC_Simplify: the implementation-shaped rule model spec/Simplifier.tla (one rule per walk_* method)
satisfies SimplifyContract on every term of the enumerated layers (TLC, exhaustive over the layer);
the real simplifier is bound to that model rule by rule: Trace_Simp requires out = Simp(in) up to the
order of commutative arguments, a difference is reported as MODEL-DRIFT.
(B) TLC-enumerated terms (Gen_Terms layers L1, L2, LQ) are built through the public
constructors and simplified by the real Simplifier; (C) every (in, out) pair is validated
by TLC against Contracts!SimplifyContract (TypeOf / FreeSyms / Eval are the oracle)."""
from harness.common import Check, gen_corpus, fresh_env
from harness import term_io, tlc


def arg_desc(j):
    o = j["op"]
    if o == "int_constant":
        v = j["i"][0]
        return "int:neg" if v < 0 else ("int:0" if v == 0 else "int:pos")
    if o == "real_constant":
        v = j["i"][0]
        return "real:neg" if v < 0 else ("real:0" if v == 0 else "real:pos")
    if o in ("bv_constant", "str_constant", "bool_constant", "symbol"):
        return o
    return o


def shape(j, depth=2):
    if depth == 0 or not j["a"]:
        return arg_desc(j)
    return "%s(%s)" % (j["op"], ",".join(shape(c, depth - 1) for c in j["a"]))


def has_neg_pow(j):
    if j["op"] == "pow" and j["a"][1]["i"] and j["a"][1]["i"][0] < 0:
        return True
    return any(has_neg_pow(c) for c in j["a"])


def simplify_events(ck, terms, env, id0=0, tag=""):
    evs = []
    skipped = 0
    for k, j in enumerate(terms):
        try:
            f = term_io.build_public(j, env)
        except Exception as ex:  # the constructor rejected a generated term: not a C01 matter
            skipped += 1
            continue
        try:
            o = f.simplify()
            ev = {"id": id0 + k, "kind": "simplify", "in": term_io.export(f), "out": term_io.export_result(o),
                  "rin": term_io.export_type(f.get_type()), "rout": term_io.export_type(o.get_type())}
        except term_io.Unrepresentable:
            skipped += 1
            continue
        except ZeroDivisionError as ex:
            if has_neg_pow(j):
                # 0 ** negative: a division by zero is evaluated under every interpretation; the
                # property leaves such inputs unconstrained
                ck.cov["parts"].setdefault("unconstrained_divzero", {"n": 0})["n"] += 1
                continue
            ck.violation({"kind": "simplify", "clause": "raises", "exc": "ZeroDivisionError", "shape": shape(j)},
                         {"in": j, "exception": repr(ex)})
            continue
        except Exception as ex:
            ck.violation({"kind": "simplify", "clause": "raises", "exc": type(ex).__name__, "shape": shape(j)},
                         {"in": j, "exception": repr(ex)})
            continue
        ck.count()
        if o is not f:
            ck.nontrivial(term_io.term_key(ev["in"]))
        evs.append(ev)
    return evs, skipped


def design_and_drift(ck, evs, layers, prop):
    """(A) the rule model satisfies the contract on whole layers; (C') the real outputs are the model's outputs."""
    import os
    import tempfile
    for layer, _ in layers:
        fd, cfg = tempfile.mkstemp(suffix=".cfg", prefix="mcsimp_")
        with os.fdopen(fd, "w") as f:
            f.write("SPECIFICATION Spec\nCHECK_DEADLOCK FALSE\nCONSTANTS\n  WhichLayer = \"%s\"\n  Part = 0\n  Parts = 1\n"
                    "  Seed = 0\n  Cap = 32\nINVARIANT RulesPreserveMeaning\nINVARIANT GroundTermsFoldToConstants\n" % layer)
        try:
            r = tlc.run("mc/MC_Simplify", cfg=cfg, timeout=7200, heap="6g")
        finally:
            os.unlink(cfg)
        ck.add_tlc(r)
        if r.invariant_violated or r.error or r.rc != 0:
            ck.machinery_error("MC_Simplify on layer %s: the rule model itself breaks %s %s\n%s"
                               % (layer, r.invariant_violated, r.error, r.out[-1500:]))
        ck.part("design_check_MC_Simplify_" + layer, terms=r.distinct // 2, states=r.distinct,
                invariants=["RulesPreserveMeaning", "GroundTermsFoldToConstants"])
    verdicts, st = tlc.validate_events("Trace_Simp", evs, constants={"Seed": 0, "Cap": 8})
    ck.add_tlc(st)
    byid = {e["id"]: e for e in evs}
    for i in sorted(verdicts)[:20]:
        print("MODEL-DRIFT property=%s the simplifier's output differs from the rule model Simp(in) on %s" % (prop, shape(byid[i]["in"])))
    ck.cov["drift"] += len(verdicts)
    ck.part("rule_model_conformance", pairs=len(evs), agree_up_to_AC=len(evs) - len(verdicts), drift=len(verdicts))


def run(ck):
    quick = ck.tier == "quick"
    cap = 48 if quick else 256
    env = fresh_env()
    l1 = gen_corpus("L1")
    lq = gen_corpus("LQ")
    l2 = gen_corpus("L2", shards=16)
    n2 = 12000 if quick else len(l2)
    l2s = ck.rng.sample(l2, n2) if n2 < len(l2) else l2
    terms = l1 + lq + l2s + gen_corpus("ARREQ")     # + equalities of array literals over finite index sorts
    evs, skipped = simplify_events(ck, terms, env)
    # second pass in an environment whose CONSTANTS were all created before any symbol: node ids (which the
    # simplifier sorts commutative arguments by) then order constants before symbols - the opposite of pass one
    env2 = fresh_env()

    def consts(j, acc):
        if j["op"].endswith("_constant"):
            acc.append(j)
        for c in j["a"]:
            consts(c, acc)
        return acc
    arith = [j for j in l2 if j["op"] in ("plus", "minus", "times") and any(c["op"] in ("plus", "minus", "times") for c in j["a"])]
    sub = l1 + ((arith + ck.rng.sample(l2s, min(len(l2s), 3000))) if quick else l2)
    seen = set()
    for j in sub:
        for c in consts(j, []):
            key = term_io.term_key(c)
            if key not in seen:
                seen.add(key)
                try:
                    term_io.build_public(c, env2)
                except Exception:
                    pass
    evs2, skipped2 = simplify_events(ck, sub, env2, id0=len(terms) + 10)
    evs += evs2
    ck.part("constants_first_pass", terms=len(sub), constants_precreated=len(seen))
    ck.part("corpus", L1=len(l1), LQ=len(lq), L2_total=len(l2), L2_used=len(l2s), constructor_rejected=skipped)
    verdicts, st = tlc.validate_events("Trace_Pure", evs, constants={"Seed": ck.seed % 1000, "Cap": cap})
    ck.add_tlc(st)
    byid = {e["id"]: e for e in evs}
    for i, fails in verdicts.items():
        e = byid[i]
        for cl in fails:
            ck.violation({"kind": "simplify", "clause": cl, "shape": shape(e["in"])},
                         {"event": e, "clause": cl})
    design_and_drift(ck, evs, [("L1", 1)] if quick else [("L1", 1), ("LQ", 1), ("L2", 1)], "C01")
    for e in evs[:2] + evs[len(l1):len(l1) + 1] + evs[-1:]:
        ck.sample({"in": e["in"], "out": e["out"]})
    ck.cov["exhaustive"] = not quick
    ck.cov["rule"] = ("terms enumerated by TLC (Gen_Terms: L1 every operator x every leaf tuple of the pool; "
                      "LQ quantifier shapes; L2 all two-operator compositions, seeded sample in quick); each built via the "
                      "public constructors, simplified by pySMT, and the (in,out) pair validated by TLC against "
                      "SimplifyContract under <= %d interpretations. non-trivial = distinct inputs whose simplification "
                      "is a different object" % cap)
    ck.assumptions += ["TLA+ Eval/TypeOf transcription of SMT-LIB semantics", "harness/term_io exporter",
                       "bounded carriers per sort (SmtInterps)", "BV width <= 15 for value checks"]


def main(argv=None):
    ck = Check("C01")
    try:
        run(ck)
    except tlc.TLCError as ex:
        ck.machinery_error(str(ex))
    return ck.finish()
