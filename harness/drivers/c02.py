"""C02 - model evaluation returns the exact value of any ground-evaluable formula.

(B) TLC enumerates operator tables (Gen_Terms layer G1: every non-UF operator over positional
symbols x every tuple of values of the value pools - exhaustive for BV width <= 3, quick; <= 5,
thorough) plus two-operator compositions with pool assignments; each is replayed on a real
EagerModel (get_value with / without completion, total and partial models, satisfies);
(C) TLC validates every outcome against Contracts!GetValueContract (Eval is the oracle)."""
import itertools
import warnings
from harness.common import Check, gen_corpus, fresh_env
from harness import term_io, tlc
from pysmt.solvers.eager import EagerModel


def shape(j):
    return "%s(%s)" % (j["op"], ",".join(c["op"] for c in j["a"]))


PLURAL = [0]


def one_event(ck, eid, env, f, fj, asg, present, completion, want_sat, reuse=False):
    model = EagerModel({s: v for (s, v, _), p in zip(asg, present) if p}, env)
    ev = {"id": eid, "kind": "getvalue", "f": fj,
          "asg": [{"n": s.symbol_name(), "ty": term_io.export_type(s.symbol_type()), "v": vj} for (s, v, vj) in asg],
          "present": [1 if p else 0 for p in present], "completion": completion,
          "res": "error", "out": term_io.node("bool_constant", i=[1]), "rty": term_io.ty_none(), "sat": "na", "exc": ""}
    if not completion and reuse:
        # the model OBJECT has been used before: the same formula and its symbols were evaluated WITH completion
        # (which the model memoises); the call without completion must not see those defaults
        try:
            with warnings.catch_warnings():
                warnings.simplefilter("ignore")
                model.get_value(f, model_completion=True)
                for (s, _v, _vj) in asg:
                    model.get_value(s, model_completion=True)
                model.satisfies(f) if f.get_type().is_bool_type() else None
        except Exception:
            pass
    try:
        with warnings.catch_warnings():
            warnings.simplefilter("ignore")
            # the plural entry points are other spellings of the same question
            # (drawn, not counted: a counter modulo 4 ran in lockstep with the order of the partial-model plans, and
            # with some seeds the plural spellings never met a plan without completion)
            way = ck.rng.randrange(4)
            PLURAL[0] += 1
            if way == 1:
                r = model.get_values([f], model_completion=completion)[f]
            elif way == 2:
                pv = model.get_py_values([f], model_completion=completion)[f]
                r = model.get_value(f, model_completion=completion)
                if r.constant_value() != pv:
                    raise RuntimeError("get_py_values disagrees with get_value")
            else:
                r = model.get_value(f, model_completion=completion)
        ev["res"] = "value"
        ev["out"] = term_io.export_result(r)
        ev["rty"] = term_io.export_type(r.get_type())
    except term_io.Unrepresentable:
        return None
    except Exception as ex:
        ev["exc"] = type(ex).__name__
    if want_sat and all(present):
        try:
            with warnings.catch_warnings():
                warnings.simplefilter("ignore")
                ev["sat"] = "true" if model.satisfies(f) else "false"
        except Exception:
            ev["sat"] = "error"
    return ev


def run(ck):
    quick = ck.tier == "quick"
    warnings.simplefilter("ignore")
    env = fresh_env()
    cases = gen_corpus("G1" if quick else "G1W", shards=8)
    vals = gen_corpus("VALS")[0]
    evs = []
    eid = 0
    n_partial = 0
    n_nocomp = [0]
    for k, c in enumerate(cases):
        try:
            f = term_io.build_public(c["f"], env)
        except Exception:
            continue
        fj = term_io.export(f)
        asg = [(term_io.build(term_io.node("symbol", n=a["n"], ty=a["ty"]), env), term_io.build(a["v"], env), a["v"])
               for a in c["asg"]]
        is_bool = f.get_type().is_bool_type()
        plans = [([True] * len(asg), True)]
        if k % 7 == ck.seed % 7:   # partial models / no completion on a deterministic 1/7 slice
            for pres in itertools.product([True, False], repeat=len(asg)):
                for comp in (True, False):
                    if all(pres) and comp:
                        continue
                    plans.append((list(pres), comp))
        for pres, comp in plans:
            n_nocomp[0] += 0 if comp else 1
            ev = one_event(ck, eid, env, f, fj, asg, pres, comp, is_bool, reuse=(not comp and n_nocomp[0] % 2 == 0))
            eid += 1
            if ev is None:
                continue
            ck.count()
            if not all(pres) or not comp:
                n_partial += 1
            if ev["res"] == "value":
                ck.nontrivial((term_io.term_key(fj), tuple(term_io.term_key(a[2]) for a in asg)))
            evs.append(ev)
    # two-operator compositions under pool assignments chosen by the seed
    l2 = gen_corpus("L2", shards=16)
    pool_by_sort = {}
    for key, vs in vals.items():
        for v in vs:
            pool_by_sort.setdefault(v["op"] + str(v["i"][1:] if v["op"] == "bv_constant" else "") +
                                    (term_io.term_key(v["ty"]) if v["op"] == "array_value" else "") +
                                    ("/" + v["a"][0]["op"] if v["op"] == "array_value" else ""), []).append(v)
    n2 = 2500 if quick else 20000
    picked = 0
    for j in ck.rng.sample(l2, min(len(l2), n2 * 2)):
        if picked >= n2:
            break
        try:
            f = term_io.build_public(j, env)
        except Exception:
            continue
        fvs = sorted(f.get_free_variables(), key=lambda s: s.symbol_name())
        if any(s.symbol_type().is_function_type() for s in fvs):
            continue
        asg = []
        ok = True
        for s in fvs:
            t = s.symbol_type()
            cands = [v for vs in vals.values() for v in vs if _const_has_type(v, t)]
            if not cands:
                ok = False
                break
            vj = ck.rng.choice(cands)
            asg.append((s, term_io.build(vj, env), vj))
        if not ok:
            continue
        picked += 1
        ev = one_event(ck, eid, env, f, term_io.export(f), asg, [True] * len(asg), True, f.get_type().is_bool_type())
        eid += 1
        if ev is not None:
            ck.count()
            if ev["res"] == "value":
                ck.nontrivial((term_io.term_key(ev["f"]), tuple(term_io.term_key(a[2]) for a in asg)))
            evs.append(ev)
    # equalities of array literals over finite index sorts (the defaults matter while an index is unassigned)
    n_arreq = 0
    for j in gen_corpus("ARREQ"):
        try:
            f = term_io.build_public(j, env)
        except Exception:
            continue
        ev = one_event(ck, eid, env, f, term_io.export(f), [], [], True, True)
        eid += 1
        if ev is not None:
            ck.count()
            n_arreq += 1
            if ev["res"] == "value":
                ck.nontrivial((term_io.term_key(ev["f"]), ()))
            evs.append(ev)
    ck.part("array_literal_equalities", events=n_arreq)
    from harness import bigvals
    big = bigvals.events(ck, (max(e["id"] for e in evs) + 1) if evs else 0, quick)
    evs += big
    wide = bigvals.bv_events(ck, max(e["id"] for e in evs) + 1, quick)
    evs += wide
    ck.part("huge_constants", events=len(big), ints=len(bigvals.INTS), rationals=len(bigvals.RATS), wide_bv_events=len(wide),
            wide_bv_widths=[32, 33, 64, 65, 128])
    verdicts, st = tlc.validate_events("Trace_Pure", evs, constants={"Seed": ck.seed % 1000, "Cap": 64})
    ck.add_tlc(st)
    byid = {e["id"]: e for e in evs}
    for i, fails in verdicts.items():
        e = byid[i]
        if e["kind"] == "bigarith":
            for cl in fails:
                ck.violation({"kind": "bigarith", "clause": cl, "sort": e["sort"], "op": e["op"], "exc": e["exc"].split(":")[0]}, {"event": e})
            continue
        if e["kind"] == "bigbv":
            for cl in fails:
                ck.violation({"kind": "bigbv", "clause": cl, "op": e["op"], "w": e["w"], "exc": e["exc"].split(":")[0]}, {"event": e})
            continue
        for cl in fails:
            ck.violation({"kind": "getvalue", "clause": cl, "shape": shape(e["f"]), "exc": e["exc"],
                          "completion": e["completion"], "total": all(e["present"])}, {"event": e})
    ck.part("cases", operator_table_cases=len(cases), partial_or_no_completion=n_partial, compositions=picked)
    gvs = [e for e in evs if e["kind"] == "getvalue"]
    for e in (gvs[0], gvs[len(gvs) // 3], gvs[-1]):
        ck.sample({"f": e["f"], "asg": [(a["n"], a["v"]) for a in e["asg"]], "present": e["present"],
                   "completion": e["completion"], "res": e["res"], "out": e["out"]})
    ck.cov["exhaustive"] = True
    ck.cov["rule"] = ("operator tables enumerated by TLC (every non-UF operator x every value tuple of the pools; BV exhaustive "
                      "for width <= %d) + seeded two-operator compositions; each evaluated by a real EagerModel and validated "
                      "against GetValueContract. non-trivial = distinct (formula, assignment) pairs that returned a value"
                      % (3 if quick else 5))
    ck.assumptions += ["TLA+ Eval transcription of SMT-LIB semantics", "documented defaults: false, 0, 0.0, zero bit-vector"]


def _const_has_type(v, t):
    o = v["op"]
    if o == "bool_constant":
        return t.is_bool_type()
    if o == "int_constant":
        return t.is_int_type()
    if o == "real_constant":
        return t.is_real_type()
    if o == "str_constant":
        return t.is_string_type()
    if o == "bv_constant":
        return t.is_bv_type() and t.width == v["i"][1]
    if o == "array_value":
        if not t.is_array_type():
            return False
        return term_io.export_type(t.index_type) == v["ty"] and _const_has_type(v["a"][0], t.elem_type)
    return False


def main():
    ck = Check("C02")
    try:
        run(ck)
    except tlc.TLCError as ex:
        ck.machinery_error(str(ex))
    return ck.finish()
