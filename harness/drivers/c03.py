"""C03 - every formula that exists is well-typed; ill-typed applications are rejected.

(B) TLC enumerates operator applications (Gen_Apply: every constructor entry point x every
argument-sort tuple of the sort universe x payload grids); each is replayed on the real
FormulaManager; (C) the outcome (formula + reported type, or error) is validated by TLC
against Contracts!CreateContract (TypeRule is the oracle).  The second half of the property
(outputs of transformations / parsers are well-typed, reported type = derived type) is a
clause of every other contract (output_well_typed / reported_type_out)."""
import warnings
from harness.common import Check, gen_corpus, fresh_env
from harness import term_io, tlc
from harness.term_io import _PUBLIC


def construct(app, env):
    mgr = env.formula_manager
    kids = [term_io.build(a, env) for a in app["args"]]
    o = app["op"]
    if o == "function":
        return mgr.Function(mgr.Symbol(app["n"], term_io.build_type(app["ty"], env)), kids)
    if o in ("forall", "exists"):
        vs = [mgr.Symbol(v["n"], term_io.build_type(v["ty"], env)) for v in app["bv"]]
        return (mgr.ForAll if o == "forall" else mgr.Exists)(vs, kids[0])
    if o == "array_value":
        return mgr.Array(term_io.build_type(app["ty"], env), kids[0], dict(zip(kids[1::2], kids[2::2])))
    if o == "bv_extract":
        return mgr.BVExtract(kids[0], app["p"][0], app["p"][1])
    if o in ("bv_rol", "bv_ror"):
        return (mgr.BVRol if o == "bv_rol" else mgr.BVRor)(kids[0], app["p"][0])
    if o in ("bv_zext", "bv_sext"):
        return (mgr.BVZExt if o == "bv_zext" else mgr.BVSExt)(kids[0], app["p"][0])
    return getattr(mgr, _PUBLIC[o])(*kids)


def app_shape(app):
    def k(t):
        return t["ty"]["k"] + (str(t["ty"]["w"]) if t["ty"]["k"] == "BV" else "") if t["op"] == "symbol" else t["op"]
    return "%s(%s)%s" % (app["op"], ",".join(k(a) for a in app["args"]), app["p"] or "")


def run(ck):
    env = fresh_env()
    apps = gen_corpus("APPLY", module="gen/Gen_Apply", deps=("gen/Gen_Apply.tla", "SmtTypes.tla"))
    quants = gen_corpus("QUANT", module="gen/Gen_Apply", deps=("gen/Gen_Apply.tla", "SmtTypes.tla"))
    clash = gen_corpus("CLASH", module="gen/Gen_Apply", deps=("gen/Gen_Apply.tla", "SmtTypes.tla"))
    evs = []
    n_ok = n_err = 0
    odd_exc = {}
    for k, app in enumerate(apps + quants + clash):
        app.setdefault("bv", [])
        ev = {"id": k, "kind": "create", "app": app, "res": "error", "out": term_io.node("bool_constant", i=[1]),
              "rty": term_io.ty_none(), "exc": ""}
        try:
            with warnings.catch_warnings():
                warnings.simplefilter("ignore")
                f = construct(app, env)
            ev["res"] = "ok"
            ev["out"] = term_io.export_result(f)
            ev["rty"] = term_io.export_type(f.get_type())
            n_ok += 1
            ck.nontrivial(app_shape(app))
        except term_io.Unrepresentable:
            continue
        except Exception as ex:
            ev["exc"] = type(ex).__name__
            n_err += 1
            if not type(ex).__name__.startswith("Pysmt") and type(ex).__name__ not in ("TypeError",):
                odd_exc[type(ex).__name__] = odd_exc.get(type(ex).__name__, 0) + 1
        ck.count()
        evs.append(ev)
    verdicts, st = tlc.validate_events("Trace_Pure", evs, constants={"Seed": 0, "Cap": 8})
    ck.add_tlc(st)
    byid = {e["id"]: e for e in evs}
    for i, fails in verdicts.items():
        e = byid[i]
        for cl in fails:
            ck.violation({"kind": "create", "clause": cl, "app": app_shape(e["app"])}, {"event": e})
    ck.part("applications", custom_sorts_named_like_builtins=len(clash), total=len(evs), accepted=n_ok, rejected=n_err, non_pysmt_exception_classes=odd_exc)
    ck.note("exception classes other than Pysmt*/TypeError still count as 'rejected': %s" % odd_exc)
    for e in (evs[0], evs[len(evs) // 2], evs[-1]):
        ck.sample({"app": app_shape(e["app"]), "res": e["res"], "exc": e["exc"]})
    ck.cov["exhaustive"] = True
    ck.cov["rule"] = ("applications enumerated by TLC (Gen_Apply): every constructor x every argument-sort tuple over 11 sorts "
                      "+ 7 constants, n-ary arities 0-4, extract/rotate/extend/array-value/function-arity grids; each replayed on "
                      "FormulaManager and validated against CreateContract. non-trivial = distinct accepted application shapes")
    ck.assumptions += ["TypeRule (SmtTypes.tla) written from SMT-LIB + pySMT's documented specifics",
                       "a function-typed symbol is not a term and never used as an argument",
                       "1-ary And/Or/Plus/Times returning their argument and ToReal(Real) are documented normalisations"]


def main():
    ck = Check("C03")
    try:
        run(ck)
    except tlc.TLCError as ex:
        ck.machinery_error(str(ex))
    return ck.finish()
