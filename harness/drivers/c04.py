"""C04 - hash-consing: one object per structure, faithful accessors, faithful copies.

(A) MC_FM: TLC explores all histories (length <= 3 quick / 4 thorough) of constructor calls in the
implementation-shaped FormulaManager model (node table keyed by content, constant caches keyed by
Python value equality) and checks OneObjectPerStructure, AccessorFidelity, TableInjective, CachesAgree.
(B) TLC-enumerated / simulated call histories over the 99 documented spellings (incl. the infix / method routes) and normalisations
(FMCalls.tla) are replayed in fresh Environments, interleaved with unrelated constructions; identity
classes and accessor read-back are logged after every call.  (C) TLC validates them against the
denotations of FMCalls.tla (FMHistoryContract).  Cross-environment: TLC-generated terms (incl. custom
sorts nested in array / function sorts) are normalized into a second environment (NormalizeContract)."""
import itertools
import warnings
from fractions import Fraction
from harness.common import Check, gen_corpus, fresh_env
from harness import term_io, tlc
import pysmt.environment
from pysmt.typing import BOOL, INT, REAL, BVType, ArrayType, FunctionType


def make_calls(env):
    m = env.formula_manager
    p = lambda: m.Symbol("p", BOOL)
    q = lambda: m.Symbol("q", BOOL)
    x = lambda: m.Symbol("x", INT)
    r = lambda: m.Symbol("r", REAL)
    b = lambda: m.Symbol("b", BVType(2))
    c = lambda: m.Symbol("c", BVType(2))
    d = lambda: m.Symbol("d", BVType(2))
    return {
        "Int(2)": lambda: m.Int(2), "Int(-1)": lambda: m.Int(-1),
        "Real(2)": lambda: m.Real(2), "Real(Fraction(2))": lambda: m.Real(Fraction(2)), "Real(2.0)": lambda: m.Real(2.0),
        "Real((2,1))": lambda: m.Real((2, 1)), "Real((4,2))": lambda: m.Real((4, 2)),
        "Real(Fraction(1,2))": lambda: m.Real(Fraction(1, 2)), "Real(0.5)": lambda: m.Real(0.5),
        "Real((1,2))": lambda: m.Real((1, 2)), "Real((2,4))": lambda: m.Real((2, 4)),
        "BV(2,2)": lambda: m.BV(2, 2), "BV('10')": lambda: m.BV("10"), "BV('#b10')": lambda: m.BV("#b10"),
        "SBV(-2,2)": lambda: m.SBV(-2, 2), "SBV(-4,3)": lambda: m.SBV(-4, 3), "SBV(-1,1)": lambda: m.SBV(-1, 1), "SBV(3,3)": lambda: m.SBV(3, 3),
        "SBV(-128,8)": lambda: m.SBV(-128, 8), "BV(128,8)": lambda: m.BV(128, 8), "SBV(-1,8)": lambda: m.SBV(-1, 8), "BV(2,3)": lambda: m.BV(2, 3),
        "String('a')": lambda: m.String("a"), "Bool(True)": lambda: m.Bool(True), "TRUE()": lambda: m.TRUE(),
        "Symbol(p)": lambda: m.Symbol("p"), "Symbol(x,INT)": lambda: m.Symbol("x", INT),
        "And(p,q)": lambda: m.And(p(), q()), "And([p,q])": lambda: m.And([p(), q()]), "And((p,q))": lambda: m.And((p(), q())),
        "And(generator)": lambda: m.And(s for s in (p(), q())), "And(q,p)": lambda: m.And(q(), p()),
        "And()": lambda: m.And(), "And(p)": lambda: m.And(p()), "Or()": lambda: m.Or(),
        "Not(Not(p))": lambda: m.Not(m.Not(p())), "Not(p)": lambda: m.Not(p()),
        "GE(x,2)": lambda: m.GE(x(), m.Int(2)), "LE(2,x)": lambda: m.LE(m.Int(2), x()), "GT(x,2)": lambda: m.GT(x(), m.Int(2)),
        "Plus(x)": lambda: m.Plus(x()), "Times([x])": lambda: m.Times([x()]),
        "ToReal(Int(2))": lambda: m.ToReal(m.Int(2)), "ToReal(r)": lambda: m.ToReal(r()),
        "Div(r,Real(2))": lambda: m.Div(r(), m.Real(2)), "Times(r,Real(1/2))": lambda: m.Times(r(), m.Real(Fraction(1, 2))),
        "Function(k0,[])": lambda: m.Function(m.Symbol("k0", INT), []), "ForAll([],p)": lambda: m.ForAll([], p()),
        "Exists([],And(p,q))": lambda: m.Exists([], m.And(p(), q())),
        "Array(INT,0)": lambda: m.Array(INT, m.Int(0)), "Array(INT,0,{1:0})": lambda: m.Array(INT, m.Int(0), {m.Int(1): m.Int(0)}),
        "Array(INT,0,{1:5,2:7})": lambda: m.Array(INT, m.Int(0), {m.Int(1): m.Int(5), m.Int(2): m.Int(7)}),
        "Array(INT,0,{2:7,1:5,3:0})": lambda: m.Array(INT, m.Int(0), {m.Int(2): m.Int(7), m.Int(1): m.Int(5), m.Int(3): m.Int(0)}),
        "BVRepeat(b,1)": lambda: m.BVRepeat(b(), 1), "BVConcat(b,b)": lambda: m.BVConcat(b(), b()),
        "BVRepeat(b,2)": lambda: m.BVRepeat(b(), 2), "BVAnd(b,c,d)": lambda: m.BVAnd(b(), c(), d()),
        "BVAnd(BVAnd(b,c),d)": lambda: m.BVAnd(m.BVAnd(b(), c()), d()),
        "Xor(p,q)": lambda: m.Xor(p(), q()), "Not(Iff(p,q))": lambda: m.Not(m.Iff(p(), q())),
        "NotEquals(x,2)": lambda: m.NotEquals(x(), m.Int(2)), "EqualsOrIff(p,q)": lambda: m.EqualsOrIff(p(), q()),
        "Iff(p,q)": lambda: m.Iff(p(), q()), "Pow(Real(2),Real(2))": lambda: m.Pow(m.Real(2), m.Real(2)), "Real(4)": lambda: m.Real(4),
        "Real((1,3))": lambda: m.Real((1, 3)), "Real(Fraction(1,3))": lambda: m.Real(Fraction(1, 3)), "Real((2,6))": lambda: m.Real((2, 6)),
        "Real(1/3.0)": lambda: m.Real(1 / 3.0), "Real(Fraction(1/3.0))": lambda: m.Real(Fraction(1 / 3.0)),
        "Real((2**60+1,1))": lambda: m.Real((2 ** 60 + 1, 1)), "Real(2**60)": lambda: m.Real(2 ** 60),
        "Real(float(2**60))": lambda: m.Real(float(2 ** 60)), "Int(2**60+1)": lambda: m.Int(2 ** 60 + 1), "Int(2**60)": lambda: m.Int(2 ** 60),
        "BVRol(b,2)": lambda: m.BVRol(b(), 2), "BVRol(b,0)": lambda: m.BVRol(b(), 0), "BVRor(b,2)": lambda: m.BVRor(b(), 2),
        "BVRor(b,0)": lambda: m.BVRor(b(), 0), "BVRol(b,1)": lambda: m.BVRol(b(), 1), "BVZExt(b,0)": lambda: m.BVZExt(b(), 0),
        "BVExtract(b,0,1)": lambda: m.BVExtract(b(), 0, 1),
        "b[0:1]": lambda: b()[0:1], "b[:]": lambda: b()[:], "BVExtract(b,0,0)": lambda: m.BVExtract(b(), 0, 0),
        "b[0:0]": lambda: b()[0:0], "b[:0]": lambda: b()[:0], "b[0]": lambda: b()[0],
        "BVExtract(b,1,1)": lambda: m.BVExtract(b(), 1, 1), "b[1:]": lambda: b()[1:], "b[1]": lambda: b()[1],
        "p & q": lambda: p() & q(), "p.And(q)": lambda: p().And(q()), "~p": lambda: ~p(),
        "ForAll(iter([]),p)": lambda: m.ForAll(iter([]), p()),
        "Exists(generator of nothing,And(p,q))": lambda: m.Exists((v for v in (p(), q()) if v.is_not()), m.And(p(), q())),
        "ForAll(filter nothing,p)": lambda: m.ForAll(filter(lambda v: False, [q()]), p()),
        "x >= 2": lambda: x() >= 2, "b & c & d": lambda: b() & c() & d(),
    }


def array_sorted(j):
    """Array values keep their assignments ordered by object address: present them ordered by key."""
    if j["op"] == "array_value":
        pairs = sorted(zip(j["a"][1::2], j["a"][2::2]), key=lambda kv: term_io.term_key(kv[0]))
        j = dict(j)
        j["a"] = [j["a"][0]] + [t for kv in pairs for t in kv]
    return j


def dag_ids(f):
    seen = {}
    stack = [f]
    while stack:
        x = stack.pop()
        if id(x) in seen:
            continue
        seen[id(x)] = x
        stack.extend(x.args())
        if x.is_function_application():
            stack.append(x.function_name())
        if x.is_quantifier():
            stack.extend(x.quantifier_vars())
    return seen


def run(ck):
    warnings.simplefilter("ignore")
    quick = ck.tier == "quick"
    # ---- (A)
    cfgtxt = open(tlc.SPEC + "/mc/MC_FM.cfg").read()
    r = tlc.run("mc/MC_FM", timeout=3000)
    ck.add_tlc(r)
    if r.invariant_violated or r.error or r.rc != 0:
        ck.machinery_error("MC_FM: %s %s\n%s" % (r.invariant_violated, r.error, r.out[-1500:]))
    names = [v for v in r.printed() if isinstance(v, list) and v and isinstance(v[0], str)][0]
    ck.part("design_check_MC_FM", states=r.distinct, calls=len(names), max_len=3, wall=round(r.wall, 1))
    n = len(names)
    # ---- histories: all pairs + simulated long ones
    sim = tlc.run("mc/MC_FM", cfg="Sim_FM.cfg", simulate="num=%d" % (150 if quick else 3000), depth=8, seed=ck.seed + 7, workers=1)
    ck.add_tlc(sim)
    longs = []
    seen = set()
    for h in sim.printed():
        if isinstance(h, list) and h and isinstance(h[0], int) and tuple(h) not in seen:
            seen.add(tuple(h))
            longs.append(h)
    longs = longs[: (400 if quick else 6000)]
    pairs = [[i, j] for i in range(1, n + 1) for j in range(1, n + 1)]
    if quick:
        pairs = ck.rng.sample(pairs, len(pairs) // 2)       # (never select by index parity: with an odd n it is the parity of i + j)
    singles = [[i] for i in range(1, n + 1)]
    hists = singles + pairs + longs
    evs = []
    eid = 0
    term_io.SYMBOLIC_BIG = True          # only the identity of the big constants matters in this part
    for hn, h in enumerate(hists):
        pysmt.environment.reset_env()
        env = pysmt.environment.get_env()
        env.enable_infix_notation = True
        calls = make_calls(env)
        m = env.formula_manager
        results = []
        obs = []
        try:
            for k, ci in enumerate(h):
                if hn % 2 == 1:   # interleave unrelated constructions
                    u = m.Symbol("u%d" % k, INT)
                    m.Plus(u, m.Int(k + 10), m.Times(u, m.Int(3)))
                    m.Real(Fraction(k + 3, 7))
                res = calls[names[ci - 1]]()
                ob = {"term": array_sorted(term_io.export(res)), "same": [1 if res is o else 0 for o in results]}
                if res.is_bv_constant():
                    # the derived accessors of a bit-vector constant are read back too
                    ob["sg"] = int(res.bv_signed_value())
                    ob["bin"] = [int(ch) for ch in res.bv_bin_str()]
                obs.append(ob)
                results.append(res)
            evs.append({"id": eid, "kind": "fm_hist", "calls": h, "obs": obs})
            if len(set(id(x) for x in results)) < len(results):
                ck.nontrivial(("fm", tuple(h)))
        except Exception as ex:
            ck.violation({"kind": "fm_hist", "clause": "raises", "exc": type(ex).__name__, "calls": [names[c - 1] for c in h][:6]},
                         {"history": [names[c - 1] for c in h], "exception": repr(ex)})
        eid += 1
        ck.count()
    term_io.SYMBOLIC_BIG = False
    # ---- cross-environment copies
    l1 = gen_corpus("L1")
    ls = gen_corpus("LS")
    lq = gen_corpus("LQ")
    terms = ls + ck.rng.sample(l1, min(len(l1), 700 if quick else len(l1))) + ck.rng.sample(lq, min(len(lq), 300 if quick else len(lq)))
    shared_tgt = [None]
    for j in terms:
        src_env = fresh_env()
        try:
            f = term_io.build_public(j, src_env)
        except Exception:
            continue
        pysmt.environment.push_env()
        tgt = pysmt.environment.get_env()
        conflict = False
        if eid % 3 == 0:
            # the target environment already knows one of the symbols - with ANOTHER sort
            syms = sorted((s_ for s_ in f.get_free_variables() if not s_.symbol_type().is_function_type()), key=lambda s_: s_.symbol_name())
            if syms:
                s0 = syms[eid % len(syms)]
                other = REAL if s0.symbol_type().is_int_type() else INT
                tgt.formula_manager.Symbol(s0.symbol_name(), other)
                conflict = True
        ev = {"id": eid, "kind": "normalize", "conflict": conflict, "src": array_sorted_deep(term_io.export(f)), "res": "error",
              "copy": term_io.node("bool_constant", i=[1]), "rty": term_io.ty_none(), "shared": 0, "in_target": False, "exc": ""}
        try:
            g = tgt.formula_manager.normalize(f)
            ev["copy"] = array_sorted_deep(term_io.export(g))
            ev["rty"] = term_io.export_type(tgt.stc.get_type(g))
            src_ids = dag_ids(f)
            ev["shared"] = sum(1 for i_ in dag_ids(g) if i_ in src_ids)
            ev["in_target"] = all(node in tgt.formula_manager for node in dag_ids(g).values())
            ev["res"] = "ok"
            ck.nontrivial(("norm", term_io.term_key(ev["src"])))
        except Exception as ex:
            ev["exc"] = "%s: %s" % (type(ex).__name__, str(ex)[:100])
        pysmt.environment.pop_env()
        evs.append(ev)
        eid += 1
        ck.count()
        # ONE long-lived target environment receives copies from every (fresh) source environment - their node ids
        # all start from the same counter - and, now and then, its own formulas
        if shared_tgt[0] is None:
            shared_tgt[0] = pysmt.environment.Environment()
        tg = shared_tgt[0]
        ev2 = {"id": eid, "kind": "normalize", "conflict": False, "src": ev["src"], "res": "error",
               "copy": term_io.node("bool_constant", i=[1]), "rty": term_io.ty_none(), "shared": 0, "in_target": False, "exc": ""}
        try:
            g2 = tg.formula_manager.normalize(f)
            ev2["copy"] = array_sorted_deep(term_io.export(g2))
            ev2["rty"] = term_io.export_type(tg.stc.get_type(g2))
            src_ids = dag_ids(f)
            ev2["shared"] = sum(1 for i_ in dag_ids(g2) if i_ in src_ids)
            ev2["in_target"] = all(node in tg.formula_manager for node in dag_ids(g2).values())
            ev2["res"] = "ok"
            if eid % 5 == 0:
                g3 = tg.formula_manager.normalize(g2)          # a formula of the target itself: the identity
                if g3 is not g2:
                    ev2["res"] = "error"
                    ev2["exc"] = "NotIdentity: normalize of the target's own formula returned another object"
        except Exception as ex:
            ev2["exc"] = "%s: %s" % (type(ex).__name__, str(ex)[:100])
        evs.append(ev2)
        eid += 1
        ck.count()
    verdicts, st = tlc.validate_events("Trace_Pure", evs, constants={"Seed": 0, "Cap": 8})
    ck.add_tlc(st)
    byid = {e["id"]: e for e in evs}
    for i, fails in verdicts.items():
        e = byid[i]
        for cl in fails:
            sig = {"kind": e["kind"], "clause": cl}
            if e["kind"] == "fm_hist":
                sig["calls"] = [names[c - 1] for c in e["calls"]][:6]
            else:
                sig["exc"] = e["exc"].split(":")[0]
                sig["root"] = e["src"]["op"]
            ck.violation(sig, {"event": e})
    ck.part("histories", singles=len(singles), pairs=len(pairs), simulated_len7=len(longs), normalize_terms=len(terms))
    ck.sample({"calls": [names[c - 1] for c in evs[len(singles) + 3]["calls"]], "obs": evs[len(singles) + 3]["obs"]})
    ck.sample({"kind": "normalize", "src": evs[-1]["src"], "shared": evs[-1]["shared"]})
    ck.cov["exhaustive"] = not quick
    ck.cov["rule"] = ("constructor-call histories over the 99 spellings/normalisations of FMCalls.tla: all singles, all ordered pairs "
                      "(every second pair in quick), TLC-simulated histories of length 7; each replayed in a fresh Environment, half of "
                      "them interleaved with unrelated constructions; + normalize() of TLC-generated terms into a second environment. "
                      "non-trivial = histories in which two calls returned the same object / distinct normalized terms")
    ck.assumptions += ["FMCalls.tla denotations = documented spellings and constructor normalisations",
                       "array-value assignments are compared as a key-sorted list (their stored order is by object address)"]


def array_sorted_deep(j):
    j = dict(j)
    j["a"] = [array_sorted_deep(c) for c in j["a"]]
    return array_sorted(j)


def main():
    ck = Check("C04")
    try:
        run(ck)
    except tlc.TLCError as ex:
        ck.machinery_error(str(ex))
    return ck.finish()
