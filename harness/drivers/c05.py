"""C05 - substitution obeys the substitution lemma and the documented replacement order.

(B) TLC enumerates (term, map) pairs (Gen_Subst) incl. nested / shadowing binders, sub-term keys,
overlapping keys and capturing replacements; the harness runs both real substituters and the
function-interpretation path; (C) TLC validates each result against Contracts!SubstContract:
exact equality with the reference MGS / MSS of Substitution.tla, the semantic substitution lemma
(Eval) for capture-free symbol maps, elimination and meaning of interpreted function symbols."""
import warnings
from harness.common import Check, gen_corpus, fresh_env
from harness import term_io, tlc
from harness.drivers.c01 import shape
from pysmt.substituter import MSSubstituter, MGSubstituter, FunctionInterpretation


def run(ck):
    warnings.simplefilter("ignore")
    quick = ck.tier == "quick"
    env = fresh_env()
    mgr = env.formula_manager
    cases = gen_corpus("ALL", shards=16, module="gen/Gen_Subst",
                       deps=("gen/Gen_Subst.tla", "SmtTypes.tla", "SmtSyntaxFns.tla"))
    n = 7000 if quick else 40000
    def chained(c):
        return any(v["op"] == "symbol" and v["n"] in ("c1", "c2", "u1", "u2") for v in c["vals"])
    ch = [c for c in cases if chained(c)]
    rest = [c for c in cases if not chained(c)]
    nch = 1500 if quick else len(ch)
    picked = ck.rng.sample(rest, min(n, len(rest))) + ck.rng.sample(ch, min(nch, len(ch)))
    ck.part("corpus", cases=len(cases), chained_maps=len(ch), used=len(picked))
    ms = MSSubstituter(env)
    evs = []
    eid = 0
    from pysmt.typing import INT, BOOL, FunctionType
    z = mgr.Symbol("z", INT)
    x = mgr.Symbol("x", INT)
    fsym = mgr.Symbol("f", FunctionType(INT, [INT]))
    gsym = mgr.Symbol("g", FunctionType(BOOL, [INT]))
    interp_variants = [
        {fsym: ([z], mgr.Plus(z, mgr.Int(1)))},
        {gsym: ([z], mgr.LE(z, mgr.Int(0)))},
        {fsym: ([x], mgr.Plus(x, mgr.Int(1))), gsym: ([x], mgr.LE(mgr.Int(1), x))},
    ]

    def emit(f, subs, strategy, interp):
        nonlocal eid
        ev = {"id": eid, "kind": "subst", "f": term_io.export(f),
              "keys": [term_io.export(k) for k in subs], "vals": [term_io.export(v) for v in subs.values()],
              "strategy": strategy,
              "interp": [{"n": s.symbol_name(), "ty": term_io.export_type(s.symbol_type()),
                          "params": [{"n": p.symbol_name(), "ty": term_io.export_type(p.symbol_type())} for p in ps],
                          "body": term_io.export(body)} for s, (ps, body) in interp.items()],
              "res": "error", "out": term_io.node("bool_constant", i=[1]), "rty": term_io.ty_none(), "exc": ""}
        eid += 1
        fi = {s: FunctionInterpretation(ps, body) for s, (ps, body) in interp.items()} or None
        try:
            if strategy == "MG":
                o = f.substitute(subs, interpretations=fi)
            else:
                o = ms.substitute(f, subs, interpretations=fi)
            ev["res"] = "ok"
            ev["out"] = term_io.export_result(o)
            ev["rty"] = term_io.export_type(o.get_type())
            if o is not f:
                ck.nontrivial((term_io.term_key(ev["f"]), tuple(term_io.term_key(k) for k in ev["keys"]),
                               tuple(term_io.term_key(k) for k in ev["vals"]), strategy, len(interp)))
        except Exception as ex:
            ev["exc"] = "%s: %s" % (type(ex).__name__, str(ex)[:100])
        ck.count()
        evs.append(ev)

    n_interp = 0
    for k, c in enumerate(picked):
        f = term_io.build_public(c["f"], env)
        keys = [term_io.build_public(t, env) for t in c["keys"]]
        vals = [term_io.build_public(t, env) for t in c["vals"]]
        if len(set(keys)) != len(keys):
            continue
        subs = dict(zip(keys, vals))
        emit(f, subs, "MG", {})
        emit(f, subs, "MS", {})
        if k % 5 == 0 and any(s.symbol_type().is_function_type() for s in f.get_free_variables()):
            iv = interp_variants[(k // 5) % 3]
            symsubs = {kk: vv for kk, vv in subs.items() if kk.is_symbol()}
            emit(f, {}, "MG", iv)
            emit(f, symsubs, "MG", iv)
            emit(f, symsubs, "MS", iv)
            n_interp += 3
    # ---- interpretations of a BINARY function whose actual arguments mention its formal parameters
    # (simultaneous, not sequential, binding of the formals)
    y = mgr.Symbol("y", INT)
    pb = mgr.Symbol("p", BOOL)
    a0, b0 = mgr.Symbol("a0", INT), mgr.Symbol("b0", INT)
    hsym = mgr.Symbol("h", FunctionType(INT, [INT, INT]))
    H = lambda u, v: mgr.Function(hsym, [u, v])
    hterms = [mgr.Equals(H(y, x), mgr.Int(0)), mgr.LE(H(mgr.Plus(y, mgr.Int(1)), mgr.Int(0)), x), mgr.Equals(H(x, y), H(y, x)),
              mgr.LE(H(H(x, y), x), y), mgr.ForAll([x], mgr.LE(H(x, y), H(y, x))), mgr.Function(gsym, [H(y, x)]),
              mgr.And(pb, mgr.LT(H(mgr.Function(fsym, [y]), mgr.Times(x, mgr.Int(2))), H(x, x))),
              mgr.Exists([y], mgr.Equals(H(y, mgr.Plus(x, y)), x))]
    hinterps = [{hsym: ([x, y], mgr.Minus(x, y))}, {hsym: ([y, x], mgr.Minus(x, y))},
                {hsym: ([x, y], mgr.Ite(mgr.LE(x, y), x, mgr.Plus(y, mgr.Int(1))))},
                {hsym: ([a0, b0], mgr.Plus(a0, mgr.Times(mgr.Int(2), b0)))},
                {hsym: ([x, y], mgr.Plus(y, y)), fsym: ([y], mgr.Minus(y, mgr.Int(1)))},
                {hsym: ([y, z], mgr.Minus(mgr.Plus(y, y), z))}]
    for t in hterms:
        for iv in hinterps:
            for subs in ({}, {x: mgr.Plus(y, mgr.Int(1))}, {y: x, pb: mgr.LE(x, y)}):
                emit(t, subs, "MG", iv)
                emit(t, subs, "MS", iv)
                n_interp += 2
    verdicts, st = tlc.validate_events("Trace_Pure", evs, constants={"Seed": ck.seed % 1000, "Cap": 36 if quick else 100})
    ck.add_tlc(st)
    byid = {e["id"]: e for e in evs}
    n_lemma_skipped = 0
    for i, fails in verdicts.items():
        e = byid[i]
        for cl in fails:
            ck.violation({"kind": "subst", "clause": cl, "strategy": e["strategy"], "shape": shape(e["f"]),
                          "keys": [shape(k, 1) for k in e["keys"]], "interp": len(e["interp"])}, {"event": e})
    ck.part("cases", generated=len(cases), used=len(picked), events=len(evs), with_function_interpretations=n_interp)
    for e in (evs[0], evs[len(evs) // 2], evs[-1]):
        ck.sample({k: e[k] for k in ("f", "keys", "vals", "strategy", "interp", "out")})
    ck.cov["exhaustive"] = not quick and len(picked) == len(cases)
    ck.cov["rule"] = ("(term, map) pairs enumerated by TLC (Gen_Subst: ~1.1k terms incl. nested/shadowing binders x singleton and pair "
                      "maps over all sub-term keys x replacement pools), seeded sample; both substituters + function interpretations; "
                      "validated against MGS/MSS reference, substitution lemma (Eval), interpreted-symbol elimination. "
                      "non-trivial = distinct (term, map, strategy) whose result differs from the input")
    ck.assumptions += ["Substitution.tla reference MGS/MSS (look-up before/after rebuild, key dropping under binders)",
                       "capture-freedom decided conservatively (no free symbol of a replacement bound anywhere in the term)"]


def main():
    ck = Check("C05")
    try:
        run(ck)
    except tlc.TLCError as ex:
        ck.machinery_error(str(ex))
    return ck.finish()
