"""C06 - derived constructors and infix operators denote what their names say.

(B) TLC enumerates constructor x arity x argument shape (Gen_Derived); the harness calls the
real constructor / Python operator; (C) TLC validates that the built formula denotes
Derived!Named(name) of its arguments under every interpretation (exhaustive for Bool / BV <= 3)."""
import operator
import warnings
from fractions import Fraction
from harness.common import Check, gen_corpus, fresh_env
from harness import term_io, tlc
import pysmt.shortcuts as sc


def lit_of(j):
    o = j["op"]
    if o == "int_constant":
        return j["i"][0]
    if o == "real_constant":
        return Fraction(j["i"][0], j["i"][1])
    if o == "bv_constant":
        return j["i"][0]
    if o == "bool_constant":
        return j["i"][0] == 1
    raise ValueError(o)


INFIX = {
    "add": operator.add, "sub": operator.sub, "mul": operator.mul, "gt": operator.gt, "ge": operator.ge,
    "lt": operator.lt, "le": operator.le, "div": operator.truediv, "mod": operator.mod,
    "and": operator.and_, "or": operator.or_, "xor": operator.xor, "lshift": operator.lshift,
    "rshift": operator.rshift,
}
RINFIX = {"radd": operator.add, "rmul": operator.mul, "rsub": operator.sub, "rand": operator.and_,
          "ror": operator.or_, "rxor": operator.xor}


def call(case, mgr, args):
    nm, p = case["name"], case["p"]
    if nm in INFIX:
        return INFIX[nm](args[0], args[1])
    if nm in RINFIX:
        # other OP self, with `other` a Python literal or an FNode: exercises the reflected dunder
        if isinstance(args[1], term_io.FNode):
            return getattr(args[0], "__r%s__" % nm[1:])(args[1])
        return RINFIX[nm](args[1], args[0])
    if nm == "neg":
        return -args[0]
    if nm == "invert":
        return ~args[0]
    if nm == "getitem":
        return args[0][p[0]:p[1]]
    if nm.startswith("m_"):
        meth = getattr(args[0], nm[2:])
        if nm in ("m_BVExtract",):
            return meth(p[0], p[1])
        if nm in ("m_BVRepeat", "m_BVRol", "m_BVRor", "m_BVZExt", "m_BVSExt"):
            return meth(p[0])
        return meth(*args[1:])
    if nm in ("MinBV", "MaxBV"):
        return getattr(mgr, nm)(p[0] == 1, *args)
    if nm == "SBV":
        return mgr.SBV(p[0], p[1])
    if nm in ("BVOne", "BVZero"):
        return getattr(mgr, nm)(p[0])
    if nm == "BVRepeat":
        return mgr.BVRepeat(args[0], p[0])
    if nm in ("BVAndN", "BVOrN", "BVAddN", "BVMulN", "BVConcatN"):
        f = getattr(mgr, nm[:-1])
        # alternate between the varargs and the list calling conventions
        return f(*args) if len(args) % 2 == 0 else f(list(args))
    if nm in ("BVLShlInt", "BVLShrInt", "BVAShrInt"):
        return getattr(mgr, nm[:-3])(args[0], p[0])
    if nm == "Abs":
        return sc.Abs(args[0])
    if nm in ("AtMostOne", "ExactlyOne", "AllDifferent", "Min", "Max"):
        f = getattr(mgr, nm)
        return f(*args) if len(args) % 2 == 0 else f(list(args))
    return getattr(mgr, nm)(*args)


def describe(case):
    return "%s/%d%s" % (case["name"], len(case["a"]), "L" if any(case["lit"]) else "")


def run(ck):
    warnings.simplefilter("ignore")
    env = fresh_env()
    mgr = env.formula_manager
    cases = gen_corpus("ALL", module="gen/Gen_Derived", deps=("gen/Gen_Derived.tla", "SmtTypes.tla"))
    evs = []
    for k, c in enumerate(cases):
        args = [lit_of(a) if l else term_io.build(a, env) for a, l in zip(c["a"], c["lit"])]
        ev = {"id": k, "kind": "derived", "name": c["name"], "a": c["a"], "p": c["p"], "res": "error",
              "built": term_io.node("bool_constant", i=[1]), "rty": term_io.ty_none(), "exc": ""}
        try:
            f = call(c, mgr, args)
            ev["res"] = "ok"
            ev["built"] = term_io.export_result(f)
            ev["rty"] = term_io.export_type(f.get_type())
            ck.nontrivial(term_io.term_key(ev["built"]))
        except Exception as ex:
            ev["exc"] = "%s: %s" % (type(ex).__name__, str(ex)[:100])
        ck.count()
        evs.append(ev)
    verdicts, st = tlc.validate_events("Trace_Pure", evs, constants={"Seed": ck.seed % 1000, "Cap": 4096})
    ck.add_tlc(st)
    byid = {e["id"]: e for e in evs}
    for i, fails in verdicts.items():
        e = byid[i]
        for cl in fails:
            ck.violation({"kind": "derived", "clause": cl, "case": describe(cases[i])}, {"event": e, "case": cases[i]})
    for e in (evs[0], evs[len(evs) // 2], evs[-1]):
        ck.sample({"name": e["name"], "args": e["a"], "p": e["p"], "built": e["built"]})
    ck.cov["exhaustive"] = True
    ck.cov["rule"] = ("constructor x arity x argument shape enumerated by TLC (Gen_Derived), built by the real constructor / "
                      "Python operator, validated against Derived!Named under all interpretations of the argument symbols "
                      "(exhaustive for Bool and BV width <= 3; carriers for Int/Real). non-trivial = distinct built formulas")
    ck.assumptions += ["Derived.tla states the mathematical function of every derived constructor"]


def main():
    ck = Check("C06")
    try:
        run(ck)
    except tlc.TLCError as ex:
        ck.machinery_error(str(ex))
    return ck.finish()
