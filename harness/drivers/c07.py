"""C07 - SMT-LIB export is well-formed and denotes the same thing as the formula.

(B) TLC-generated formulas (Gen_Terms L1 / LQ / L2 / LS: all operators, indexed operators, negative and
rational constants, strings with quotes, constant arrays, quantifiers, custom sorts) - also with their
symbols renamed to names that need quoting or clash with the printer's own let names - are printed by
the real printers (tree and let-DAG form, bare terms and whole scripts);
(C) the produced TEXT is read by the independent reader harness/sexpr.py and validated by TLC against
the meaning of SMT-LIB text defined in SmtLibSyntax.tla (PrintTermContract / PrintScriptContract):
well-formed, every sort and symbol declared before use with the right sort, same sort and same value
under every interpretation."""
import io
import warnings
from harness.common import Check, gen_corpus, fresh_env
from harness import term_io, tlc, sexpr
from harness.drivers.c01 import shape
from pysmt.smtlib.printers import to_smtlib
from pysmt.smtlib.script import smtlibscript_from_formula

ODD_NAMES = ["mem[0]", "a`b", "m[i][j]", "x^y", "a b", "1x", ".def_0", ".def_1", "x.y", "été", "p#q", "(x)", 'q"t', "x;y", "Int", "bv5", "_", "as",
             "Array", "a'b", "x y z", "@v", "~", "-1", "1.5", "#b1", "and", "+"]
# names SMT-LIB itself cannot declare (reserved words, predefined theory symbols, literal spellings) are excluded
# by the property; of the list above "and", "+", "-1", "1.5", "#b1", "Int", "Array", "_", "as" are such names
EXCLUDED = {"and", "+", "-1", "1.5", "#b1", "_", "as", "Int", "Array"}


def rename(j, m):
    j = dict(j)
    if j["op"] in ("symbol", "function") and j["n"] in m:
        j["n"] = m[j["n"]]
    j["bv"] = [{"n": m.get(v["n"], v["n"]), "ty": v["ty"]} for v in j["bv"]]
    j["a"] = [rename(c, m) for c in j["a"]]
    return j


def let_clash_variants(j, ns):
    """Variants of j whose symbols carry the names the DAG printer gives to its let variables (.def_N):
    consecutive from 0, consecutive from 1, with gaps, and in descending order."""
    out = []
    for nums in ([0, 1, 2, 3], [1, 2, 3, 4], [1, 3, 5, 7], [2, 0, 3, 1], [3, 2, 1, 0]):
        m = {n: ".def_%d" % nums[i] for i, n in enumerate(ns[:4])}
        if not (set(m.values()) & set(ns)):
            out.append(rename(j, m))
    return out


def names_in(j, acc):
    if j["op"] in ("symbol", "function"):
        acc.add(j["n"])
    for v in j["bv"]:
        acc.add(v["n"])
    for c in j["a"]:
        names_in(c, acc)
    return acc


def scope_of(f):
    from harness.envcalls import World
    syms, seen, stack = set(), set(), [f]
    while stack:
        z = stack.pop()
        if z in seen:
            continue
        seen.add(z)
        if z.is_symbol():
            syms.add(z)
        if z.is_function_application():
            syms.add(z.function_name())
        stack.extend(z.args())
    # only FREE symbols are in scope of the printed term; bound ones are introduced by the text itself
    free = f.get_free_variables()
    return [{"n": s.symbol_name(), "ty": term_io.export_type(s.symbol_type())} for s in syms if s in free]


def sort_names(scope_types):
    out = {}

    def walk(t):
        if t["k"] == "Sort":
            out[t["n"]] = len(t["a"])
        for a in t["a"]:
            walk(a)
    for t in scope_types:
        walk(t)
    return [{"n": n, "ar": a} for n, a in sorted(out.items())]


def all_types(j, acc):
    if j["ty"]["k"] != "None":
        acc.append(j["ty"])
    for v in j["bv"]:
        acc.append(v["ty"])
    for c in j["a"]:
        all_types(c, acc)
    return acc


def run(ck):
    warnings.simplefilter("ignore")
    quick = ck.tier == "quick"
    env = fresh_env()
    l1 = gen_corpus("L1")
    lq = gen_corpus("LQ")
    ls = gen_corpus("LS")
    l2 = gen_corpus("L2", shards=16)
    n1, nq, n2 = (1500, 600, 1500) if quick else (len(l1), len(lq), 12000)
    base = ls + ck.rng.sample(l1, min(n1, len(l1))) + ck.rng.sample(lq, min(nq, len(lq))) + ck.rng.sample(l2, min(n2, len(l2)))
    terms = list(base)
    # renamed variants: each odd name replaces one symbol of a formula
    odd = [n for n in ODD_NAMES if n not in EXCLUDED]
    for k, j in enumerate(ck.rng.sample(base, min(len(base), 900 if quick else 6000))):
        ns = sorted(names_in(j, set()))
        if not ns:
            continue
        m = {ns[k % len(ns)]: odd[k % len(odd)]}
        if len(ns) > 1 and k % 3 == 0:
            m[ns[(k + 1) % len(ns)]] = odd[(k + 5) % len(odd)]
        if len(set(m.values())) == len(m) and not (set(m.values()) & set(ns)):
            terms.append(rename(j, m))
    # declared SORTS whose names need quoting (sort names are symbols like any other)
    def rename_sorts(j, mp):
        def ty(t):
            t = dict(t)
            if t["k"] == "Sort" and t["n"] in mp:
                t["n"] = mp[t["n"]]
            t["a"] = [ty(a) for a in t["a"]]
            return t
        j = dict(j)
        j["ty"] = ty(j["ty"])
        j["bv"] = [{"n": v["n"], "ty": ty(v["ty"])} for v in j["bv"]]
        j["a"] = [rename_sorts(c, mp) for c in j["a"]]
        return j
    odd_sorts = ["my sort", "2nd", "S-1", "Elem(x)", "été", "a;b"]
    for k, j in enumerate(ls):
        sn = sorted(d["n"] for d in sort_names(all_types(j, [])))
        if sn:
            terms.append(rename_sorts(j, {n_: odd_sorts[(k + i) % len(odd_sorts)] for i, n_ in enumerate(sn)}))
    multi = [j for j in base if len(names_in(j, set())) >= 2]
    for j in ck.rng.sample(multi, min(len(multi), 160 if quick else 1500)):
        terms += let_clash_variants(j, sorted(names_in(j, set())))
    evs = []
    eid = 0
    skipped = 0
    nologic = 0
    for idx, j in enumerate(terms):
        if idx >= len(base):
            env = fresh_env()       # a renamed variant may reuse a name at another sort: one environment per variant
        try:
            f = term_io.build_public(j, env)
            fj = term_io.export(f)
        except Exception:
            skipped += 1
            continue
        sc = scope_of(f)
        snames = sort_names(all_types(fj, []))
        for dag in (True, False):
            ev = {"id": eid, "kind": "print_term", "f": fj, "scope": sc, "sortnames": snames, "dag": dag, "res": "error",
                  "sx": sexpr.sym("true"), "exc": "", "text": ""}
            eid += 1
            try:
                text = to_smtlib(f, daggify=dag)
                ev["text"] = text[:400]
                ev["sx"] = sexpr.read_one(text)
                ev["res"] = "ok"
                ck.nontrivial((dag, term_io.term_key(fj)))
            except sexpr.SexprError as ex:
                ev["res"] = "ok"
                ev["sx"] = sexpr.sym("!!unreadable: %s" % ex)
            except Exception as ex:
                if j.get("_pow") or has_pow(fj):
                    # Pow has no SMT-LIB spelling: the printer may refuse or print a non-standard symbol; outside the claim
                    continue
                ev["exc"] = "%s: %s" % (type(ex).__name__, str(ex)[:100])
            if has_pow(fj):
                continue
            ck.count()
            evs.append(ev)
        # whole script (declarations + assert), every 3rd formula
        if (idx >= len(base) or ck.rng.random() < 0.34) and not has_pow(fj) and f.get_type().is_bool_type():
            for dag in (True, False):
                ev = {"id": eid, "kind": "print_script", "f": fj, "dag": dag, "res": "error", "sxs": [], "exc": ""}
                eid += 1
                try:
                    script = smtlibscript_from_formula(f)
                    buf = io.StringIO()
                    script.serialize(buf, daggify=dag)
                    ev["sxs"] = sexpr.read_all(buf.getvalue())
                    ev["res"] = "ok"
                    ck.nontrivial(("script", dag, term_io.term_key(fj)))
                except sexpr.SexprError as ex:
                    ev["res"] = "ok"
                    ev["sxs"] = [sexpr.lst(sexpr.sym("!!unreadable"))]
                except Exception as ex:
                    if type(ex).__name__ == "NoLogicAvailableError":
                        nologic += 1       # no named logic can express the formula: an allowed answer (see C13)
                        continue
                    ev["exc"] = "%s: %s" % (type(ex).__name__, str(ex)[:100])
                ck.count()
                evs.append(ev)
    # constants beyond 32 bits: printed numerals are the constants, print-parse returns the same object
    from harness import bigvals
    big = bigvals.events(ck, (max(e["id"] for e in evs) + 1) if evs else 0, True)
    evs += big
    ck.part("huge_constants", events=len(big))
    verdicts, st = tlc.validate_events("Trace_Pure", evs, constants={"Seed": ck.seed % 1000, "Cap": 32 if quick else 100})
    ck.add_tlc(st)
    byid = {e["id"]: e for e in evs}
    for i, fails in verdicts.items():
        e = byid[i]
        if e["kind"] == "bigarith":
            for cl in fails:
                if cl == "printed_numerals_are_the_constants" or e["res"] != "ok":
                    ck.violation({"kind": "bigarith", "clause": cl, "sort": e["sort"], "op": e["op"], "exc": e["exc"].split(":")[0]}, {"event": e})
            continue
        for cl in fails:
            ck.violation({"kind": e["kind"], "clause": cl, "dag": e["dag"], "shape": shape(e["f"]), "exc": e["exc"].split(":")[0]},
                         {"event": e})
    ck.part("corpus", formulas=len(terms), renamed_variants=len(terms) - len(base), constructor_rejected=skipped, scripts_without_named_logic=nologic)
    ck.sample({"f": evs[0]["f"], "text": evs[0].get("text", "")})
    ck.sample({"kind": "print_script", "sxs": [e for e in evs if e["kind"] == "print_script"][0]["sxs"]})
    ck.cov["rule"] = ("TLC-generated formulas (+ variants with symbols renamed to names that need quoting or clash with let names) printed by "
                      "to_smtlib (tree and DAG) and smtlibscript_from_formula+serialize; text read by the independent reader and validated "
                      "against the SMT-LIB meaning of SmtLibSyntax.tla. non-trivial = distinct (printer, formula) pairs printed")
    ck.assumptions += ["harness/sexpr.py reader (SMT-LIB 2.6 lexicon)", "SmtLibSyntax.tla elaboration of SMT-LIB terms",
                       "Pow has no SMT-LIB spelling and is outside the claim"]


def has_pow(j):
    return j["op"] == "pow" or any(has_pow(c) for c in j["a"])


def main():
    ck = Check("C07")
    try:
        run(ck)
    except tlc.TLCError as ex:
        ck.machinery_error(str(ex))
    return ck.finish()
