"""C08 - SMT-LIB import never misreads: accepted text means what the standard says.

(B) TLC enumerates SMT-LIB scripts as S-expressions by construct family x syntactic variant (Gen_Sx:
parallel / nested / shadowing let, binders, define-fun with static scoping and capture situations,
numerals under different logics, literals in every notation, indexed operators, operator attributes
chainable / pairwise / left- / right-assoc, arrays, strings, annotations, push/pop scripts,
declare-sort / define-sort, OMT commands, and malformed variants); the harness prints them with a
trivial printer and feeds the real SmtLibParser (plus truncated texts).
(C) TLC elaborates the same S-expressions with the SMT-LIB semantics of SmtLibSyntax.tla and validates
(ParseContract): commands map one-to-one, every term the parser returned has the sort and - under every
interpretation - the value the standard gives; text outside SMT-LIB must be rejected; texts of the
committed accepted-today baseline must still be accepted."""
import io
import json
import os
import warnings
from harness.common import Check, gen_corpus, fresh_env, VERIF
from harness import term_io, tlc, sexpr
from pysmt.smtlib.parser import SmtLibParser

DEPS = ("gen/Gen_Sx.tla",)
BASELINE = os.path.join(VERIF, "spec", "gen", "accept_baseline.json")


def parsed_commands(script, sxs):
    out = []
    for cmd, sx in zip(script.commands, sxs):
        name = cmd.name
        rec = {"name": name, "terms": [], "formals": [], "params": []}
        if name in ("assert", "assert-soft", "maximize", "minimize"):
            rec["terms"] = [term_io.export_result(cmd.args[0])]
        elif name in ("check-sat-assuming", "get-value"):
            rec["terms"] = [term_io.export_result(t) for t in cmd.args]
        elif name in ("declare-fun", "declare-const"):
            rec["terms"] = [term_io.export_result(cmd.args[0])]
        elif name == "define-fun":
            rec["terms"] = [term_io.export_result(cmd.args[3])]
            rec["formals"] = [v.symbol_name() for v in cmd.args[1]]
            rec["params"] = [ps["l"][0]["s"] for ps in sx["l"][2]["l"]]
        out.append(rec)
    return out


PRIMERS = {
    "after-LRA-script": "(set-logic QF_LRA)(declare-fun zr0 () Real)(assert (< zr0 1))(assert (= zr0 (/ (+ 1 2) 2)))(assert (> zr0 0.5))",
    "after-LIA-script": "(set-logic QF_LIA)(declare-fun zi0 () Int)(assert (< 1 zi0))(assert (= zi0 (+ 2 0)))",
    "after-BV-script": "(set-logic QF_BV)(declare-fun zb0 () (_ BitVec 4))(assert (= zb0 #x1))(assert (= zb0 (_ bv2 4)))",
}


def parse_case(text, sxs, primer=None):
    """Returns (res, parsed, exc).  With a primer, the SAME parser object first reads another script."""
    env = fresh_env()
    try:
        with warnings.catch_warnings():
            warnings.simplefilter("ignore")
            parser = SmtLibParser(env)
            if primer:
                parser.get_script(io.StringIO(PRIMERS[primer]))
            script = parser.get_script(io.StringIO(text))
        cmds = list(script.commands)
        if len(cmds) != len(sxs):
            return "ok", [{"name": c.name, "terms": [], "formals": [], "params": []} for c in cmds], ""
        return "ok", parsed_commands(script, sxs), ""
    except term_io.Unrepresentable as ex:
        return "skip", [], str(ex)
    except Exception as ex:
        return "error", [], "%s: %s" % (type(ex).__name__, str(ex)[:100])


def run(ck, write_baseline=False):
    warnings.simplefilter("ignore")
    cases = gen_corpus("ALL", module="gen/Gen_Sx", deps=DEPS)
    baseline = set()
    if os.path.exists(BASELINE) and not write_baseline:
        baseline = set(json.load(open(BASELINE))["accepted"])
    evs = []
    accepted_now = []
    eid = 0
    for c in sorted(cases, key=lambda c: c["fam"]):
        text = "\n".join(sexpr.to_text(x) for x in c["sxs"])
        res, parsed, exc = parse_case(text, c["sxs"])
        if res == "skip":
            continue
        if res == "ok" and c["expect"] == "accept":
            accepted_now.append(c["fam"])
        evs.append({"id": eid, "kind": "parse", "fam": c["fam"], "sxs": c["sxs"], "expect": c["expect"], "res": res,
                    "parsed": parsed, "in_baseline": c["fam"] in baseline, "exc": exc, "text": text[-300:]})
        eid += 1
        ck.count()
        ck.nontrivial(c["fam"])
        # the same text read by a parser object that has already read a script of another logic
        if c["expect"] == "accept":
            for pr in sorted(PRIMERS):
                res3, parsed3, exc3 = parse_case(text, c["sxs"], primer=pr)
                if res3 == "skip":
                    continue
                evs.append({"id": eid, "kind": "parse", "fam": c["fam"], "reuse": pr, "sxs": c["sxs"], "expect": c["expect"], "res": res3,
                            "parsed": parsed3, "in_baseline": c["fam"] in baseline, "exc": exc3, "text": text[-300:]})
                eid += 1
                ck.count()
        # truncated variants of well-formed scripts are not SMT-LIB: they must be rejected
        if c["expect"] == "accept":
            for cut in (len(text) - 1, len(text) - 2, text.rfind("(assert") + 9 if "(assert" in text else len(text) // 2):
                t2 = text[:cut]
                if t2.count("(") == t2.count(")"):
                    continue
                res2, parsed2, exc2 = parse_case(t2, [])
                evs.append({"id": eid, "kind": "parse", "fam": c["fam"] + "/truncated", "sxs": [], "expect": "reject", "res": res2,
                            "parsed": [], "in_baseline": False, "exc": exc2, "text": t2[-120:]})
                eid += 1
                ck.count()
    if write_baseline:
        with open(BASELINE, "w") as f:
            json.dump({"comment": "construct families of Gen_Sx.tla accepted by SmtLibParser on the tree this file was generated from",
                       "accepted": sorted(accepted_now)}, f, indent=1)
        print("baseline written: %d families" % len(accepted_now))
    verdicts, st = tlc.validate_events("Trace_Pure", evs, constants={"Seed": ck.seed % 1000, "Cap": 64}, shards=16)
    ck.add_tlc(st)
    byid = {e["id"]: e for e in evs}
    for i, fails in verdicts.items():
        e = byid[i]
        for cl in fails:
            sig = {"kind": "parse", "clause": cl, "fam": e["fam"], "exc": e["exc"].split(":")[0]}
            if e.get("reuse"):
                sig["parser_reused"] = e["reuse"]
            ck.violation(sig,
                         {"event": e})
    rejected_ok = [e["fam"] for e in evs if e["expect"] == "accept" and e["res"] == "error"]
    ck.part("scripts", families=len(cases), events=len(evs), accepted=len(accepted_now),
            well_formed_but_rejected_by_pysmt=sorted(set(rejected_ok)), baseline=len(baseline))
    ck.sample({"fam": evs[0]["fam"], "text": evs[0]["text"], "res": evs[0]["res"]})
    ck.sample({"fam": evs[-1]["fam"], "text": evs[-1]["text"], "res": evs[-1]["res"]})
    ck.cov["exhaustive"] = True
    ck.cov["rule"] = ("scripts enumerated by TLC (Gen_Sx: construct family x variant, well-formed and malformed) + truncations; parsed by "
                      "SmtLibParser; validated against the SMT-LIB elaboration of SmtLibSyntax.tla. non-trivial = distinct construct families")
    ck.assumptions += ["SmtLibSyntax.tla elaboration (written from the SMT-LIB 2.6 standard and theory declarations)",
                       "accept_baseline.json lists what the tree accepted when the baseline was generated"]


def main():
    ck = Check("C08")
    try:
        run(ck, write_baseline=bool(os.environ.get("VERIF_WRITE_BASELINE")))
    except tlc.TLCError as ex:
        ck.machinery_error(str(ex))
    return ck.finish()
