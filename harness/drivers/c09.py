"""C09 - printing then parsing gives the formula back (SMT-LIB and human-readable).

(B) TLC-generated formulas (Gen_Terms layers, incl. variants with symbol names that need quoting) are
printed to SMT-LIB (tree and DAG, as whole scripts) and parsed back in the same environment; scripts
enumerated by TLC (Gen_Sx) are parsed, re-serialised and parsed again; formulas are serialised to the
human-readable syntax and parsed back.
(C) TLC validates (SmtLibContracts): the re-parsed formula is the very same object - a constant-array
literal comes back as the equivalent chain of stores (AsStores) -; the two command lists are identical
up to the fresh names of definition parameters; the HR round trip preserves type and meaning (Eval)
and changes at most the grouping of n-ary operators."""
import io
import re
import warnings
from harness.common import Check, gen_corpus, fresh_env
from harness import term_io, tlc, sexpr
from harness.drivers.c01 import shape
from harness.drivers.c07 import rename, names_in, has_pow, ODD_NAMES, EXCLUDED, let_clash_variants
from pysmt.smtlib.parser import SmtLibParser
from pysmt.smtlib.script import smtlibscript_from_formula
from pysmt.parsing import HRParser
from pysmt.parsing import parse as hr_shortcut


def cmd_records(script):
    out = []
    for cmd in script.commands:
        rec = {"name": cmd.name, "terms": [], "formals": [], "text": ""}
        name = cmd.name
        if name in ("assert", "assert-soft", "maximize", "minimize"):
            rec["terms"] = [term_io.export_result(cmd.args[0])]
            if name == "assert-soft":
                rec["text"] = str(sorted((k, str(v)) for k, v in cmd.args[1]))
            elif name in ("maximize", "minimize"):
                rec["text"] = str(sorted((k, str(v)) for k, v in (cmd.args[1] or [])))
        elif name in ("minmax", "maxmin"):
            rec["terms"] = [term_io.export_result(t) for t in cmd.args[0]]
            rec["text"] = str(sorted((k, str(v)) for k, v in (cmd.args[1] or [])))
        elif name in ("check-sat-assuming", "get-value"):
            rec["terms"] = [term_io.export_result(t) for t in cmd.args]
        elif name in ("declare-fun", "declare-const"):
            rec["terms"] = [term_io.export_result(cmd.args[0])]
        elif name == "define-fun":
            rec["terms"] = [term_io.export_result(cmd.args[3])]
            rec["formals"] = [v.symbol_name() for v in cmd.args[1]]
            rec["text"] = "%s %s %s" % (cmd.args[0], [str(v.symbol_type()) for v in cmd.args[1]], cmd.args[2])
        else:
            buf = io.StringIO()
            cmd.serialize(buf)
            rec["text"] = buf.getvalue()
        out.append(rec)
    return out


def run(ck):
    warnings.simplefilter("ignore")
    quick = ck.tier == "quick"
    env = fresh_env()
    mgr = env.formula_manager
    l1 = gen_corpus("L1")
    lq = gen_corpus("LQ")
    ls = gen_corpus("LS")
    l2 = gen_corpus("L2", shards=16)
    n1, nq, n2 = (1200, 500, 1200) if quick else (len(l1), len(lq), 10000)
    base = ls + ck.rng.sample(l1, min(n1, len(l1))) + ck.rng.sample(lq, min(nq, len(lq))) + ck.rng.sample(l2, min(n2, len(l2)))
    odd = [n for n in ODD_NAMES if n not in EXCLUDED]
    terms = list(base)
    for k, j in enumerate(ck.rng.sample(base, min(len(base), 600 if quick else 4000))):
        ns = sorted(names_in(j, set()))
        if ns:
            m = {ns[k % len(ns)]: odd[k % len(odd)]}
            if not (set(m.values()) & set(ns)):
                terms.append(rename(j, m))
    multi = [j for j in base if len(names_in(j, set())) >= 2]
    for j in ck.rng.sample(multi, min(len(multi), 120 if quick else 1500)):
        terms += let_clash_variants(j, sorted(names_in(j, set())))
    evs = []
    eid = 0
    nologic = 0
    hr_unparsed = {}
    hr = HRParser(env)
    for idx, j in enumerate(terms):
        if idx >= len(base):
            env = fresh_env()       # a renamed variant may reuse a name at another sort: one environment per variant
            mgr = env.formula_manager
            hr = HRParser(env)
        try:
            t = term_io.build_public(j, env)
            if has_pow(j):
                continue
            f = t if t.get_type().is_bool_type() else mgr.EqualsOrIff(t, t)
            fj = term_io.export(f)
        except Exception:
            continue
        # ---- SMT-LIB print / parse
        for dag in (True, False):
            ev = {"id": eid, "kind": "smt_roundtrip", "f": fj, "dag": dag, "res": "error", "same": False, "parsed": fj, "exc": ""}
            try:
                script = smtlibscript_from_formula(f)
                buf = io.StringIO()
                script.serialize(buf, daggify=dag)
                back = SmtLibParser(env).get_script(io.StringIO(buf.getvalue()))
                g = [c.args[0] for c in back.commands if c.name == "assert"][-1]
                ev["same"] = g is f
                ev["parsed"] = term_io.export_result(g)
                ev["res"] = "ok"
                ck.nontrivial((dag, term_io.term_key(fj)))
            except Exception as ex:
                if type(ex).__name__ == "NoLogicAvailableError":
                    nologic += 1
                    continue
                ev["exc"] = "%s: %s" % (type(ex).__name__, str(ex)[:120])
            eid += 1
            ck.count()
            evs.append(ev)
        # ---- human readable
        if True:
            tj = term_io.export(t)
            ev = {"id": eid, "kind": "hr_roundtrip", "f": tj, "res": "error", "parsed": tj, "toks1": [], "toks2": [], "exc": ""}
            try:
                s1 = t.serialize()
                try:
                    g = hr.parse(s1)
                except Exception as ex:
                    hr_unparsed[t.node_type()] = hr_unparsed.get(t.node_type(), 0) + 1
                    continue          # outside the human-readable parser's fragment
                # the module-level shortcut parses in the CURRENT environment (which changes with every variant)
                try:
                    g_short = hr_shortcut(s1)
                    if g_short is not g:
                        ev["exc"] = "ShortcutDiffers: pysmt.parsing.parse returned another object than HRParser(env).parse"
                except Exception as ex:
                    ev["exc"] = "ShortcutRaises %s: %s" % (type(ex).__name__, str(ex)[:100])
                if ev["exc"]:
                    eid += 1
                    ck.count()
                    evs.append(ev)
                    continue
                ev["parsed"] = term_io.export_result(g)
                ev["toks1"] = [x for x in re.findall(r"[^\s()]+|[()]", s1) if x not in "()"]
                ev["toks2"] = [x for x in re.findall(r"[^\s()]+|[()]", g.serialize()) if x not in "()"]
                ev["res"] = "ok"
                ck.nontrivial(("hr", term_io.term_key(tj)))
            except Exception as ex:
                ev["exc"] = "%s: %s" % (type(ex).__name__, str(ex)[:120])
            eid += 1
            ck.count()
            evs.append(ev)
    # ---- human readable: symbols whose names contain operator characters or are words of the HR syntax,
    # used next to the symbols x, y, p their names mention
    from pysmt.typing import INT, BOOL
    hr_names = ["x-y", "x+y", "x*y", "x/y", "-x", "x<y", "x=y", "p&q", "p|q", "!p", "p->q", "x.y", "True", "False", "ToReal", "Int",
                "forall", "x y", "1x", "x?y:x", "x[y]", "x_1", "X"]
    for n in hr_names:
        for ty in (INT, BOOL):
            env = fresh_env()
            mgr = env.formula_manager
            hr = HRParser(env)
            x, y = mgr.Symbol("x", INT), mgr.Symbol("y", INT)
            p, q = mgr.Symbol("p", BOOL), mgr.Symbol("q", BOOL)
            z = mgr.Symbol(n, ty)
            t = mgr.And(mgr.LE(z, mgr.Plus(x, y)), mgr.Or(p, q)) if ty is INT else mgr.And(mgr.Or(z, p), mgr.Or(q, mgr.LE(x, y)))
            tj = term_io.export(t)
            ev = {"id": eid, "kind": "hr_roundtrip", "f": tj, "res": "error", "parsed": tj, "toks1": [], "toks2": [], "exc": "", "name": n}
            try:
                s1 = t.serialize()
                try:
                    g = hr.parse(s1)
                except Exception:
                    hr_unparsed["name:" + n] = hr_unparsed.get("name:" + n, 0) + 1
                    continue
                ev["parsed"] = term_io.export_result(g)
                ev["toks1"] = [x_ for x_ in re.findall(r"[^\s()]+|[()]", s1) if x_ not in "()"]
                ev["toks2"] = [x_ for x_ in re.findall(r"[^\s()]+|[()]", g.serialize()) if x_ not in "()"]
                ev["res"] = "ok"
                ck.nontrivial(("hr-name", n, str(ty)))
            except Exception as ex:
                ev["exc"] = "%s: %s" % (type(ex).__name__, str(ex)[:120])
            eid += 1
            ck.count()
            evs.append(ev)
    # ---- scripts: parse, serialise, parse again
    cases = gen_corpus("ALL", module="gen/Gen_Sx", deps=("gen/Gen_Sx.tla",))
    n_scripts = 0
    not_serialisable = set()
    for c in sorted(cases, key=lambda c: c["fam"]):
        if c["expect"] != "accept":
            continue
        text = "\n".join(sexpr.to_text(x) for x in c["sxs"])
        env2 = fresh_env()
        try:
            s1 = SmtLibParser(env2).get_script(io.StringIO(text))
        except Exception:
            continue            # not accepted: not a script "made of serialisable commands"
        for dag in (True, False):
            ev = {"id": eid, "kind": "script_roundtrip", "fam": c["fam"], "dag": dag, "res": "error", "cmds1": [], "cmds2": [], "exc": ""}
            try:
                ev["cmds1"] = cmd_records(s1)
                buf = io.StringIO()
                s1.serialize(buf, daggify=dag)
                s2 = SmtLibParser(env2).get_script(io.StringIO(buf.getvalue()))
                ev["cmds2"] = cmd_records(s2)
                ev["res"] = "ok"
                n_scripts += 1
                ck.nontrivial(("script", c["fam"], dag))
            except term_io.Unrepresentable:
                continue
            except NotImplementedError:
                not_serialisable.add(c["fam"])      # the script contains a command pySMT cannot serialise: outside the property
                continue
            except Exception as ex:
                ev["exc"] = "%s: %s" % (type(ex).__name__, str(ex)[:160])
            eid += 1
            ck.count()
            evs.append(ev)
    env = fresh_env()
    # constants beyond 32 bits: printed numerals are the constants, print-parse returns the same object
    from harness import bigvals
    big = bigvals.events(ck, (max(e["id"] for e in evs) + 1) if evs else 0, True)
    evs += big
    ck.part("huge_constants", events=len(big))
    verdicts, st = tlc.validate_events("Trace_Pure", evs, constants={"Seed": ck.seed % 1000, "Cap": 32 if quick else 100})
    ck.add_tlc(st)
    byid = {e["id"]: e for e in evs}
    for i, fails in verdicts.items():
        e = byid[i]
        if e["kind"] == "bigarith":
            for cl in fails:
                if cl in ("print_parse_returns_same_object", "human_readable_round_trip_keeps_the_meaning") or e["res"] != "ok":
                    ck.violation({"kind": "bigarith", "clause": cl, "sort": e["sort"], "op": e["op"], "exc": e["exc"].split(":")[0]}, {"event": e})
            continue
        for cl in fails:
            sig = {"kind": e["kind"], "clause": cl, "exc": e["exc"].split(":")[0]}
            if e["kind"] == "script_roundtrip":
                sig["fam"] = e["fam"]
            else:
                sig["shape"] = shape(e["f"])
            ck.violation(sig, {"event": e})
    ck.part("round_trips", formulas=len(terms), script_round_trips=n_scripts, no_named_logic=nologic, scripts_with_unserialisable_commands=sorted(not_serialisable),
            hr_outside_parser_fragment_by_root_operator=hr_unparsed)
    ck.sample({"kind": evs[0]["kind"], "f": evs[0]["f"], "same": evs[0]["same"]})
    ck.sample({"kind": "script_roundtrip", "cmds1": [e for e in evs if e["kind"] == "script_roundtrip"][0]["cmds1"][-2:]})
    ck.cov["rule"] = ("TLC-generated formulas (+ renamed-symbol variants) printed as SMT-LIB scripts (tree/DAG) and re-parsed in the same "
                      "environment; TLC-generated scripts parsed / re-serialised / re-parsed; human-readable serialise / parse. "
                      "non-trivial = distinct (printer, formula) / (script family) round trips completed")
    ck.assumptions += ["non-Boolean terms t are round-tripped inside the formula t = t", "formulas the HR parser rejects are outside its fragment"]


def main():
    ck = Check("C09")
    try:
        run(ck)
    except tlc.TLCError as ex:
        ck.machinery_error(str(ex))
    return ck.finish()
