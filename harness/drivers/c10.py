"""C10 - normal-form rewriters and Boolean quantifier elimination preserve equivalence.

(B) TLC enumerates Boolean structure over theory atoms (Gen_Bool QF / QB), arithmetic terms and
equality conjunctions; the harness runs nnf, prenex, aig, TimesDistributor, the partitions,
propagate_toplevel and the two Boolean quantifier eliminators; (C) TLC validates each result
against Contracts!RewriteContract: equivalence under every interpretation (Bool / BV binders
evaluated exactly, Int binders over three finite domains) and the advertised shape (NormalForms)."""
import warnings
from harness.common import Check, gen_corpus, fresh_env
from harness import term_io, tlc
from harness.drivers.c01 import shape
import pysmt.rewritings as rw
from pysmt.solvers.qelim import ShannonQuantifierEliminator, SelfSubstitutionQuantifierEliminator

DEPS = ("gen/Gen_Bool.tla", "SmtTypes.tla")


def bool_binders_only(f):
    stack = [f]
    seen = set()
    while stack:
        x = stack.pop()
        if x in seen:
            continue
        seen.add(x)
        if x.is_quantifier() and not all(v.symbol_type().is_bool_type() for v in x.quantifier_vars()):
            return False
        stack.extend(x.args())
    return True


def design_and_drift(ck, evs, quick):
    """(A) the rule models of the NNFizer / AIGer (Rewriters.tla) meet the contract on whole generated layers;
    (C') the outputs of the real rewriters are the models' outputs up to commutative argument order."""
    import os
    import tempfile
    for layer, cap in (("QF", 64), ("WIDE", 1024), ("QB", 64)):
        fd, cfg = tempfile.mkstemp(suffix=".cfg", prefix="mcrewr_")
        with os.fdopen(fd, "w") as f:
            f.write("SPECIFICATION Spec\nCHECK_DEADLOCK FALSE\nCONSTANTS\n  WhichLayer = \"%s\"\n  Seed = 0\n  Cap = %d\n"
                    "INVARIANT ModelMeetsContract\n" % (layer, cap))
        try:
            r = tlc.run("mc/MC_Rewriters", cfg=cfg, timeout=7200, heap="6g")
        finally:
            os.unlink(cfg)
        ck.add_tlc(r)
        if r.invariant_violated or r.error or r.rc != 0:
            ck.machinery_error("MC_Rewriters on layer %s: the rule model itself breaks %s %s\n%s"
                               % (layer, r.invariant_violated, r.error, r.out[-1500:]))
        ck.part("design_check_MC_Rewriters_" + layer, formulas=r.distinct // 6, states=r.distinct, models=["NnfM", "AigM", "PrenexM"])
    sel = [e for e in evs if e["proc"] in ("nnf", "aig", "prenex") and e["res"] == "ok"]
    verdicts, st = tlc.validate_events("Trace_Rewr", sel, constants={"Seed": 0, "Cap": 8})
    ck.add_tlc(st)
    byid = {e["id"]: e for e in sel}
    for i in sorted(verdicts)[:20]:
        print("MODEL-DRIFT property=C10 the output of %s differs from the rule model on %s" % (byid[i]["proc"], shape(byid[i]["f"])))
    ck.cov["drift"] += len(verdicts)
    changed = sum(1 for e in sel if e["out"] != e["f"])
    ck.part("rule_model_conformance", pairs=len(sel), outputs_that_differ_from_input=changed,
            agree_up_to_AC=len(sel) - len(verdicts), drift=len(verdicts))


def run(ck):
    warnings.simplefilter("ignore")
    quick = ck.tier == "quick"
    env = fresh_env()
    qf = gen_corpus("QF", module="gen/Gen_Bool", deps=DEPS)
    qb = gen_corpus("QB", module="gen/Gen_Bool", deps=DEPS)
    ar = gen_corpus("ARITH", module="gen/Gen_Bool", deps=DEPS)
    eqs = gen_corpus("EQS", module="gen/Gen_Bool", deps=DEPS)
    nqf, nqb, neq = (1500, 2500, 1500) if quick else (len(qf), len(qb), len(eqs))
    qf_s = ck.rng.sample(qf, min(nqf, len(qf)))
    pol = gen_corpus("POL", module="gen/Gen_Bool", deps=DEPS)      # negated compounds needed in both polarities: all of them
    qf_s = pol + [j for j in qf_s if j not in pol]
    qb_s = ck.rng.sample(qb, min(nqb, len(qb)))
    eq_s = ck.rng.sample(eqs, min(neq, len(eqs)))
    def has_pow(j):
        return j["op"] == "pow" or any(has_pow(c) for c in j["a"])
    quantified = [j for j in eqs if any(c["op"] in ("forall", "exists") for c in j["a"]) or has_pow(j)]     # always all of them
    eq_s = quantified + [j for j in eq_s if j not in quantified]
    evs = []
    eid = [0]

    def emit(proc, f, fn, parts=False):
        ev = {"id": eid[0], "kind": "rewrite", "proc": proc, "f": term_io.export(f), "res": "error",
              "out": term_io.node("bool_constant", i=[1]), "parts": [], "rty": term_io.ty_none(), "exc": ""}
        eid[0] += 1
        try:
            r = fn(f)
            if parts:
                ev["parts"] = [term_io.export(x) for x in r]
            else:
                ev["out"] = term_io.export_result(r)
                ev["rty"] = term_io.export_type(r.get_type())
                if r is not f:
                    ck.nontrivial((proc, term_io.term_key(ev["f"])))
            ev["res"] = "ok"
        except Exception as ex:
            ev["exc"] = "%s: %s" % (type(ex).__name__, str(ex)[:120])
        ck.count()
        evs.append(ev)

    shannon = ShannonQuantifierEliminator(env)
    selfsub = SelfSubstitutionQuantifierEliminator(env)
    for j in qf_s + qb_s:
        f = term_io.build_public(j, env)
        emit("nnf", f, lambda x: rw.nnf(x, env))
        emit("prenex", f, lambda x: rw.prenex_normal_form(x, env))
        emit("aig", f, lambda x: rw.aig(x, env))
        emit("conj_partition", f, lambda x: list(rw.conjunctive_partition(x)), parts=True)
        emit("disj_partition", f, lambda x: list(rw.disjunctive_partition(x)), parts=True)
        if not f.get_free_variables() >= set() or True:
            if bool_binders_only(f) and not env.qfo.is_qf(f):
                emit("qelim_shannon", f, shannon.eliminate_quantifiers)
                emit("qelim_selfsub", f, selfsub.eliminate_quantifiers)
    for j in ar:
        f = term_io.build_public(j, env)
        emit("times_distributor", f, lambda x: rw.TimesDistributor(env).walk(x))
    for j in eq_s:
        f = term_io.build_public(j, env)
        emit("propagate_toplevel", f, lambda x: rw.propagate_toplevel(x, env))
        if ck.rng.random() < 0.34:
            emit("propagate_toplevel_nosimp", f, lambda x: rw.propagate_toplevel(x, env, do_simplify=False))
    verdicts, st = tlc.validate_events("Trace_Pure", evs, constants={"Seed": ck.seed % 1000, "Cap": 48 if quick else 128})
    ck.add_tlc(st)
    # wide connectives (3 .. 14 operands): validated separately with a cap that makes the 2^10 interpretations exhaustive
    n0 = len(evs)
    for j in gen_corpus("WIDE", module="gen/Gen_Bool", deps=DEPS):
        f = term_io.build_public(j, env)
        emit("nnf", f, lambda x: rw.nnf(x, env))
        emit("aig", f, lambda x: rw.aig(x, env))
        emit("prenex", f, lambda x: rw.prenex_normal_form(x, env))
        emit("conj_partition", f, lambda x: list(rw.conjunctive_partition(x)), parts=True)
        emit("disj_partition", f, lambda x: list(rw.disjunctive_partition(x)), parts=True)
    wide = evs[n0:]
    vw, stw = tlc.validate_events("Trace_Pure", wide, constants={"Seed": ck.seed % 1000, "Cap": 1024})
    ck.add_tlc(stw)
    verdicts.update(vw)
    ck.part("wide_connectives", events=len(wide), operands="3..14", interpretations="exhaustive (2^10)")
    design_and_drift(ck, evs, quick)
    byid = {e["id"]: e for e in evs}
    for i, fails in verdicts.items():
        e = byid[i]
        for cl in fails:
            ck.violation({"kind": "rewrite", "proc": e["proc"], "clause": cl, "shape": shape(e["f"]),
                          "exc": e["exc"].split(":")[0]}, {"event": e})
    ck.part("corpus", QF=len(qf), QB=len(qb), ARITH=len(ar), EQS=len(eqs), used_QF=len(qf_s), used_QB=len(qb_s), used_EQS=len(eq_s))
    for e in (evs[0], evs[len(evs) // 2], evs[-1]):
        ck.sample({k: e[k] for k in ("proc", "f", "out", "parts")})
    ck.cov["exhaustive"] = not quick
    ck.cov["rule"] = ("Boolean structure over theory atoms enumerated by TLC (Gen_Bool), seeded sample in quick; nine procedures run on "
                      "each applicable input; validated against RewriteContract (Equiv via Eval + NormalForms shapes). "
                      "non-trivial = distinct (procedure, input) whose output is a different object")
    ck.assumptions += ["NormalForms.tla shape definitions", "Int binders evaluated over three finite non-empty domains"]


def main():
    ck = Check("C10")
    try:
        run(ck)
    except tlc.TLCError as ex:
        ck.machinery_error(str(ex))
    return ck.finish()
