"""C11 - CNF conversion and Ackermannization preserve satisfiability model-by-model.

(B) TLC enumerates quantifier-free Boolean structure (Gen_Bool QF: constants in every position,
ite/iff, shared sub-formulas) and UF formulas (nested / repeated applications); the harness runs
cnf, cnf_as_set, PolarityCNFizer and Ackermannizer; (C) TLC validates shape and the two-way
model correspondence with the fresh symbols enumerated exhaustively (CnfContract / AckContract)."""
import warnings
from harness.common import Check, gen_corpus, fresh_env
from harness import term_io, tlc
from harness.drivers.c01 import shape
import pysmt.rewritings as rw

DEPS = ("gen/Gen_Bool.tla", "SmtTypes.tla")


def run(ck):
    warnings.simplefilter("ignore")
    quick = ck.tier == "quick"
    env = fresh_env()
    mgr = env.formula_manager
    qf = gen_corpus("QF", module="gen/Gen_Bool", deps=DEPS)
    uf = gen_corpus("UF", module="gen/Gen_Bool", deps=DEPS)
    nqf, nuf = (2200, 1200) if quick else (len(qf), len(uf))
    qf_s = ck.rng.sample(qf, min(nqf, len(qf)))
    # negated compounds needed in both polarities: always all of them
    pol = gen_corpus("POL", module="gen/Gen_Bool", deps=DEPS)
    qf_s = pol + [j for j in qf_s if j not in pol]
    uf_s = ck.rng.sample(uf, min(nuf, len(uf)))
    evs = []
    eid = [0]

    def new_ev(kind, proc, f):
        ev = {"id": eid[0], "kind": kind, "proc": proc, "f": term_io.export(f), "res": "error",
              "out": term_io.node("bool_constant", i=[1]), "map": [], "exc": ""}
        eid[0] += 1
        ck.count()
        evs.append(ev)
        return ev

    for j in qf_s:
        f = term_io.build_public(j, env)
        for proc in ("cnf", "cnf_as_set", "polarity_cnf"):
            ev = new_ev("cnf", proc, f)
            try:
                if proc == "cnf":
                    o = rw.cnf(f, env)
                elif proc == "cnf_as_set":
                    o = mgr.And([mgr.Or(list(c)) for c in rw.cnf_as_set(f, env)])
                else:
                    o = rw.PolarityCNFizer(env).convert_as_formula(f)
                ev["out"] = term_io.export_result(o)
                ev["res"] = "ok"
                ck.nontrivial((proc, term_io.term_key(ev["f"])))
            except Exception as ex:
                ev["exc"] = "%s: %s" % (type(ex).__name__, str(ex)[:120])
    for j in uf_s:
        f = term_io.build_public(j, env)
        ev = new_ev("ack", "ack", f)
        try:
            ack = rw.Ackermannizer(env)
            o = ack.do_ackermannization(f)
            ev["out"] = term_io.export_result(o)
            ev["map"] = [{"app": term_io.export(t), "c": c.symbol_name()} for t, c in ack.get_term_to_const_dict().items()]
            ev["res"] = "ok"
            ck.nontrivial(("ack", term_io.term_key(ev["f"])))
        except Exception as ex:
            ev["exc"] = "%s: %s" % (type(ex).__name__, str(ex)[:120])
    # ---- converter OBJECTS reused for a sequence of formulas that share sub-formulas / applications
    # An Ackermannizer that is reused keeps the applications of the earlier formulas and constrains them too:
    # its output for f is judged as the Ackermannization of f AND (a = a) for every earlier application a.
    shared_ack = None
    for k, j in enumerate(uf_s[: (500 if quick else len(uf_s))]):
        if k % 4 == 0:
            shared_ack = rw.Ackermannizer(env)
        f0 = term_io.build_public(j, env)
        old_apps = [a for a in shared_ack.get_term_to_const_dict() if a.is_function_application()]
        f = mgr.And([f0] + [mgr.EqualsOrIff(a, a) for a in old_apps]) if old_apps else f0
        ev = new_ev("ack", "ack_reused_instance", f)
        try:
            o = shared_ack.do_ackermannization(f0)
            ev["out"] = term_io.export_result(o)
            ev["map"] = [{"app": term_io.export(t), "c": c.symbol_name()} for t, c in shared_ack.get_term_to_const_dict().items()]
            ev["res"] = "ok"
            ck.nontrivial(("ack_reused", term_io.term_key(ev["f"])))
        except Exception as ex:
            ev["exc"] = "%s: %s" % (type(ex).__name__, str(ex)[:120])
    shared_cnf, shared_pol = rw.CNFizer(env), rw.PolarityCNFizer(env)
    for j in qf_s[: (500 if quick else len(qf_s))]:
        f = term_io.build_public(j, env)
        for proc, conv in (("cnf_reused_instance", shared_cnf), ("polarity_cnf_reused_instance", shared_pol)):
            ev = new_ev("cnf", proc, f)
            try:
                ev["out"] = term_io.export_result(conv.convert_as_formula(f))
                ev["res"] = "ok"
                ck.nontrivial((proc, term_io.term_key(ev["f"])))
            except Exception as ex:
                ev["exc"] = "%s: %s" % (type(ex).__name__, str(ex)[:120])
    # ---- inputs whose symbols carry the names the converters give to their fresh symbols (FV<n>, ack<n>): a formula
    # produced by an earlier conversion, dumped and read into a new environment, looks like this.  One fresh environment
    # per formula (the name counter starts at 0), numberings: consecutive from 0, from 1, with gaps, descending.
    from harness.drivers.c07 import rename

    def sym_names(j, acc):
        if j["op"] == "symbol" and j["n"] not in acc:
            acc.append(j["n"])
        for c in j["a"]:
            sym_names(c, acc)
        return acc
    n_clash = 0
    for src, tmpl, procs in ((qf_s, "FV%d", ("cnf", "cnf_as_set", "polarity_cnf")), (uf_s, "ack%d", ("ack",))):
        for j in ck.rng.sample(src, min(len(src), 160 if quick else 1500)):
            ns = sym_names(j, [])
            if len(ns) < 2:
                continue
            nums = ck.rng.choice([list(range(0, 8)), list(range(1, 9)), [0, 1, 3, 4, 6, 7, 9, 10], [5, 4, 3, 2, 1, 0, 7, 6], [1, 2, 0, 4, 5, 3, 7, 6]])
            jj = rename(j, {n: tmpl % nums[i] for i, n in enumerate(ns[:8])})
            env_c = fresh_env()
            try:
                f = term_io.build_public(jj, env_c)
            except Exception:
                continue
            n_clash += 1
            for proc in procs:
                ev = new_ev("ack" if proc == "ack" else "cnf", proc + "_names_like_fresh", f)
                try:
                    if proc == "cnf":
                        o = rw.cnf(f, env_c)
                    elif proc == "cnf_as_set":
                        o = env_c.formula_manager.And([env_c.formula_manager.Or(list(c)) for c in rw.cnf_as_set(f, env_c)])
                    elif proc == "polarity_cnf":
                        o = rw.PolarityCNFizer(env_c).convert_as_formula(f)
                    else:
                        ack = rw.Ackermannizer(env_c)
                        o = ack.do_ackermannization(f)
                        ev["map"] = [{"app": term_io.export(t), "c": c.symbol_name()} for t, c in ack.get_term_to_const_dict().items()]
                    ev["out"] = term_io.export_result(o)
                    ev["res"] = "ok"
                    ck.nontrivial((proc + "_clash", term_io.term_key(ev["f"])))
                except Exception as ex:
                    ev["exc"] = "%s: %s" % (type(ex).__name__, str(ex)[:120])
    ck.part("inputs_named_like_fresh_symbols", formulas=n_clash)
    fresh_env()
    verdicts, st = tlc.validate_events("Trace_Pure", evs, constants={"Seed": ck.seed % 1000, "Cap": 48 if quick else 128})
    ck.add_tlc(st)
    byid = {e["id"]: e for e in evs}
    for i, fails in verdicts.items():
        e = byid[i]
        for cl in fails:
            ck.violation({"kind": e["kind"], "proc": e["proc"], "clause": cl, "shape": shape(e["f"]),
                          "exc": e["exc"].split(":")[0]}, {"event": e})
    # (C') rule-level conformance: the outputs of the Tseitin CNFizer are the outputs of the rule model CnfM (Rewriters.tla)
    # up to the order of clauses / literals and a bijection of the definitional variables' names
    sel = [dict(e, proc="cnf") for e in evs if e["kind"] == "cnf" and e["res"] == "ok" and
           e["proc"] in ("cnf", "cnf_as_set", "cnf_names_like_fresh", "cnf_as_set_names_like_fresh")]
    dv, dst = tlc.validate_events("Trace_Rewr", sel, constants={"Seed": 0, "Cap": 8})
    ck.add_tlc(dst)
    bysel = {e["id"]: e for e in sel}
    for i in sorted(dv)[:20]:
        print("MODEL-DRIFT property=C11 the output of the CNFizer differs from the rule model CnfM on %s" % shape(bysel[i]["f"]))
    ck.cov["drift"] += len(dv)
    ck.part("rule_model_conformance_CnfM", pairs=len(sel), agree=len(sel) - len(dv), drift=len(dv))
    ck.part("corpus", QF=len(qf), UF=len(uf), used_QF=len(qf_s), used_UF=len(uf_s))
    for e in (evs[0], evs[len(evs) // 2], evs[-1]):
        ck.sample({k: e[k] for k in ("proc", "f", "out", "map")})
    ck.cov["exhaustive"] = not quick
    ck.cov["rule"] = ("quantifier-free Boolean structure and UF formulas enumerated by TLC (Gen_Bool QF / UF), seeded sample in quick; "
                      "cnf, cnf_as_set, PolarityCNFizer, Ackermannizer run on each; validated against CnfContract / AckContract with "
                      "fresh symbols enumerated exhaustively. non-trivial = distinct (procedure, input) pairs converted")
    ck.assumptions += ["NormalForms.tla IsCNF / NoUF", "interpretations of original symbols bounded by carriers (Cap)"]


def main():
    ck = Check("C11")
    try:
        run(ck)
    except tlc.TLCError as ex:
        ck.machinery_error(str(ex))
    return ck.finish()
