"""C12 - formula analyses (free symbols, atoms, qf-ness, sorts, sizes) are exact.

(B) TLC-generated terms (Gen_Terms L1, LQ, L2 sample, LS) are built in pySMT and analysed by the
real oracles; (C) TLC validates the reported results against the structural definitions in
SmtSyntaxFns.tla and the two semantic consequences named by the property (Eval)."""
import warnings
from harness.common import Check, gen_corpus, fresh_env
from harness import term_io, tlc
from harness.drivers.c01 import shape


def analyse_event(eid, f, env):
    fj = term_io.export(f)
    ev = {"id": eid, "kind": "analyses", "f": fj}
    ev["fv"] = [{"n": s.symbol_name(), "ty": term_io.export_type(s.symbol_type())} for s in f.get_free_variables()]
    try:
        ev["atoms"] = [term_io.export(a) for a in f.get_atoms()]
        ev["atoms_ok"] = True
    except Exception:
        ev["atoms"] = []
        ev["atoms_ok"] = False
    ev["qf"] = bool(env.qfo.is_qf(f))
    ev["sorts"] = [term_io.export_type(t) for t in env.typeso.get_types(f)]
    ev["csorts"] = [term_io.export_type(t) for t in env.typeso.get_types(f, custom_only=True)]
    ev["sizes"] = [f.size(m) for m in range(6)]
    return ev


def run(ck):
    warnings.simplefilter("ignore")
    quick = ck.tier == "quick"
    env = fresh_env()
    l1 = gen_corpus("L1")
    lq = gen_corpus("LQ")
    ls = gen_corpus("LS")
    l2 = gen_corpus("L2", shards=16)
    n1, nq, n2 = (2500, 1500, 3000) if quick else (len(l1), len(lq), 20000)
    terms = ls + ck.rng.sample(l1, min(n1, len(l1))) + ck.rng.sample(lq, min(nq, len(lq))) + ck.rng.sample(l2, min(n2, len(l2)))
    evs = []
    for k, j in enumerate(terms):
        try:
            f = term_io.build_public(j, env)
        except Exception:
            continue      # the constructor rejected the generated term: not C12's matter
        try:
            ev = analyse_event(k, f, env)
        except term_io.Unrepresentable:
            continue
        except Exception as ex:
            ck.violation({"kind": "analyses", "clause": "raises", "exc": type(ex).__name__, "shape": shape(j)},
                         {"in": j, "exception": repr(ex)})
            continue
        ck.count()
        if len(ev["fv"]) > 0 and (len(ev["atoms"]) > 0 or not ev["atoms_ok"]):
            ck.nontrivial(term_io.term_key(ev["f"]))
        evs.append(ev)
    # formulas that live in OTHER environments (a `with Environment()` block, a formula kept across reset_env), analysed by
    # the oracles of the current one: the answers are functions of the formula, not of the ids its nodes carry
    import pysmt.environment
    n_foreign = 0
    for j in ck.rng.sample(terms, min(len(terms), 500 if quick else 5000)):
        other = pysmt.environment.Environment()
        try:
            f = term_io.build_public(j, other)
        except Exception:
            continue
        try:
            ev = analyse_event(len(terms) + n_foreign, f, env)
        except term_io.Unrepresentable:
            continue
        except Exception as ex:
            ck.violation({"kind": "analyses", "clause": "raises_on_foreign_formula", "exc": type(ex).__name__, "shape": shape(j)},
                         {"in": j, "exception": repr(ex)})
            continue
        n_foreign += 1
        ck.count()
        evs.append(ev)
    ck.part("formulas_of_other_environments", events=n_foreign)
    verdicts, st = tlc.validate_events("Trace_Pure", evs, constants={"Seed": ck.seed % 1000, "Cap": 20 if quick else 40})
    ck.add_tlc(st)
    byid = {e["id"]: e for e in evs}
    for i, fails in verdicts.items():
        e = byid[i]
        for cl in fails:
            ck.violation({"kind": "analyses", "clause": cl, "shape": shape(e["f"])}, {"event": e})
    for e in (evs[0], evs[len(ls) + 1], evs[-1]):
        ck.sample({k: e[k] for k in ("f", "fv", "qf", "sizes")})
    ck.cov["rule"] = ("TLC-generated terms (custom-sort / nested-Boolean layer LS in full; seeded samples of L1, LQ, L2 in quick, all of "
                      "L1/LQ in thorough) analysed by the real oracles; results validated against SmtSyntaxFns definitions and the two "
                      "semantic consequences. non-trivial = distinct formulas with >= 1 free symbol and >= 1 atom (or non-Boolean)")
    ck.assumptions += ["SmtSyntaxFns.tla definitions of free symbols / atoms / sorts / size measures follow the documented ones"]


def main():
    ck = Check("C12")
    try:
        run(ck)
    except tlc.TLCError as ex:
        ck.machinery_error(str(ex))
    return ck.finish()
