"""C13 - detected logic covers the formula; logic ordering and selection are sound.

(A) MC_Logics: TLC model-checks the implementation-shaped TheoryLE / TheoryCombine (partial order,
upper bounds, monotone expressiveness) over all triples of valid theories of the interacting flags.
(B)/(C) the real get_logic / get_theory results on TLC-generated formulas, the real <= relation on
all named logics (dumped from pysmt.logics at check time), combine on the closure of reachable
theories, and get_closer_logic / most_generic_logic on enumerated supported-logic subsets are
recorded and validated by TLC against the contracts of Logics.tla."""
import itertools
import warnings
from harness.common import Check, gen_corpus, fresh_env
from harness import term_io, tlc
from harness.drivers.c01 import shape
import pysmt.logics as L
from pysmt.oracles import get_logic
from pysmt.exceptions import NoLogicAvailableError

FLAGS = [("a", "arrays"), ("ac", "arrays_const"), ("bv", "bit_vectors"), ("fp", "floating_point"),
         ("ia", "integer_arithmetic"), ("ra", "real_arithmetic"), ("idl", "integer_difference"),
         ("rdl", "real_difference"), ("lin", "linear"), ("uf", "uninterpreted"), ("ct", "custom_type"),
         ("st", "strings")]


def th_rec(t):
    return {k: bool(getattr(t, attr)) for k, attr in FLAGS}


def th_key(t):
    return tuple(bool(getattr(t, attr)) for _, attr in FLAGS)


def logic_rec(l):
    return {"name": l.name, "qf": bool(l.quantifier_free), "th": th_rec(l.theory)}


def run(ck):
    warnings.simplefilter("ignore")
    quick = ck.tier == "quick"
    # ---- (A) design check
    r = tlc.run("mc/MC_Logics", timeout=900)
    ck.add_tlc(r)
    if r.invariant_violated or r.error or r.rc != 0:
        ck.machinery_error("MC_Logics: %s %s\n%s" % (r.invariant_violated, r.error, r.out[-1500:]))
    ck.part("design_check_MC_Logics", states=r.distinct, invariants=6, wall=round(r.wall, 1))
    env = fresh_env()
    evs = []
    eid = [0]

    def add(ev):
        ev["id"] = eid[0]
        eid[0] += 1
        ck.count()
        evs.append(ev)
        return ev

    # ---- detection
    lg = gen_corpus("LG")
    ls = gen_corpus("LS")
    l1 = gen_corpus("L1")
    lq = gen_corpus("LQ")
    l2 = gen_corpus("L2", shards=16)
    n1, nq, n2 = (1500, 600, 1500) if quick else (len(l1), len(lq), 15000)
    terms = lg + ls + ck.rng.sample(l1, min(n1, len(l1))) + ck.rng.sample(lq, min(nq, len(lq))) + ck.rng.sample(l2, min(n2, len(l2)))
    seen_th = {}
    n_nologic = 0
    for j in terms:
        try:
            f = term_io.build_public(j, env)
            fj = term_io.export(f)
        except Exception:
            continue
        ev = add({"kind": "detect", "f": fj, "res": "error", "logic": logic_rec(L.QF_BOOL), "theory": th_rec(L.QF_BOOL.theory), "exc": ""})
        try:
            lgc = get_logic(f, env)
            th = env.theoryo.get_theory(f)
            ev["logic"] = logic_rec(lgc)
            ev["theory"] = th_rec(th)
            ev["res"] = "ok"
            seen_th[th_key(th)] = th
            ck.nontrivial(("detect", lgc.name, shape(fj, 1)))
        except NoLogicAvailableError as ex:
            ev["res"] = "nologic"
            n_nologic += 1
        except Exception as ex:
            ev["exc"] = "%s: %s" % (type(ex).__name__, str(ex)[:100])
    ck.part("detection", formulas=len(terms), no_named_logic=n_nologic)
    # ---- order on all named logics (dumped from the code at check time)
    logics = sorted(set(L.LOGICS) | set(L.PYSMT_LOGICS) | set(L.SMTLIB2_LOGICS), key=lambda l: l.name)
    idx = {l.name: i + 1 for i, l in enumerate(logics)}
    le = [[1 if a <= b else 0 for b in logics] for a in logics]
    items = [logic_rec(l) for l in logics]
    add({"kind": "order", "items": items, "le": le})
    ck.nontrivial(("order", len(logics)))
    # ---- combine on the closure of reachable theories
    ths = {th_key(l.theory): l.theory for l in logics}
    ths.update(seen_th)
    limit = 110 if quick else 220
    while True:
        new = {}
        vals = list(ths.values())
        for a in vals:
            for b in vals:
                c = a.combine(b)
                if th_key(c) not in ths:
                    new[th_key(c)] = c
        if not new or len(ths) + len(new) > limit:
            break
        ths.update(new)
    allt = sorted(ths.values(), key=th_key)
    tpos = {th_key(t): i + 1 for i, t in enumerate(allt)}
    # comb[i][j] = index of combine(i, j), or 0 when the result lies outside the recorded set
    comb = [[tpos.get(th_key(a.combine(b)), 0) for b in allt] for a in allt]
    tle = [[1 if a <= b else 0 for b in allt] for a in allt]
    add({"kind": "combine", "ths": [th_rec(t) for t in allt], "le": tle, "comb": comb})
    ck.nontrivial(("combine", len(allt)))
    # ---- closer / most generic
    hdr = {"items": items, "le": le}
    supported_lists = [
        [L.QF_UFLIRA, L.QF_NIRA, L.QF_BV, L.QF_AUFBV, L.QF_LIA, L.LRA, L.QF_UFLIA, L.QF_RDL],
        [L.QF_BOOL, L.BOOL, L.QF_IDL, L.QF_LRA, L.QF_UFBV, L.QF_ABV, L.UFLIRA, L.QF_NRA],
        [L.QF_AUFLIA, L.AUFLIRA, L.QF_UFLRA, L.QF_SLIA, L.QF_AX, L.QF_UF, L.UFNIA, L.QF_UFNRA],
    ]
    n_closer = 0
    targets = logics if not quick else logics[::3]
    for sl in supported_lists:
        for mask in range(1, 2 ** len(sl)):
            if quick and (mask * 2654435761 + ck.seed) % 4 != 0:
                continue
            sub = [l for b, l in enumerate(sl) if mask >> b & 1]
            for t in targets:
                try:
                    r_ = idx[L.get_closer_logic(sub, t).name]
                except NoLogicAvailableError:
                    r_ = 0
                add({"kind": "closer", "S": [idx[l.name] for l in sub], "t": idx[t.name], "r": r_})
                n_closer += 1
            try:
                mg = idx[L.most_generic_logic(sub).name]
            except NoLogicAvailableError:
                mg = 0
            add({"kind": "mostgeneric", "S": [idx[l.name] for l in sub], "r": mg})
    for name, sl in (("PYSMT", sorted(L.PYSMT_LOGICS, key=str)), ("SMTLIB2", sorted(L.SMTLIB2_LOGICS, key=str))):
        for t in logics:
            try:
                r_ = idx[L.get_closer_logic(sl, t).name]
            except NoLogicAvailableError:
                r_ = 0
            add({"kind": "closer", "S": [idx[l.name] for l in sl], "t": idx[t.name], "r": r_})
            n_closer += 1
    ck.nontrivial(("closer", n_closer))
    # ---- Factory.get_solver: solver doubles that only declare LOGICS, registered in the environment's factory
    from pysmt.solvers.solver import Solver as _Solver, SolverOptions as _SolverOptions
    from pysmt.exceptions import NoSolverAvailableError

    def double(k, lgs):
        def __init__(self, environment, logic, **options):
            _Solver.__init__(self, environment=environment, logic=logic, **options)

        def _exit(self):
            pass
        return type("Double%d" % k, (_Solver,), {"LOGICS": list(lgs), "__init__": __init__, "_exit": _exit, "IDX": k, "OptionsClass": _SolverOptions})
    n_factory = 0
    nf = 2500 if quick else 30000
    flat = [l for sl in supported_lists for l in sl]
    for _ in range(nf):
        nsol = ck.rng.choice([1, 2, 2, 3, 3, 4])
        tables = [ck.rng.sample(ck.rng.choice(supported_lists + [flat]), ck.rng.choice([1, 1, 2, 3])) for _k in range(nsol)]
        classes = [double(k + 1, lg) for k, lg in enumerate(tables)]
        names = ["double%d" % (k + 1) for k in range(nsol)]
        prefs = ck.rng.sample(range(1, nsol + 1), ck.rng.choice([nsol, nsol, max(1, nsol - 1)]))
        t = ck.rng.choice(flat + logics[:: 5])
        name = ck.rng.choice([0, 0, 0, 1, nsol, -1])
        fac = env.factory
        saved = (dict(fac._all_solvers), dict(fac.preferences))
        fac._all_solvers = dict(zip(names, classes))
        fac.set_solver_preference_list(["double%d" % k for k in prefs])
        rs = rl = 0
        try:
            inst = fac.get_solver(name=(None if name == 0 else ("missing" if name == -1 else names[name - 1])), logic=t)
            rs, rl = type(inst).IDX, idx[inst.logic.name]
        except NoSolverAvailableError:
            pass
        except NoLogicAvailableError:
            pass
        finally:
            fac._all_solvers, fac.preferences = saved
        add({"kind": "factory", "solvers": [[idx[l.name] for l in lg] for lg in tables], "prefs": prefs, "name": name, "t": idx[t.name],
             "rs": rs, "rl": rl})
        n_factory += 1
    ck.nontrivial(("factory", n_factory))
    verdicts, st = tlc.validate_events("Trace_Pure", evs, constants={"Seed": 0, "Cap": 8}, header=hdr)
    ck.add_tlc(st)
    byid = {e["id"]: e for e in evs}
    for i, fails in verdicts.items():
        e = byid[i]
        for cl in fails:
            if cl.startswith("MODEL-DRIFT"):
                ck.cov["drift"] += 1
                print("MODEL-DRIFT property=C13 %s" % cl)
                continue
            sig = {"kind": e["kind"], "clause": cl}
            if e["kind"] == "detect":
                sig["shape"] = shape(e["f"])
                sig["logic"] = e["logic"]["name"]
            elif e["kind"] == "factory":
                sig["solvers"] = [[items[k - 1]["name"] for k in sv] for sv in e["solvers"]]
                sig["t"] = items[e["t"] - 1]["name"]
                sig["name"] = e["name"]
            elif e["kind"] in ("closer", "mostgeneric"):
                sig["S"] = [items[k - 1]["name"] for k in e["S"]][:10]
                sig["t"] = items[e.get("t", 1) - 1]["name"]
            ck.violation(sig, {"event": e if e["kind"] in ("detect", "closer", "mostgeneric", "factory") else {"kind": e["kind"]}})
    ck.part("events", detect=len(terms), named_logics=len(logics), theories=len(allt), closer=n_closer, factory_selections=n_factory)
    ck.sample({"kind": "detect", "f": evs[0]["f"], "logic": evs[0]["logic"]["name"]})
    ck.sample({"kind": "closer", "event": [e for e in evs if e["kind"] == "closer"][0]})
    ck.cov["exhaustive"] = not quick
    ck.cov["rule"] = ("design check over all triples of valid theories (interacting flags); detection on TLC-generated formulas + feature "
                      "mixes; recorded <= on all named logics; combine on the closure of reachable theories; closer/most-generic on all "
                      "(quick: seeded quarter of) subsets of three 8-logic lists x targets + PYSMT/SMTLIB2 lists")
    ck.assumptions += ["Features()/Expressible() of Logics.tla", "named logics dumped from pysmt.logics at check time"]


def main():
    ck = Check("C13")
    try:
        run(ck)
    except tlc.TLCError as ex:
        ck.machinery_error(str(ex))
    return ck.finish()
