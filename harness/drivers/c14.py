"""C14 - results do not depend on what the environment was used for before.

(A) MC_Walker (memo reuse across walks on a long-lived walker: a memo hit returns what a fresh walk
computes - VisitOnce / ChildrenFirst over every DAG shape, two consecutive walks) and MC_FM (caches).
(B) TLC enumerates call histories (Environment.tla: all sequences of length <= 2 over an 18-call
alphabet of construction, type queries, simplify, substitute with different maps, analyses, logic
detection, sizes with different measures, printing, parsing, rewriters; longer ones by simulation);
each is run in one environment followed by the probe suite, and the probe suite alone in a fresh
twin.  (C) TLC validates with Contracts!TwinContract: results equal up to commutative argument order
and fresh names; repeating a formula-valued call that introduces no fresh symbol returns the same object."""
import warnings
from harness.common import Check, gen_corpus
from harness import tlc
from harness.envcalls import World
from harness.drivers.c15 import run_history, probe_all

DEPS = ("gen/Gen_EnvHist.tla", "Environment.tla")


def analyses(env, z):
    """Every analysis of the environment's long-lived oracles / walkers on one term, as result records."""
    from harness.envcalls import rec
    from harness import term_io
    from pysmt.oracles import get_logic
    import pysmt.rewritings as rw

    def text(fn):
        try:
            return str(fn())
        except Exception as ex:
            return "raises " + type(ex).__name__
    out = [rec("text", s=" | ".join([
        text(lambda: env.theoryo.get_theory(z)), text(lambda: get_logic(z, env)), text(lambda: env.qfo.is_qf(z)),
        text(lambda: sorted(map(str, env.typeso.get_types(z)))), text(lambda: sorted(v.symbol_name() for v in z.get_free_variables())),
        text(lambda: [z.size(k) for k in range(6)]), text(lambda: z.get_type())]))]
    for fn in (lambda: z.simplify(), lambda: rw.nnf(z, env) if z.get_type().is_bool_type() else z):
        try:
            out.append(rec("term", t=term_io.export(fn())))
        except Exception as ex:
            out.append(rec("err", s=type(ex).__name__))
    try:
        out.append(rec("terms", ts=[term_io.export(a) for a in z.get_atoms()]) if z.get_type().is_bool_type() else rec("text", s="-"))
    except Exception as ex:
        out.append(rec("err", s=type(ex).__name__))
    return out


def to_smtlib_both(t):
    from pysmt.smtlib.printers import to_smtlib
    from pysmt.smtlib.script import smtlibscript_from_formula
    import io
    to_smtlib(t, daggify=True)
    to_smtlib(t, daggify=False)
    if t.get_type().is_bool_type():
        smtlibscript_from_formula(t).serialize(io.StringIO())


def rw_nnf(t, env):
    import pysmt.rewritings as rw
    return rw.nnf(t, env) if t.get_type().is_bool_type() else t


def shared_subterm_events(ck, terms, id0):
    """History = every analysis of a TLC-generated term T; probes = the same analyses of T's direct
    sub-terms (whose memoised results the history may have touched) and of T again; twin = a fresh
    environment in which T is only built."""
    from harness.common import fresh_env
    from harness import term_io
    evs = []
    for k, j in enumerate(terms):
        try:
            ea = fresh_env()
            ta = term_io.build_public(j, ea)
            subs_a = [c for c in ta.args() if c.args()][:3]
            if not subs_a:
                continue
            # history-only queries with non-default OPTIONS of the same long-lived oracles / printers
            for opt in (lambda: ea.typeso.get_types(ta, custom_only=True), lambda: ta.size(4), lambda: ta.size(0),
                        lambda: ea.qfo.is_qf(ta), lambda: to_smtlib_both(ta)):
                try:
                    opt()
                except Exception:
                    pass
            analyses(ea, ta)
            # results of transformations are formulas too: what was returned for T is analysed like any other term
            outs = []
            for fn in (lambda: ta.simplify(), lambda: ta.substitute({}), lambda: rw_nnf(ta, ea)):
                try:
                    o = fn()
                    if o is not ta and o.args():
                        outs.append(term_io.export(o))
                except Exception:
                    pass
            outs = outs[:2]
            outs_a = [term_io.build_public(oj, ea) for oj in outs]
            pa = [r for c in subs_a for r in analyses(ea, c)] + analyses(ea, ta) + [r for c in outs_a for r in analyses(ea, c)]
            eb = fresh_env()
            tb = term_io.build_public(j, eb)
            subs_b = [c for c in tb.args() if c.args()][:3]
            outs_b = [term_io.build_public(oj, eb) for oj in outs]
            # in the twin the results are analysed FIRST, before anything has been asked about T
            pb_outs = [r for c in outs_b for r in analyses(eb, c)]
            pb = [r for c in subs_b for r in analyses(eb, c)] + analyses(eb, tb) + pb_outs
        except term_io.Unrepresentable:
            continue
        except Exception:
            continue            # the constructors rejected the generated term
        if len(pa) != len(pb):
            continue
        evs.append({"id": id0 + len(evs), "kind": "twin", "h": [], "pa": pa, "pb": pb, "rep": [1] * len(pa), "term": j})
        ck.count()
        ck.nontrivial(("shared", term_io.term_key(j)))
    return evs


def run(ck):
    warnings.simplefilter("ignore")
    quick = ck.tier == "quick"
    r = tlc.run("mc/MC_Walker", cfg="MC_Walker.cfg", timeout=3000)
    ck.add_tlc(r)
    if r.invariant_violated or r.property_violated or r.error or r.rc != 0:
        ck.machinery_error("MC_Walker: %s %s\n%s" % (r.invariant_violated, r.error, r.out[-1500:]))
    ck.part("design_check_MC_Walker", states=r.distinct)
    hists = gen_corpus("C14", module="gen/Gen_EnvHist", deps=DEPS)
    sim = tlc.run("mc/Sim_Env", cfg="Sim_Env.cfg", simulate="num=%d" % (60 if quick else 800), depth=9, seed=ck.seed + 11, workers=1)
    ck.add_tlc(sim)
    longs, seen = [], set()
    for h in sim.printed():
        if isinstance(h, list) and tuple(h) not in seen:
            seen.add(tuple(h))
            longs.append(h)
    picked = hists + longs[: (250 if quick else 4000)]
    # the twin: a fresh environment that only sees the probes (two execution orders of the probe suite)
    pbs = {o: probe_all(World(), False, o)[0] for o in (0, 1)}
    evs = []
    for k, h in enumerate(picked):
        wa = World()
        run_history(wa, wa.good_calls(), h)
        order = 1 if ck.rng.random() < 0.5 else 0
        pa, rep = probe_all(wa, True, order)
        evs.append({"id": k, "kind": "twin", "h": h, "pa": pa, "pb": pbs[order], "rep": rep})
        ck.count()
        if h:
            ck.nontrivial(tuple(h))
    l2 = gen_corpus("L2", shards=16)
    lq = gen_corpus("LQ")
    nested = [j for j in l2 + lq if any(c["a"] for c in j["a"])]
    # stratified: every (root operator, child operators) shape is represented (1 per shape quick, 8 thorough)
    groups = {}
    for j in nested:
        groups.setdefault((j["op"], tuple(c["op"] for c in j["a"])), []).append(j)
    chosen = []
    for key in sorted(groups):
        g = groups[key]
        chosen += ck.rng.sample(g, min(len(g), 1 if quick else 8))
    # plus every term on which the simplifier's RULE MODEL is not a fix-point (simplifying the result changes it again,
    # beyond argument order) - selected by TLC from spec/Simplifier.tla, not by asking the implementation: there a
    # simplifier that remembered its own results as already simplified would be noticed
    nonidem = gen_corpus("L2", shards=16, module="gen/Gen_NonIdem",
                         deps=("gen/Gen_NonIdem.tla", "gen/Gen_Terms.tla", "Simplifier.tla", "Contracts.tla"),
                         extra_constants={"Seed": 0, "Cap": 8})
    chosen += nonidem[: (40 if quick else len(nonidem))]
    shared = shared_subterm_events(ck, chosen, len(evs))
    evs += shared
    verdicts, st = tlc.validate_events("Trace_Pure", evs, constants={"Seed": 0, "Cap": 8})
    ck.add_tlc(st)
    w = World()
    names = [n_ for n_, _ in w.good_calls()]
    pnames = [n_ for n_, _, _ in w.probes()]
    byid = {e["id"]: e for e in evs}
    for i, fails in verdicts.items():
        e = byid[i]
        if "term" in e:
            from harness.drivers.c01 import shape
            for cl in fails:
                ck.violation({"kind": "twin", "clause": cl, "family": "analyses of a sub-term after analysing the term", "shape": shape(e["term"])}, {"event": e})
            continue
        for cl in fails:
            bad = [pnames[j] for j in range(len(e["pa"])) if e["pa"][j] != e["pb"][j] or e["rep"][j] == 0][:4]
            ck.violation({"kind": "twin", "clause": cl, "history": [names[c - 1] for c in e["h"]][:6], "probes": bad}, {"event": e})
    ck.part("histories", exhaustive_len_le_2=len(hists), simulated_len8=len(longs), used=len(picked), probes=len(pnames))
    ck.part("shared_subterms", terms=len(shared), analyses_per_term=4, non_fixpoint_simplifications=len(nonidem))
    ck.sample({"history": [names[c - 1] for c in evs[40]["h"]], "probe": pnames[0], "A": evs[40]["pa"][0], "B": evs[40]["pb"][0]})
    ck.cov["exhaustive"] = True
    ck.cov["rule"] = ("call histories enumerated by TLC (all sequences of length <= 2 over the 20-call alphabet, simulated length 8) x 18 "
                      "probes; twin = fresh environment running the probes only. non-trivial = distinct non-empty histories")
    ck.assumptions += ["harness/envcalls.py catalogue; equality up to commutative argument order / fresh names is decided in TLA+"]


def main():
    ck = Check("C14")
    try:
        run(ck)
    except tlc.TLCError as ex:
        ck.machinery_error(str(ex))
    return ck.finish()
