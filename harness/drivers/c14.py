"""C14 - results do not depend on what the environment was used for before.

(A) MC_Walker (memo reuse across walks on a long-lived walker: a memo hit returns what a fresh walk
computes - VisitOnce / ChildrenFirst over every DAG shape, two consecutive walks) and MC_FM (caches).
(B) TLC enumerates call histories (Environment.tla: all sequences of length <= 2 over an 18-call
alphabet of construction, type queries, simplify, substitute with different maps, analyses, logic
detection, sizes with different measures, printing, parsing, rewriters; longer ones by simulation);
each is run in one environment followed by the probe suite, and the probe suite alone in a fresh
twin.  (C) TLC validates with Contracts!TwinContract: results equal up to commutative argument order
and fresh names; repeating a formula-valued call that introduces no fresh symbol returns the same object."""
import warnings
from harness.common import Check, gen_corpus
from harness import tlc
from harness.envcalls import World
from harness.drivers.c15 import run_history, probe_all

DEPS = ("gen/Gen_EnvHist.tla", "Environment.tla")


def run(ck):
    warnings.simplefilter("ignore")
    quick = ck.tier == "quick"
    r = tlc.run("mc/MC_Walker", cfg="MC_Walker.cfg", timeout=3000)
    ck.add_tlc(r)
    if r.invariant_violated or r.property_violated or r.error or r.rc != 0:
        ck.machinery_error("MC_Walker: %s %s\n%s" % (r.invariant_violated, r.error, r.out[-1500:]))
    ck.part("design_check_MC_Walker", states=r.distinct)
    hists = gen_corpus("C14", module="gen/Gen_EnvHist", deps=DEPS)
    sim = tlc.run("mc/Sim_Env", cfg="Sim_Env.cfg", simulate="num=%d" % (60 if quick else 800), depth=9, seed=ck.seed + 11, workers=1)
    ck.add_tlc(sim)
    longs, seen = [], set()
    for h in sim.printed():
        if isinstance(h, list) and tuple(h) not in seen:
            seen.add(tuple(h))
            longs.append(h)
    picked = hists + longs[: (250 if quick else 4000)]
    wb = World()
    pb, _ = probe_all(wb, False)         # the twin: a fresh environment that only sees the probes
    evs = []
    for k, h in enumerate(picked):
        wa = World()
        run_history(wa, wa.good_calls(), h)
        pa, rep = probe_all(wa, True)
        evs.append({"id": k, "kind": "twin", "h": h, "pa": pa, "pb": pb, "rep": rep})
        ck.count()
        if h:
            ck.nontrivial(tuple(h))
    verdicts, st = tlc.validate_events("Trace_Pure", evs, constants={"Seed": 0, "Cap": 8})
    ck.add_tlc(st)
    w = World()
    names = [n_ for n_, _ in w.good_calls()]
    pnames = [n_ for n_, _, _ in w.probes()]
    byid = {e["id"]: e for e in evs}
    for i, fails in verdicts.items():
        e = byid[i]
        for cl in fails:
            bad = [pnames[j] for j in range(len(e["pa"])) if e["pa"][j] != e["pb"][j] or e["rep"][j] == 0][:4]
            ck.violation({"kind": "twin", "clause": cl, "history": [names[c - 1] for c in e["h"]][:6], "probes": bad}, {"event": e})
    ck.part("histories", exhaustive_len_le_2=len(hists), simulated_len8=len(longs), used=len(picked), probes=len(pnames))
    ck.sample({"history": [names[c - 1] for c in evs[40]["h"]], "probe": pnames[0], "A": evs[40]["pa"][0], "B": evs[40]["pb"][0]})
    ck.cov["exhaustive"] = True
    ck.cov["rule"] = ("call histories enumerated by TLC (all sequences of length <= 2 over the 20-call alphabet, simulated length 8) x 18 "
                      "probes; twin = fresh environment running the probes only. non-trivial = distinct non-empty histories")
    ck.assumptions += ["harness/envcalls.py catalogue; equality up to commutative argument order / fresh names is decided in TLA+"]


def main():
    ck = Check("C14")
    try:
        run(ck)
    except tlc.TLCError as ex:
        ck.machinery_error(str(ex))
    return ck.finish()
