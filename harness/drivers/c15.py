"""C15 - a failing call leaves no trace.

(A) MC_Walker (shared with C20): in the implementation-shaped DagWalker machine TLC checks
FailureTransparent over every DAG shape and every failing node (and finds the counterexample in the
configuration without the clean-up, the defect repaired by the `fix:` commit 065db3b).
(B) TLC enumerates fault histories (Environment.tla: all sequences of length <= 3 over 6 good and 32
failing calls with at least one failing call; longer ones by simulation); the harness runs each on
environment A and the history with the failing calls removed on twin B, then a fixed probe suite on
both (reused parser / substituter / simplifier / serializer objects included).
(C) TLC validates probe results pairwise with Contracts!TwinContract (equality up to commutative
argument order and fresh names)."""
import warnings
from harness.common import Check, gen_corpus
from harness import tlc
from harness.envcalls import World

DEPS = ("gen/Gen_EnvHist.tla", "Environment.tla")


def run_history(world, calls, hist):
    outcomes = []
    for c in hist:
        name, fn = calls[c - 1]
        r, _ = fn()
        outcomes.append(r["k"])
    return outcomes


def probe_all(world, want_rep, order=0):
    """Runs the probe suite; results are reported in catalogue order whatever the execution order.
    order 1 runs the plain substitution probe before every other probe."""
    probes = world.probes()
    idx = list(range(len(probes)))
    if order == 1:
        k = [n_ for n_, _, _ in probes].index("subst {q:p} phi1")
        idx = [k] + [i for i in idx if i != k]
    res, rep = [None] * len(probes), [1] * len(probes)
    for i in idx:
        name, fn, repeatable = probes[i]
        r, obj = fn()
        res[i] = r
        if want_rep and repeatable and obj is not None:
            r2, obj2 = fn()
            rep[i] = 1 if obj2 is obj else 0
    return res, rep


def run(ck):
    warnings.simplefilter("ignore")
    quick = ck.tier == "quick"
    NG = len(World().c15_good_calls())
    # ---- (A)
    r = tlc.run("mc/MC_Walker", cfg="MC_Walker_oneshot.cfg", timeout=3000)
    ck.add_tlc(r)
    if r.invariant_violated or r.property_violated or r.error or r.rc != 0:
        ck.machinery_error("MC_Walker oneshot: %s %s\n%s" % (r.invariant_violated, r.error, r.out[-1500:]))
    ru = tlc.run("mc/MC_Walker", cfg="MC_Walker_unfixed.cfg", timeout=3000)
    if "FailureTransparent" not in ru.invariant_violated:
        ck.machinery_error("MC_Walker_unfixed did not produce the expected counterexample")
    ck.part("design_check_MC_Walker", states=r.distinct, unfixed_counterexample=True)
    hists = gen_corpus("C15", module="gen/Gen_EnvHist", deps=DEPS)
    sim = tlc.run("mc/Sim_Env", cfg="Sim_EnvFail.cfg", simulate="num=%d" % (60 if quick else 600), depth=8, seed=ck.seed + 3, workers=1)
    ck.add_tlc(sim)
    longs, seen = [], set()
    for h in sim.printed():
        if isinstance(h, list) and tuple(h) not in seen and any(c > NG for c in h):
            seen.add(tuple(h))
            longs.append({"h": h, "twin": [c for c in h if c <= NG]})
    n = 600 if quick else 9000          # (all 45k histories of length 3 took 52 minutes; length <= 2 stays exhaustive)
    len3 = [h for h in hists if len(h["h"]) == 3]
    len2 = [h for h in hists if len(h["h"]) == 2]
    n2 = 600 if quick else len(len2)
    picked = [h for h in hists if len(h["h"]) <= 1] + ck.rng.sample(len2, min(n2, len(len2))) + ck.rng.sample(len3, min(n, len(len3)))
    picked += longs[: (150 if quick else 1500)]
    evs = []
    for k, hc in enumerate(picked):
        wa = World()
        calls_a = wa.c15_good_calls() + wa.fail_calls()
        oa = run_history(wa, calls_a, hc["h"])
        order = 1 if ck.rng.random() < 0.5 else 0
        pa, rep = probe_all(wa, False, order)
        wb = World()
        calls_b = wb.c15_good_calls() + wb.fail_calls()
        run_history(wb, calls_b, hc["twin"])
        pb, _ = probe_all(wb, False, order)
        evs.append({"id": k, "kind": "twin", "h": hc["h"], "twin": hc["twin"], "outcomes": oa, "pa": pa, "pb": pb, "rep": rep,
                    "isfail": [1 if c > NG else 0 for c in hc["h"]]})
        ck.count()
        nfailed = sum(1 for c, o in zip(hc["h"], oa) if c > NG and o == "err")
        if nfailed:
            ck.nontrivial(tuple(hc["h"]))
        for c, o in zip(hc["h"], oa):
            if c > NG and o != "err":
                ck.note("catalogue call %d expected to fail did not fail" % c)
    verdicts, st = tlc.validate_events("Trace_Pure", evs, constants={"Seed": 0, "Cap": 8})
    ck.add_tlc(st)
    w = World()
    names = [n_ for n_, _ in w.c15_good_calls() + w.fail_calls()]
    pnames = [n_ for n_, _, _ in w.probes()]
    byid = {e["id"]: e for e in evs}
    for i, fails in verdicts.items():
        e = byid[i]
        for cl in fails:
            bad = [pnames[j] for j in range(len(e["pa"])) if e["pa"][j] != e["pb"][j]][:4]
            ck.violation({"kind": "twin", "clause": cl, "history": [names[c - 1] for c in e["h"]], "probes": bad}, {"event": e})
    ck.part("histories", exhaustive_len_le_3=len(hists), used=len(picked), simulated=len(longs), probes=len(pnames),
            failing_calls=len(w.fail_calls()))
    ck.sample({"history": [names[c - 1] for c in evs[7]["h"]], "twin": [names[c - 1] for c in evs[7]["twin"]],
               "outcomes": evs[7]["outcomes"], "probe0_A": evs[7]["pa"][0]})
    ck.cov["exhaustive"] = False
    ck.cov["rule"] = ("fault histories enumerated by TLC (all sequences of length <= 3 over 6 good + 32 failing calls with >= 1 failing "
                      "call; length <= 2 exhaustive, length 3 sampled (600 quick / 9000 thorough); simulated length 7) x 28 probes in two execution orders, twin run without the failing calls. "
                      "non-trivial = distinct histories in which at least one call actually raised")
    ck.assumptions += ["harness/envcalls.py catalogue of failing calls covers: ill-typed construction, sort-breaking substitution at 5 "
                       "depths, exception inside a walk, an operator without handler met in the middle of a traversal (6 walkers), undefined symbol, malformed SMT-LIB, HR syntax error"]


def main():
    ck = Check("C15")
    try:
        run(ck)
    except tlc.TLCError as ex:
        ck.machinery_error(str(ex))
    return ck.finish()
