"""C16 - scripts and incremental solvers track exactly the live assertions.

(A) MC_Stack: TLC explores every command history (length <= 6, 12-command alphabet) of the
implementation-shaped TrackingSolver model (pending_pop, backtrack points, clear_pending_pop) and
checks that it refines the abstract assertion stack (TracksLiveAssertions, PopIsSafe).
(B) TLC enumerates all legal histories of the abstract machine (Gen_Hist, length <= 4 exhaustive;
longer ones by `tlc -simulate` on SmtLibScript) - they are replayed into real SmtLibScript objects
(built by the real parser from text; get_last_formula read for every prefix) and into real
IncrementalTrackingSolver subclasses (a harness subclass decorated like the in-tree solvers, and the
in-tree Portfolio with a stubbed _solve).  (C) every observation is validated by TLC against the
abstract machine (ScriptHistoryContract / SolverHistoryContract)."""
import io
import warnings
from harness.common import Check, gen_corpus, fresh_env
from harness import term_io, tlc
from pysmt.smtlib.parser import SmtLibParser
from pysmt.smtlib.script import SmtLibScript
from pysmt.solvers.solver import IncrementalTrackingSolver, SolverOptions
from pysmt.solvers.portfolio import Portfolio
from pysmt.decorators import clear_pending_pop
from pysmt.logics import QF_LIA
from pysmt.typing import INT as INT_

DEPS = ("gen/Gen_Hist.tla", "AssertionStack.tla", "StackAlphabets.tla")

TERMS_SMT = {1: "p", 2: "(or q p)", 3: "r", 4: "(and r q)", 5: "x", 6: "(+ x y)"}
DECLS = "(declare-fun p () Bool)(declare-fun q () Bool)(declare-fun r () Bool)(declare-fun x () Int)(declare-fun y () Int)"


def cmd_text(c):
    k = c["c"]
    if k == "assert":
        return "(assert %s)" % TERMS_SMT[c["x"]]
    if k == "soft":
        return "(assert-soft %s :id %s :weight %d)" % (TERMS_SMT[c["x"]], c["id"], c["n"])
    if k in ("push", "pop"):
        return "(%s %d)" % (k, c["n"])
    if k == "reset":
        return "(reset-assertions)"
    if k == "check":
        return "(check-sat)"
    if k in ("maximize", "minimize"):
        return "(%s %s%s%s)" % (k, TERMS_SMT[c["x"]], (" :id " + c["id"]) if c["id"] else "", " :signed" if c["n"] == 1 else "")
    raise ValueError(k)


class TrackSolver(IncrementalTrackingSolver):
    """Minimal concrete tracking solver, decorated exactly like the in-tree solvers."""
    OptionsClass = SolverOptions
    LOGICS = [QF_LIA]

    def __init__(self, environment, logic=QF_LIA, **options):
        IncrementalTrackingSolver.__init__(self, environment=environment, logic=logic, **options)

    @clear_pending_pop
    def _reset_assertions(self):
        pass

    @clear_pending_pop
    def _add_assertion(self, formula, named=None):
        return formula

    fail_next = False

    @clear_pending_pop
    def _solve(self, assumptions=None):
        if self.fail_next:
            # the back-end gives up on this query (a failing call: the stack must be as if it had never been made)
            self.fail_next = False
            from pysmt.exceptions import SolverReturnedUnknownResultError
            raise SolverReturnedUnknownResultError()
        return True

    @clear_pending_pop
    def _push(self, levels=1):
        pass

    @clear_pending_pop
    def _pop(self, levels=1):
        pass

    def _exit(self):
        pass


def goal_obs(g, ident):
    if g.is_maxsmt_goal():
        return {"k": "maxsmt", "x": 0, "soft": [[ident[c], int(w.constant_value())] for c, w in g.soft], "sg": 0}
    k = "maximize" if g.is_maximization_goal() else "minimize"
    return {"k": k, "x": ident[g.term()], "soft": [], "sg": 1 if g.signed else 0}


def run(ck):
    warnings.simplefilter("ignore")
    quick = ck.tier == "quick"
    # ---- (A)
    r = tlc.run("mc/MC_Stack", timeout=1200)
    ck.add_tlc(r)
    if r.invariant_violated or r.error or r.rc != 0:
        ck.machinery_error("MC_Stack: %s %s\n%s" % (r.invariant_violated, r.error, r.out[-1500:]))
    ck.part("design_check_MC_Stack", states=r.distinct, max_len=6, wall=round(r.wall, 1))
    env = fresh_env()
    mgr = env.formula_manager
    parser = SmtLibParser(env)
    terms = {}
    for i, t in TERMS_SMT.items():
        terms[i] = parser.get_script(io.StringIO(DECLS + "(assert %s)" % t)).commands[-1].args[0] if i <= 4 else None
    x = mgr.get_symbol("x")
    y = mgr.get_symbol("y")
    terms[5] = x
    terms[6] = mgr.Plus(x, y)
    ident = {t: i for i, t in terms.items()}
    term_json = [term_io.export(terms[i]) for i in range(1, 7)]
    # ---- histories
    s3 = gen_corpus("SCRIPT3", module="gen/Gen_Hist", deps=DEPS)
    s4 = gen_corpus("SCRIPT4", module="gen/Gen_Hist", deps=DEPS)
    v3 = gen_corpus("SOLVER3", module="gen/Gen_Hist", deps=DEPS)
    v4 = gen_corpus("SOLVER4", module="gen/Gen_Hist", deps=DEPS)
    sim_n = 400 if quick else 5000
    sims = tlc.run("mc/Sim_Script", cfg="Sim_Script.cfg", simulate="num=%d" % sim_n, depth=15, seed=ck.seed + 1, workers=1)
    simv = tlc.run("mc/Sim_Script", cfg="Sim_Solver.cfg", simulate="num=%d" % sim_n, depth=15, seed=ck.seed + 1, workers=1)
    ck.add_tlc(sims)
    ck.add_tlc(simv)

    def dedup(lst):
        seen, out = set(), []
        for h in lst:
            k = term_io.term_key(h)
            if k not in seen:
                seen.add(k)
                out.append(h)
        return out
    long_s = dedup(sims.printed())[: (300 if quick else 4000)]
    long_v = dedup(simv.printed())[: (300 if quick else 4000)]
    script_h = s3 + (ck.rng.sample(s4, min(len(s4), 6000)) if quick else s4) + long_s
    solver_h = v3 + (ck.rng.sample(v4, min(len(v4), 6000)) if quick else v4) + long_v
    evs = []
    eid = 0
    # ---- scripts: parse the text of the whole history, read every prefix
    for h in script_h:
        text = "".join(cmd_text(c) for c in h)
        try:
            full = parser.get_script(io.StringIO(DECLS + text))
            cmds = list(full.commands)[5:]       # drop the five declarations
            obs = []
            for k in range(1, len(cmds) + 1):
                sc = SmtLibScript()
                for c in cmds[:k]:
                    sc.add_command(c)
                f, goals = sc.get_last_formula(mgr, return_optimizations=True)
                obs.append({"formula": term_io.export(f), "goals": [goal_obs(g, ident) for g in goals]})
            evs.append({"id": eid, "kind": "script_hist", "cmds": h, "obs": obs, "terms": term_json})
            if any(c["c"] in ("pop", "reset") for c in h):
                ck.nontrivial(("script", term_io.term_key(h)))
        except Exception as ex:
            ck.violation({"kind": "script_hist", "clause": "raises", "exc": type(ex).__name__}, {"history": h, "exception": repr(ex)})
        eid += 1
        ck.count()
    # ---- solvers
    fm = {1: terms[1], 2: terms[2], 3: terms[3], 4: terms[4]}
    sid = {t: i for i, t in fm.items()}
    # the formula passed to is_valid is negated by the API: the tracked assertion is Not(f)
    sid[mgr.Not(fm[4])] = 4
    for cf in (mgr.FALSE(), mgr.TRUE(), mgr.Not(mgr.FALSE()), mgr.Not(mgr.TRUE()), mgr.Not(mgr.Not(mgr.FALSE()))):
        sid[cf] = 3

    def make_solver(kind):
        if kind == "track":
            return TrackSolver(env)
        s = Portfolio([], environment=env, logic=QF_LIA)
        s._solve = lambda assumptions=None: True   # stub: no process is spawned
        return s

    def observe(s, public):
        if public:
            return [sid[a] for a in s.assertions]
        st = list(s._assertion_stack)
        if s.pending_pop:
            st = st[:s._backtrack_points[-1]]
        return [sid[a] for a in st]

    for n, h in enumerate(solver_h):
        for kind, public in (("track", True), ("track", False)) + ((("portfolio", n % 2 == 0),) if n % 5 == 0 else ()):
            s = make_solver(kind)
            obs = []
            try:
                for c in h:
                    k = c["c"]
                    if k == "assert":
                        # the batch entry point with every kind of iterable is another spelling of the same command
                        way = ck.rng.randrange(6)
                        if way == 0:
                            s.add_assertions([fm[c["x"]]])
                        elif way == 1:
                            s.add_assertions(f_ for f_ in (fm[c["x"]],))
                        elif way == 2:
                            s.add_assertions(iter((fm[c["x"]],)))
                        else:
                            s.add_assertion(fm[c["x"]])
                    elif k == "push":
                        s.push(c["n"])
                    elif k == "pop":
                        s.pop(c["n"])
                    elif k == "reset":
                        s.reset_assertions()
                    elif k == "solve":
                        s.solve()
                    elif k == "solve_assuming":
                        s.solve([fm[c["x"]]])
                    elif k in ("is_sat", "is_valid", "is_unsat"):
                        # a one-shot query leaves the stack alone WHATEVER it asks: four of seven queries are about a
                        # constant (false / true / not false), which an implementation may answer without solving
                        qf_ = ck.rng.choice([fm[c["x"]]] * 3 + [mgr.FALSE(), mgr.FALSE(), mgr.TRUE(), mgr.Not(mgr.FALSE())])
                        # one query in five FAILS: the back-end raises "unknown", or the query formula is not Boolean
                        # (rejected after the one-shot frame was opened) - a failing query is a no-op like any other query
                        failing = ck.rng.randrange(10)
                        if kind == "track" and failing == 0:
                            s.fail_next = True
                        elif failing == 1:
                            qf_ = mgr.Plus(mgr.Symbol("x", INT_), mgr.Int(1))
                        try:
                            getattr(s, k)(qf_)
                        except Exception:
                            if failing > 1:
                                raise
                        s.fail_next = False
                    obs.append(observe(s, public))
                # the final observation is always through the public property
                obs[-1] = observe(s, True)
                evs.append({"id": eid, "kind": "solver_hist", "cmds": h, "obs": obs, "impl": kind, "public": public})
                if any(c["c"] in ("is_sat", "is_valid", "is_unsat") for c in h):
                    ck.nontrivial(("solver", kind, public, term_io.term_key(h)))
            except Exception as ex:
                ck.violation({"kind": "solver_hist", "clause": "raises", "exc": type(ex).__name__, "impl": kind},
                             {"history": h, "exception": repr(ex)})
            eid += 1
            ck.count()
    # two LIVE solvers driven in turns (one command each): what one of them pushes, pops or asks leaves the other alone
    def step(s, c):
        k = c["c"]
        if k == "assert":
            s.add_assertion(fm[c["x"]])
        elif k == "push":
            s.push(c["n"])
        elif k == "pop":
            s.pop(c["n"])
        elif k == "reset":
            s.reset_assertions()
        elif k == "solve":
            s.solve()
        elif k == "solve_assuming":
            s.solve([fm[c["x"]]])
        else:
            getattr(s, k)(fm[c["x"]])
    pool = [h for h in solver_h if len(h) >= 6 and sum(1 for c in h if c["c"] in ("push", "pop")) >= 2
            and any(c["c"] == "assert" for c in h)] or [h for h in solver_h if len(h) >= 3]
    n_pairs = 0
    for _ in range(300 if quick else 3000):
        h1, h2 = ck.rng.choice(pool), ck.rng.choice(pool)
        s1, s2 = make_solver("track"), make_solver("track")
        o1, o2 = [], []
        try:
            for i in range(max(len(h1), len(h2))):
                if i < len(h1):
                    step(s1, h1[i])
                    o1.append(observe(s1, True))
                if i < len(h2):
                    step(s2, h2[i])
                    o2.append(observe(s2, True))
            for h, o in ((h1, o1), (h2, o2)):
                evs.append({"id": eid, "kind": "solver_hist", "cmds": h, "obs": o, "impl": "track_interleaved", "public": True})
                eid += 1
                ck.count()
            n_pairs += 1
        except Exception as ex:
            ck.violation({"kind": "solver_hist", "clause": "raises", "exc": type(ex).__name__, "impl": "track_interleaved"},
                         {"history": [h1, h2], "exception": repr(ex)})
    ck.part("two_interleaved_solvers", pairs=n_pairs)
    verdicts, st = tlc.validate_events("Trace_Pure", evs, constants={"Seed": 0, "Cap": 8})
    ck.add_tlc(st)
    byid = {e["id"]: e for e in evs}
    for i, fails in verdicts.items():
        e = byid[i]
        for cl in fails:
            ck.violation({"kind": e["kind"], "clause": cl, "impl": e.get("impl", "script"),
                          "cmds": [c["c"] + (str(c["n"]) if c["c"] in ("push", "pop") else "") for c in e["cmds"]][:8]},
                         {"event": e})
    ck.part("histories", script_exhaustive_len3=len(s3), script_len4=len(s4), solver_exhaustive_len3=len(v3), solver_len4=len(v4),
            script_used=len(script_h), solver_used=len(solver_h), simulated_script=len(long_s), simulated_solver=len(long_v))
    ck.sample({"kind": "script_hist", "cmds": evs[5]["cmds"], "obs_last": evs[5]["obs"][-1]})
    ck.sample({"kind": "solver_hist", "cmds": evs[-1]["cmds"], "obs": evs[-1]["obs"]})
    ck.cov["exhaustive"] = not quick
    ck.cov["rule"] = ("all legal histories of the abstract assertion stack up to length 3 (exhaustive) and length 4 (exhaustive in "
                      "thorough, seeded sample in quick) + simulated histories of length 14, over a 15-command script alphabet and a "
                      "14-command solver alphabet; every prefix observed. non-trivial = distinct histories containing pop/reset "
                      "(scripts) or a one-shot query (solvers)")
    ck.assumptions += ["objectives and soft assertions are scoped by assertion level (as assertions are)",
                       "TrackSolver harness subclass is decorated like the in-tree solvers"]


def main():
    ck = Check("C16")
    try:
        run(ck)
    except tlc.TLCError as ex:
        ck.machinery_error(str(ex))
    return ck.finish()
