"""C17 - text-interface solvers: legal command stream, replies in sync, faithful model.

The STRICT REFERENCE SOLVER is the specification: the SMT-LIB script semantics of SmtLibSyntax.tla
(declarations scoped by assertion level, Illegal on redeclaration in scope, on use before declaration
or after the declaring level was popped, on pop below level 0).
(B) TLC enumerates API histories (Gen_Hist SLS: add_assertion of three formulas sharing symbols,
push/pop 1-2, solve, get_value, get_model, reset_assertions, is_sat / is_valid / is_unsat; all legal
histories up to length 3, length 4 sampled, simulated length 10); each is replayed on a real
SmtLibSolver (also obtained through Factory.add_generic_solver) whose executable is
harness/fakes/smt_solver.py: a process that logs every command before replying and never rejects
anything itself.  API calls and commands are joined by call boundaries (single-threaded library: the
commands logged between the start and the return of call k belong to call k).
(C) TLC runs the command stream through the strict machine and validates (SolverStreamContract):
never Illegal; after each call the solver holds exactly the live assertions of the API history; each
verdict is the reply to the check-sat sent during that call; after sat get_model assigns every symbol
of the live assertions the value the solver reported."""
import json
import os
import sys
import tempfile
import warnings
from harness.common import Check, gen_corpus, fresh_env, VERIF
from harness import term_io, tlc, sexpr
from pysmt.smtlib.solver import SmtLibSolver
from pysmt.smtlib.script import SmtLibCommand
import pysmt.smtlib.commands as smtcmd
from pysmt.logics import QF_UFLIRA, QF_AUFBVLIRA
from pysmt.typing import BOOL, INT, BVType
from pysmt.solvers.eager import EagerModel

DEPS = ("gen/Gen_Hist.tla", "AssertionStack.tla", "StackAlphabets.tla")
FAKE = os.path.join(VERIF, "harness", "fakes", "smt_solver.py")


def smt_const(v):
    if v.is_bool_constant():
        return "true" if v.constant_value() else "false"
    if v.is_int_constant():
        k = v.constant_value()
        return str(k) if k >= 0 else "(- %d)" % -k
    if v.is_bv_constant():
        return "#b" + v.bv_bin_str()
    raise ValueError(v)


def world(env):
    m = env.formula_manager
    p, q = m.Symbol("p", BOOL), m.Symbol("q", BOOL)
    x, y = m.Symbol("x", INT), m.Symbol("y", INT)
    b = m.Symbol("b", BVType(2))
    terms = {1: m.Or(p, m.LE(x, y)), 2: m.And(q, m.Equals(m.BVAdd(b, m.BV(1, 2)), m.BV(3, 2))),
             3: m.Implies(p, m.LT(y, m.Plus(x, m.Int(3)))), 4: m.And(m.Not(q), m.LE(x, m.Int(0))),
             5: m.Or(p, m.Not(p), m.Equals(b, m.BV(0, 2)))}
    # user-declared sorts: a plain one and two instances of a parametric one (used by the sort-declaration histories)
    from pysmt.typing import Type
    S, Pair = Type("S"), Type("Pair", 2)
    terms[6] = m.Equals(m.Symbol("k1", S), m.Symbol("k2", S))
    terms[7] = m.And(m.Equals(m.Symbol("pa", Pair(INT, S)), m.Symbol("pc", Pair(INT, S))),
                     m.Not(m.Equals(m.Symbol("pb", Pair(S, INT)), m.Symbol("pd", Pair(S, INT)))))
    # symbols of user-declared sorts that the simplification applied by add_assertion removes (k3 = k3)
    T = Type("T")
    terms[8] = m.And(m.Equals(m.Symbol("k3", T), m.Symbol("k3", T)), m.Or(p, m.LE(x, y)))
    terms[9] = m.Or(m.Not(m.Equals(m.Symbol("pe", Pair(T, T)), m.Symbol("pe", Pair(T, T)))), m.Not(q))
    # an uninterpreted FUNCTION symbol shared by two assertions (declared once while in scope, like any symbol)
    from pysmt.typing import FunctionType
    fsym = m.Symbol("fn", FunctionType(INT, [INT]))
    terms[10] = m.Equals(m.Function(fsym, [x]), y)
    terms[11] = m.Or(m.LE(m.Function(fsym, [y]), x), p)
    m0 = {p: m.TRUE(), q: m.TRUE(), x: m.Int(1), y: m.Int(2), b: m.BV(2, 2)}
    return terms, m0, [p, q, x, y, b]


def assert_text(f):
    import io
    buf = io.StringIO()
    SmtLibCommand(smtcmd.ASSERT, [f.simplify()]).serialize(buf, daggify=True)
    return " ".join(buf.getvalue().split())


def run_history(env, hist, terms, m0, syms, via_factory, scratch):
    m = env.formula_manager
    model = EagerModel(m0, env)
    # every formula the wrapper may assert (the one-shot queries assert the query formula or its negation)
    cands = list(terms.values()) + [m.Not(terms[5])]
    def holds(f):
        try:
            return model.get_value(f).is_true()
        except Exception:
            return False            # symbols of user-declared sorts have no value in the fixed model
    table = {"true": [assert_text(f) for f in cands if holds(f)],
             "values": {s.symbol_name(): smt_const(v) for s, v in m0.items()}}
    tpath = os.path.join(scratch, "table.json")
    lpath = os.path.join(scratch, "log.ndjson")
    json.dump(table, open(tpath, "w"))
    os.environ["FAKE_SOLVER_TABLE"] = tpath
    os.environ["FAKE_SOLVER_LOG"] = lpath
    args = [sys.executable, FAKE]
    if via_factory:
        name = "fake_smt_%d" % run_history.counter
        run_history.counter += 1
        env.factory.add_generic_solver(name, args, [QF_AUFBVLIRA])
        solver = env.factory.Solver(name=name, logic=QF_AUFBVLIRA)
    else:
        solver = SmtLibSolver(args, env, QF_AUFBVLIRA, LOGICS=[QF_AUFBVLIRA])

    def ncmds():
        try:
            return sum(1 for l in open(lpath) if '"cmd"' in l)
        except IOError:
            return 0
    prologue = ncmds()
    calls = []
    last_sat_fresh = False
    live = [[]]          # the formulas the API history has asserted, per level (harness-side book-keeping of WHAT to ask)
    for c in hist:
        before = ncmds()
        rec = {"api": c, "ncmds": 0, "res": "none", "checksat": [], "model": [], "value": term_io.node("bool_constant", i=[1]),
               "asked": "", "exc": ""}
        k = c["c"]
        try:
            if k == "assert":
                solver.add_assertion(terms[c["x"]])
                live[-1].append(terms[c["x"]])
                last_sat_fresh = False
            elif k == "push":
                solver.push(c["n"])
                live += [[] for _ in range(c["n"])]
                last_sat_fresh = False
            elif k == "pop":
                solver.pop(c["n"])
                del live[len(live) - c["n"]:]
                last_sat_fresh = False
            elif k == "reset":
                solver.reset_assertions()
                live = [[]]
                last_sat_fresh = False
            elif k == "solve":
                r = solver.solve()
                rec["res"] = "true" if r else "false"
                last_sat_fresh = bool(r)
            elif k in ("is_sat", "is_valid", "is_unsat"):
                r = getattr(solver, k)(terms[c["x"]])
                rec["res"] = "true" if r else "false"
                last_sat_fresh = (k == "is_sat" and r) or (k in ("is_valid", "is_unsat") and not r)
            elif k == "get_value":
                live_syms = sorted({z for lv in live for f_ in lv for z in f_.get_free_variables()}, key=lambda z: z.symbol_name())
                if last_sat_fresh and live_syms:
                    s = live_syms[(len(calls)) % len(live_syms)]
                    v = solver.get_value(s)
                    rec["value"] = term_io.export(v)
                    rec["asked"] = s.symbol_name()
                else:
                    rec["res"] = "skipped"
            elif k == "get_model":
                if last_sat_fresh:
                    mdl = solver.get_model()
                    rec["model"] = [{"n": s.symbol_name(), "v": term_io.export(v)} for s, v in mdl]
                else:
                    rec["res"] = "skipped"
        except Exception as ex:
            rec["res"] = "error"
            rec["exc"] = "%s: %s" % (type(ex).__name__, str(ex)[:100])
            last_sat_fresh = False
        after = ncmds()
        rec["ncmds"] = after - before
        calls.append(rec)
    try:
        solver.exit()
    except Exception:
        pass
    entries = [json.loads(l) for l in open(lpath)]
    cmds = [e_["cmd"] for e_ in entries if "cmd" in e_]
    replies = {e_["seq"]: e_["reply"] for e_ in entries if "reply" in e_}
    # attribute check-sat replies to calls through the call boundaries
    pos = prologue
    for rec in calls:
        seg = range(pos + 1, pos + rec["ncmds"] + 1)
        rec["checksat"] = [replies[s] for s in seg if cmds[s - 1].startswith("(check-sat") and s in replies]
        pos += rec["ncmds"]
    total = prologue + sum(r["ncmds"] for r in calls)
    sxs = []
    for t in cmds[:total]:
        try:
            sxs.append(sexpr.read_one(t))
        except sexpr.SexprError as ex:
            sxs.append(sexpr.lst(sexpr.sym("!!unreadable")))
    return {"kind": "solver_stream", "sxs": sxs, "prologue": prologue, "calls": calls,
            "terms": [term_io.export(terms[i]) for i in range(1, len(terms) + 1)],
            "m0": [{"n": s.symbol_name(), "v": term_io.export(v)} for s, v in m0.items()], "via_factory": via_factory}


run_history.counter = 0


def run(ck):
    warnings.simplefilter("ignore")
    quick = ck.tier == "quick"
    h3 = gen_corpus("SLS3", module="gen/Gen_Hist", deps=DEPS)
    h4 = gen_corpus("SLS4", module="gen/Gen_Hist", deps=DEPS)
    sim = tlc.run("mc/Sim_Script", cfg="Sim_Sls.cfg", simulate="num=%d" % (150 if quick else 2000), depth=11, seed=ck.seed + 5, workers=1)
    ck.add_tlc(sim)
    longs, seen = [], set()
    for h in sim.printed():
        if isinstance(h, list) and h and isinstance(h[0], dict) and term_io.term_key(h) not in seen:
            seen.add(term_io.term_key(h))
            longs.append(h)
    decl = gen_corpus("SLSDECL4", module="gen/Gen_Hist", deps=DEPS)
    if not quick:
        decl = decl + gen_corpus("SLSDECL5", module="gen/Gen_Hist", deps=DEPS)
    hists = (ck.rng.sample(h3, min(len(h3), 400)) if quick else h3) + ck.rng.sample(h4, min(len(h4), 250 if quick else 8000)) \
        + longs[: (150 if quick else 2000)] + decl
    # sort declarations: a plain and a parametric user-declared sort (two instances) across levels
    A = lambda x: {"c": "assert", "x": x, "n": 0, "id": ""}
    PU = lambda n_: {"c": "push", "x": 0, "n": n_, "id": ""}
    PO = lambda n_: {"c": "pop", "x": 0, "n": n_, "id": ""}
    SOLVE = {"c": "solve", "x": 0, "n": 0, "id": ""}
    sort_hists = [[A(6)], [A(7)], [A(6), A(7), SOLVE], [A(7), A(6), A(7)], [PU(1), A(7), PO(1), A(7), A(6)],
                  [A(7), PU(2), A(6), PO(1), A(6), SOLVE], [PU(1), A(6), PU(1), A(7), PO(2), A(7), A(6)],
                  [A(1), PU(1), A(7), SOLVE, PO(1), A(6), {"c": "reset", "x": 0, "n": 0, "id": ""}, A(7), A(6)],
                  [A(10), A(11)], [A(10), SOLVE, A(11), SOLVE, A(10)], [PU(1), A(10), PO(1), A(11), A(10)], [A(11), PU(2), A(10), PO(1), A(10), PO(1), A(10)],
                  [A(8)], [A(8), SOLVE, A(9)], [A(9), A(6), SOLVE], [PU(1), A(8), PO(1), A(8), A(6)], [A(6), PU(1), A(9), A(8), PO(1), A(9)]]
    # push(0) / pop(0) are legal no-ops
    GM = {"c": "get_model", "x": 0, "n": 0, "id": ""}
    zero_hists = [[A(1), PO(0), SOLVE, GM, A(3)], [A(1), PU(1), A(3), PO(0), SOLVE, GM, A(1), PO(1), A(3)],
                  [PU(0), A(1), SOLVE, GM], [A(2), PU(2), A(1), PO(0), PU(0), A(3), PO(1), A(1), SOLVE, GM],
                  [PO(0), A(1), PO(0), A(3), SOLVE, GM, PU(1), PO(0), PO(1), A(2)], [PU(1), PO(0), PO(1), PU(0), A(1), SOLVE, GM]]
    hists = hists + sort_hists + zero_hists
    env = fresh_env()
    terms, m0, syms = world(env)
    scratch = tempfile.mkdtemp(prefix="c17_")
    evs = []
    for k, h in enumerate(hists):
        ev = run_history(env, h, terms, m0, syms, via_factory=(k % 7 == 0), scratch=scratch)
        # is_valid asserts the negation of the query: the abstract machine sees the query as a no-op anyway
        ev["id"] = k
        evs.append(ev)
        ck.count()
        if any(c["c"] in ("pop", "reset") for c in h) and any(c["c"] in ("solve", "is_sat", "get_model") for c in h):
            ck.nontrivial(term_io.term_key(h))
    import shutil
    shutil.rmtree(scratch, ignore_errors=True)
    verdicts, st = tlc.validate_events("Trace_Pure", evs, constants={"Seed": 0, "Cap": 32})
    ck.add_tlc(st)
    byid = {e["id"]: e for e in evs}
    for i, fails in verdicts.items():
        e = byid[i]
        clauses = [c for c in fails if " " not in c]
        detail = [c for c in fails if " " in c]
        for cl in clauses:
            ck.violation({"kind": "solver_stream", "clause": cl,
                          "api": [c["api"]["c"] + (str(c["api"]["n"]) if c["api"]["c"] in ("push", "pop") else "") for c in e["calls"]][:8],
                          "detail": detail[:1], "exc": [c["exc"].split(":")[0] for c in e["calls"] if c["exc"]][:1]},
                         {"event": {k_: e[k_] for k_ in ("calls", "prologue", "via_factory")},
                          "stream": [sexpr.to_text(x) for x in e["sxs"]]})
    ck.part("histories", exhaustive_len3=len(h3), len4=len(h4), simulated=len(longs), used=len(hists))
    ck.sample({"api": [c["api"] for c in evs[5]["calls"]], "stream": [sexpr.to_text(x) for x in evs[5]["sxs"]][evs[5]["prologue"]:]})
    ck.cov["exhaustive"] = not quick
    ck.cov["rule"] = ("API histories enumerated by TLC (all legal histories of length <= 3 over a 14-call alphabet, length 4 sampled, "
                      "simulated length 10) replayed on a real SmtLibSolver talking to a logging fake solver process. "
                      "non-trivial = distinct histories with a pop/reset and a query")
    ck.assumptions += ["the strict reference solver is SmtLibSyntax!RunScript (declarations scoped by level, :global-declarations false)",
                       "the fake solver's sat answers are relative to one fixed total model; they are what the wrapper must relay"]


def main():
    ck = Check("C17")
    try:
        run(ck)
    except tlc.TLCError as ex:
        ck.machinery_error(str(ex))
    return ck.finish()
