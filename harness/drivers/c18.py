"""C18 - optimisation returns the true optimum and restores the solver.

(A) MC_Opt: TLC model-checks the implementation-shaped optimizer (OptSearchInterval, _optimize with
linear / binary search, min / max, Int / unsigned / signed BV objectives, the lexicographic wrapper,
the Pareto loop) on top of a NONDETERMINISTIC oracle: every Sat subset of a model space, every
objective valuation, every sequence of solver answers; properties: termination (liveness), result is
the optimum / lexicographic optimum / exact Pareto front, None iff unsat, cuts representable, stack
restored.
(B) the real ExternalOptimizerMixin classes (SUA and incremental) are mixed into a brute-force oracle
over finite-domain pySMT constraint systems whose model choice follows adversarial policies
(worst-improving, best, first, last, seeded random) - i.e. different answer sequences of the model;
(C) every query / answer and the final outcome are validated by TLC (OptContract): answers must be
legitimate under the TLA+ Eval, the outcome must be the optimum TLC computes itself over the space,
and the assertion stack must be as found."""
import warnings
from concurrent.futures import ThreadPoolExecutor
import os
from harness.common import Check, fresh_env
from harness import term_io, tlc, optcfgs
from harness.fakes.bruteforce_solver import BruteSolver, model_json
from pysmt.optimization.optimizer import SUAOptimizerMixin, IncrementalOptimizerMixin
from pysmt.optimization.goal import MaximizationGoal, MinimizationGoal, MinMaxGoal, MaxMinGoal, MaxSMTGoal
from pysmt.typing import BOOL, INT, BVType


class SUABrute(SUAOptimizerMixin, BruteSolver):
    pass


class IncBrute(IncrementalOptimizerMixin, BruteSolver):
    pass


def systems(env):
    m = env.formula_manager
    p, q = m.Symbol("p", BOOL), m.Symbol("q", BOOL)
    x, y = m.Symbol("x", INT), m.Symbol("y", INT)
    b, c = m.Symbol("b", BVType(3)), m.Symbol("c", BVType(2))
    ints = lambda lo, hi: [m.Int(k) for k in range(lo, hi + 1)]
    bvs = lambda w: [m.BV(k, w) for k in range(2 ** w)]
    bools = [m.FALSE(), m.TRUE()]
    rng_x = m.And(m.LE(m.Int(-3), x), m.LE(x, m.Int(3)))
    rng_y = m.And(m.LE(m.Int(-2), y), m.LE(y, m.Int(2)))
    S = []
    S.append(dict(name="int_box", dom={x: ints(-4, 4), y: ints(-3, 3)},
                  base=[rng_x, rng_y, m.LE(m.Int(1), m.Plus(x, y)), m.Not(m.Equals(x, y))],
                  terms=[x, m.Plus(x, y), m.Minus(x, y)]))
    S.append(dict(name="int_bool", dom={x: ints(-3, 3), p: bools, q: bools},
                  base=[m.And(m.LE(m.Int(-2), x), m.LE(x, m.Int(2))), m.Implies(p, m.LE(x, m.Int(0))), m.Or(p, q, m.Equals(x, m.Int(1)))],
                  terms=[x, m.Ite(p, x, m.Plus(x, m.Int(1))), m.Times(m.Int(-1), x)]))
    S.append(dict(name="bv3", dom={b: bvs(3), c: bvs(2), p: bools},
                  base=[m.Or(p, m.BVUGT(b, m.BV(1, 3))), m.Not(m.Equals(b, m.BV(7, 3))), m.Implies(p, m.BVULT(c, m.BV(3, 2)))],
                  terms=[b, m.BVAdd(b, m.BVZExt(c, 1)), m.BVNeg(b)]))
    S.append(dict(name="bv_signed", dom={b: bvs(3), c: bvs(2)},
                  base=[m.BVSLT(m.SBV(-3, 3), b), m.Not(m.Equals(c, m.BV(2, 2)))],
                  terms=[b, m.BVSub(b, m.BVSExt(c, 1)), m.BVZExt(c, 1)]))
    S.append(dict(name="unsat", dom={x: ints(-2, 2), p: bools},
                  base=[m.LT(x, m.Int(0)), m.LT(m.Int(0), x)], terms=[x, m.Plus(x, m.Int(1)), m.Times(x, m.Int(2))]))
    S.append(dict(name="single_model", dom={x: ints(-2, 2), b: bvs(3)},
                  base=[m.Equals(x, m.Int(2)), m.Equals(b, m.BV(4, 3))], terms=[x, m.Minus(m.Int(0), x), m.Plus(x, x)]))
    S.append(dict(name="bv_extremes", dom={b: bvs(3)}, base=[m.Or(m.Equals(b, m.BV(0, 3)), m.Equals(b, m.BV(7, 3)), m.Equals(b, m.BV(4, 3)))],
                  terms=[b, m.BVNot(b), m.BVAdd(b, m.BV(1, 3))]))
    soft = dict(name="soft", dom={p: bools, q: bools, x: ints(-1, 2)},
                base=[m.Or(m.Not(p), m.Not(q)), m.And(m.LE(m.Int(-1), x), m.LE(x, m.Int(2)))],
                terms=[x, m.Plus(x, m.Ite(p, m.Int(2), m.Int(0))), m.Times(m.Int(-1), x)],
                soft=[(p, 3), (q, 2), (m.LE(x, m.Int(0)), 2), (m.And(q, m.LE(m.Int(1), x)), 1)])
    S.append(soft)
    # penalties: soft clauses with negative (and zero) weights - the optimum (5) lies ABOVE the sum of all weights (4)
    S.append(dict(name="soft_penalties", dom={p: bools, q: bools, x: ints(-1, 2)},
                  base=[m.Or(p, q), m.And(m.LE(m.Int(-1), x), m.LE(x, m.Int(2)))],
                  terms=[x, m.Minus(m.Int(0), x)],
                  soft=[(p, 3), (q, -2), (m.LE(x, m.Int(0)), -1), (m.And(q, m.LE(m.Int(1), x)), 4), (m.Not(p), 0)]))
    # ... and a system in which many non-optimal models cost at least the sum of the weights (0; optimum 3)
    S.append(dict(name="soft_penalties_low_sum", dom={p: bools, q: bools, x: ints(-1, 2)},
                  base=[m.And(m.LE(m.Int(-1), x), m.LE(x, m.Int(2)))], terms=[x],
                  soft=[(p, 3), (q, -2), (m.LE(x, m.Int(0)), -1), (m.Not(p), 0)]))
    return S


def goal_specs(sysd, env):
    """[(goal object factory, json description)] for one system."""
    t = sysd["terms"]
    out = []
    is_bv = t[0].get_type().is_bv_type()
    signs = (False, True) if is_bv else (False,)
    for sg in signs:
        for k, term in enumerate(t):
            out.append((lambda term=term, sg=sg: MinimizationGoal(term, sg), {"kind": "min", "terms": [term], "signed": sg, "soft": []}))
            out.append((lambda term=term, sg=sg: MaximizationGoal(term, sg), {"kind": "max", "terms": [term], "signed": sg, "soft": []}))
        same = [z for z in t if z.get_type() == t[0].get_type()]
        if len(same) >= 2:
            out.append((lambda same=same, sg=sg: MinMaxGoal(same, sg), {"kind": "minmax", "terms": same, "signed": sg, "soft": []}))
            out.append((lambda same=same, sg=sg: MaxMinGoal(same, sg), {"kind": "maxmin", "terms": same, "signed": sg, "soft": []}))
    if "soft" in sysd:
        def mk():
            g = MaxSMTGoal(real_weights=False)
            for f, w in sysd["soft"]:
                g.add_soft_clause(f, w)
            return g
        out.append((mk, {"kind": "maxsmt", "terms": [], "signed": False, "soft": [{"f": f, "w": w} for f, w in sysd["soft"]]}))

        def mk_extended():
            # a goal object that was already asked for its objective (as a first optimisation does) and extended afterwards
            g = MaxSMTGoal(real_weights=False)
            for f, w in sysd["soft"][:2]:
                g.add_soft_clause(f, w)
            g.term()
            for f, w in sysd["soft"][2:]:
                g.add_soft_clause(f, w)
            return g
        out.append((mk_extended, {"kind": "maxsmt", "terms": [], "signed": False, "soft": [{"f": f, "w": w} for f, w in sysd["soft"]]}))
    return out


def goal_json(d):
    return {"kind": d["kind"], "terms": [term_io.export(t) for t in d["terms"]], "signed": d["signed"],
            "soft": [{"f": term_io.export(s["f"]), "w": s["w"]} for s in d["soft"]]}


TIMEOUTS = [0]


def run_one(env, cls, sysd, goals, mode, strategy, policy, rng):
    """Run one optimisation routine; returns the event (without id)."""
    if TIMEOUTS[0] >= 4:
        return None       # several routines already failed to terminate: do not spend the budget on more
    m = env.formula_manager
    syms = sorted(sysd["dom"], key=lambda s: s.symbol_name())
    gobjs = [mk() for mk, _ in goals]
    primary = gobjs[0]
    sign = -1 if (primary.is_maximization_goal()) else 1

    def rank(model):
        # "goodness" of a model for the primary goal: higher = better for the optimiser
        v = model.get_value(primary.term())
        val = v.bv_signed_value() if (v.is_bv_constant() and primary.signed) else v.constant_value()
        return -sign * val
    solver = cls(env, domains=sysd["dom"], policy=policy, rng=rng, rank=rank)
    # an unrelated outer level, so that "as found" is not the empty stack
    solver.add_assertion(sysd["base"][0])
    solver.push()
    for f in sysd["base"][1:]:
        solver.add_assertion(f)
    before = [term_io.export(f) for f in solver.assertions]
    depth_before = len(solver._backtrack_points)
    ev = {"kind": "opt", "system": sysd["name"], "mode": mode, "strategy": strategy, "mixin": cls.__name__, "policy": policy,
          "vars": [{"n": s.symbol_name(), "ty": term_io.export_type(s.symbol_type()), "dom": [term_io.export(v) for v in sysd["dom"][s]]}
                   for s in syms],
          "base": [term_io.export(f) for f in sysd["base"]], "goals": [goal_json(d) for _, d in goals],
          "res": "ok", "exc": "",
          "outcome": {"none": False, "results": [], "costs": [], "model": [], "points": []}}
    import signal

    class _TO(BaseException):
        pass

    def _alarm(signum, frame):
        raise _TO()
    old_handler = signal.signal(signal.SIGALRM, _alarm)
    signal.setitimer(signal.ITIMER_REAL, 20)
    try:
        with warnings.catch_warnings():
            warnings.simplefilter("ignore")
            if mode == "single":
                r = solver.optimize(gobjs[0], strategy=strategy)
                if r is None:
                    ev["outcome"]["none"] = True
                else:
                    ev["outcome"]["results"] = [{"model": model_json(r[0], syms), "cost": term_io.export(r[1])}]
            elif mode == "boxed":
                r = solver.boxed_optimize(gobjs, strategy=strategy)
                if r is None:
                    ev["outcome"]["none"] = True
                else:
                    ev["outcome"]["results"] = [{"model": model_json(r[g][0], syms), "cost": term_io.export(r[g][1])} for g in gobjs]
            elif mode == "lex":
                r = solver.lexicographic_optimize(gobjs, strategy=strategy)
                if r is None:
                    ev["outcome"]["none"] = True
                else:
                    ev["outcome"]["model"] = model_json(r[0], syms)
                    ev["outcome"]["costs"] = [term_io.export(c) for c in r[1]]
            else:
                pts = []
                for model, costs in solver.pareto_optimize(gobjs):
                    pts.append({"model": model_json(model, syms), "costs": [term_io.export(c) for c in costs]})
                    if len(pts) > 200:
                        raise RuntimeError("pareto enumeration does not end")
                ev["outcome"]["points"] = pts
    except _TO:
        ev["res"] = "error"
        ev["exc"] = "Timeout: the routine did not terminate within 20 s (%d queries)" % len(solver.log)
        TIMEOUTS[0] += 1
        solver.log = solver.log[:50]
    except Exception as ex:
        ev["res"] = "error"
        ev["exc"] = "%s: %s" % (type(ex).__name__, str(ex)[:150])
    finally:
        signal.setitimer(signal.ITIMER_REAL, 0)
        signal.signal(signal.SIGALRM, old_handler)
    ev["solves"] = solver.log
    ev["stack_before"] = before
    ev["stack_after"] = [term_io.export(f) for f in solver.assertions]
    ev["depth_before"] = depth_before
    ev["depth_after"] = len(solver._backtrack_points)
    return ev


def run(ck):
    warnings.simplefilter("ignore")
    quick = ck.tier == "quick"
    # ---- (A) design checks
    cfgs = optcfgs.matrix(thorough=not quick)

    def one(kc):
        k, c = kc
        p = os.path.join(tlc.SPEC, "mc", "_opt_%d_%d.cfg" % (k, os.getpid()))       # (private to this process)
        optcfgs.write_cfg(p, **c)
        r = tlc.run("mc/MC_Opt", cfg=p, workers=2, heap="2g", timeout=3000)
        os.remove(p)
        return c, r
    total = 0
    with ThreadPoolExecutor(max_workers=8) as ex:
        for c, r in ex.map(one, enumerate(cfgs)):
            ck.add_tlc(r)
            total += r.distinct
            if r.invariant_violated or r.property_violated or r.error or r.rc != 0:
                ck.machinery_error("MC_Opt %s: %s %s\n%s" % (c, r.invariant_violated, r.error, r.out[-1200:]))
    # vacuity guard: the model of the pinned lexicographic wrapper (no clean-up on success) must leak a level
    p = os.path.join(tlc.SPEC, "mc", "_opt_unfixed_%d.cfg" % os.getpid())
    optcfgs.write_cfg(p, vals="ValsU2", nm=3, kind="ubv", width=2, goal="min", strategy="linear", mode="lex", cleanup=False)
    ru = tlc.run("mc/MC_Opt", cfg=p, timeout=3000)
    os.remove(p)
    if "StackRestored" not in ru.invariant_violated:
        ck.machinery_error("MC_Opt without lexicographic clean-up did not produce the expected counterexample")
    ck.part("design_check_MC_Opt", configurations=len(cfgs), states=total, unfixed_counterexample=True)
    # ---- (B)
    env = fresh_env()
    evs = []
    policies = ["worst", "best", "first", "last", "random"]
    for sysd in systems(env):
        gs = goal_specs(sysd, env)
        for gi, g in enumerate(gs):
            for strategy in ("linear", "binary"):
                for cls in (SUABrute, IncBrute):
                    pols = policies if not quick else [policies[(gi + len(evs)) % 5], "worst"]
                    for pol in pols:
                        evs.append(run_one(env, cls, sysd, [g], "single", strategy, pol, ck.rng))
        plain = [g for g in gs if g[1]["kind"] in ("min", "max")]
        pairs = [(plain[i], plain[j]) for i in range(len(plain)) for j in range(len(plain)) if i != j]
        if quick:
            pairs = pairs[:: max(1, len(pairs) // 6)]
        # lexicographic optimisation with three and four goals (later goals limited only by much earlier ones)
        tri = [(plain[i], plain[j], plain[k2]) for i in range(len(plain)) for j in range(len(plain)) for k2 in range(len(plain))
               if len({i, j, k2}) == 3 or (i == k2 and i != j)]
        if tri:
            tri = ck.rng.sample(tri, min(len(tri), 6 if quick else 60))
        for gs3 in tri:
            for cls in (SUABrute, IncBrute):
                evs.append(run_one(env, cls, sysd, list(gs3), "lex", ("linear", "binary")[len(evs) % 2], policies[len(evs) % 5], ck.rng))
        if len(plain) >= 4 and not quick:
            for cls in (SUABrute, IncBrute):
                evs.append(run_one(env, cls, sysd, plain[:4], "lex", "linear", "worst", ck.rng))
        for a, b in pairs:
            for cls in (SUABrute, IncBrute):
                pol = policies[len(evs) % 5]
                for strategy in ("linear", "binary"):
                    evs.append(run_one(env, cls, sysd, [a, b], "lex", strategy, pol, ck.rng))
                evs.append(run_one(env, cls, sysd, [a, b], "boxed", "linear", pol, ck.rng))
                if a[1]["signed"] == b[1]["signed"]:
                    evs.append(run_one(env, cls, sysd, [a, b], "pareto", "linear", pol, ck.rng))
    # Pareto fronts of signed / unsigned bit-vector goal pairs whose values cross the sign boundary, from every kind
    # of starting candidate (the "no worse than" constraints of the Pareto loop are used by no other mode)
    for sysd in systems(env):
        t = sysd["terms"]
        if not t[0].get_type().is_bv_type():
            continue
        same = [z for z in t if z.get_type() == t[0].get_type()]
        if len(same) < 2:
            continue
        for sg in (True, False):
            mk = {"max": lambda term, sg=sg: (lambda: MaximizationGoal(term, sg), {"kind": "max", "terms": [term], "signed": sg, "soft": []}),
                  "min": lambda term, sg=sg: (lambda: MinimizationGoal(term, sg), {"kind": "min", "terms": [term], "signed": sg, "soft": []})}
            for ka, kb in (("max", "max"), ("max", "min"), ("min", "max"), ("min", "min")):
                for cls in (SUABrute, IncBrute):
                    for pol in (("worst", "first", "last") if quick else policies):
                        evs.append(run_one(env, cls, sysd, [mk[ka](same[0]), mk[kb](same[1])], "pareto", "linear", pol, ck.rng))
    evs = [e for e in evs if e is not None]
    for k, e in enumerate(evs):
        e["id"] = k
        ck.count()
        if e["res"] == "ok" and len(e["solves"]) >= 2:
            ck.nontrivial((e["system"], e["mode"], e["strategy"], e["mixin"], e["policy"], term_io.term_key(e["goals"])))
    verdicts, st = tlc.validate_events("Trace_Pure", evs, constants={"Seed": 0, "Cap": 8})
    ck.add_tlc(st)
    byid = {e["id"]: e for e in evs}
    for i, fails in verdicts.items():
        e = byid[i]
        for cl in fails:
            ck.violation({"kind": "opt", "clause": cl, "mode": e["mode"], "mixin": e["mixin"], "strategy": e["strategy"],
                          "system": e["system"], "goal": e["goals"][0]["kind"], "exc": e["exc"].split(":")[0]}, {"event": e})
    ck.part("runs", total=len(evs), systems=len(systems(env)), policies=policies,
            queries=sum(len(e["solves"]) for e in evs))
    e = evs[3]
    ck.sample({k: e[k] for k in ("system", "mode", "strategy", "mixin", "policy", "goals", "outcome")})
    ck.sample({"solve_event": evs[3]["solves"][-1]})
    ck.cov["exhaustive"] = False
    ck.cov["rule"] = ("design model exhaustive for |M| = 3 (4 thorough), all Sat subsets, all valuations, all answer sequences; real runs: 8 "
                      "finite-domain systems x goals (min/max per term, signed/unsigned, minmax/maxmin, MaxSMT) x {linear,binary} x "
                      "{SUA,incremental} x oracle policies; lexicographic / boxed / Pareto on goal pairs. "
                      "non-trivial = distinct runs that issued >= 2 satisfiability queries")
    ck.assumptions += ["bisection over real-valued objectives is excluded, as in the property", "oracle answers are re-validated by TLC (Eval)"]


def main():
    ck = Check("C18")
    try:
        run(ck)
    except tlc.TLCError as ex:
        ck.machinery_error(str(ex))
    return ck.finish()
