"""C19 - portfolio answer is independent of the race and never blocks forever.

(A) MC_Portfolio: TLC model-checks parent, N = 3 member processes, the signalling queue and the shared
control pipe for every member-behaviour vector and every interleaving: Agreement, NoLoserConsumesCtrl,
RaisesOnlyIfNobodyAnswered, and the liveness properties SolveReturns / AnswerIfSomeoneAnswers under
weak fairness; the model of the pinned code (no detection of "everybody failed") must produce the
blocking counterexample (vacuity guard).
(B) TLC enumerates schedules (Gen_Portfolio: behaviour vector x release order x members released only
while the winner is being selected x near-tie flag); each is replayed on the REAL Portfolio with REAL
forked processes: members are fake solvers whose solve() blocks on a gate created before the fork; the
harness replaces pysmt.solvers.portfolio.{Process,Queue} (module attributes) by logging / gating
wrappers around the real multiprocessing objects.  Blocking is decided structurally: the parent is
still inside solve(), every member process is dead and the queue is empty.
(C) TLC validates every run with PortfolioContract (verdict, error instead of blocking, only the
winner serves control commands, model / value against the assertions with Eval)."""
import multiprocessing as mp
import threading
import time
import warnings
import random
from harness.common import Check, gen_corpus, fresh_env
from harness import term_io, tlc
from harness.fakes import portfolio_members as pm
import pysmt.solvers.portfolio as pf
from pysmt.logics import QF_LIA
from pysmt.typing import BOOL, INT

DEPS = ("gen/Gen_Portfolio.tla",)


BLOCKED = [0]
probe_id = [0]


def run_schedule(env, sched, hooks, rounds=1, model_change=False):
    m = env.formula_manager
    p, q, x = m.Symbol("p", BOOL), m.Symbol("q", BOOL), m.Symbol("x", INT)
    asserts = [m.Or(p, q), m.LE(x, m.Int(2)), m.Implies(q, m.LE(m.Int(1), x))]
    # (numbers the parent never builds itself: the members create these constants in their own processes)
    # fresh numbers for every schedule: once the parent has seen a constant, every later member inherits it at fork
    base_v = -(1000 + 4 * probe_id[0])
    sat_model = [(p, True), (q, False), (x, base_v)]
    n = len(sched["beh"])
    names = ["fake%d" % i for i in range(1, n + 1)]
    for i in range(1, n + 1):
        env.factory._all_solvers["fake%d" % i] = pm.member_class(i)
    port = pf.Portfolio(names, environment=env, logic=QF_LIA)
    for a in asserts:
        port.add_assertion(a)
    out_rounds = []
    for rnd in range(rounds):
        pm.LOGQ = mp.Queue()
        verdict = sched["verdict"]
        if rnd % 2 == 1:
            # the second solve is asked about changed assertions with the opposite verdict: whatever a loser
            # of the first solve still managed to post must not be taken for an answer to this one
            verdict = "unsat" if sched["verdict"] == "sat" else "sat"
            if verdict == "unsat" and (model_change or random.Random(repr(sorted(sched.items()))).random() < 0.5):
                # ... or with the SAME verdict and another model: the second answer is sat again, but only q = true
                # satisfies the assertions now - the model handed out after the first solve must not be handed out again
                verdict = "sat"
                extra = m.And(q, m.LE(x, m.Int(2)), m.LE(m.Int(1), x)) if rnd % 4 == 1 and sched["tie"] else m.LE(x, m.Int(base_v - 1))
                port.add_assertion(extra)
                asserts = asserts + [extra]
                sat_model = [(p, True), (q, True), (x, 2)] if extra.is_and() else [(p, True), (q, False), (x, base_v - 2)]
            elif verdict == "unsat":
                extra = m.LE(m.Int(5), x)
                port.add_assertion(extra)
                asserts = asserts + [extra]
        # The ids of the nodes a member creates in its process are unrelated to the ids the parent gives to equal nodes.
        # The harness makes the worst case happen: the new constant of the SECOND model gets, in the member, the id the
        # new constant of the first model had there (the members create `garbage` nodes of their own first).
        probe_id[0] += 1
        next_id = m.Symbol("id_probe_%d" % probe_id[0], INT).node_id() + 1
        if rnd == 0:
            garbage = 12
            first_value_id = next_id + garbage
        else:
            garbage = first_value_id - next_id if first_value_id >= next_id else 0
        for i in range(1, n + 1):
            b = sched["beh"][i - 1]
            pm.CONFIG[i] = dict(beh=("ans" if b == "ans" else b), verdict=verdict, gate=pm.Gate(),
                                crash_gate=pm.Gate(), model=sat_model, garbage=garbage)
            if b == "ans":
                pm.CONFIG[i]["beh"] = "answer"
        hooks.new_round()
        order = sched["order"]
        late = [i for i in order if i in sched["late"]]
        early = [i for i in order if i not in sched["late"]]
        result = {}

        def observe_done(i):
            # a released member shows an effect: it posted (log) or its process ended
            procs = list(hooks.processes)
            proc = procs[i - 1] if len(procs) >= i else None
            return lambda: (proc is not None and not proc.is_alive()) or i in posted

        posted = set()

        def drain_log():
            served = []
            try:
                while True:
                    mem, what, arg = pm.LOGQ.get_nowait()
                    if what == "posting":
                        posted.add(mem)
                    elif what == "served":
                        served.append(mem)
            except Exception:
                pass
            return served

        def release(members, tie):
            for k, i in enumerate(members):
                pm.CONFIG[i]["gate"].set()
                if tie and k + 1 < len(members):
                    continue          # near-tie: release the next one without waiting
                pm.wait_until(lambda: (drain_log() or True) and observe_done(i)(), timeout=1.0)

        def before_kill():
            # the parent has taken the winner's message and is about to terminate the others
            release(late, sched["tie"])
            time.sleep(0.01)
        hooks.before_first_terminate = before_kill

        def do_solve():
            try:
                with warnings.catch_warnings():
                    warnings.simplefilter("ignore")
                    r = port.solve()
                if "res" not in result:
                    result["res"] = "sat" if r else "unsat"
            except BaseException as ex:
                if "res" not in result:
                    result["res"] = "raised"
                    result["exc"] = type(ex).__name__
        th = threading.Thread(target=do_solve, daemon=True)
        th.start()
        pm.wait_until(lambda: len(hooks.processes) >= n or not th.is_alive(), timeout=5.0)
        release(early, sched["tie"])
        th.join(0.3)
        if th.is_alive():
            # the parent is still waiting although every early member acted: the late ones complete too
            release(late, sched["tie"])
        th.join(8.0 if BLOCKED[0] < 3 else 2.5)
        if th.is_alive():
            BLOCKED[0] += 1
            # structural decision: nobody can produce a message any more
            if hooks.all_dead() and hooks.queues and hooks.queues[-1].empty():
                result["res"] = "blocked"
            else:
                result["res"] = "blocked" if pm.wait_until(lambda: hooks.all_dead(), 3.0) else "slow"
            hooks.queues[-1].put((0, True))        # release the blocked parent thread (poison message)
            th.join(3.0)
        for i in range(1, n + 1):
            pm.CONFIG[i]["crash_gate"].set()
        rd = {"res": result.get("res", "slow"), "exc": result.get("exc", ""), "model": [], "value": "na", "served": [],
              "winner": 0, "has_model": False, "verdict": verdict, "asserts": [term_io.export(a) for a in asserts]}
        if rd["res"] in ("sat", "unsat") and port._ext_solver is not None:
            rd["winner"] = int(port._ext_solver.name.split(" ")[0]) + 1
        winner_beh = sched["beh"][rd["winner"] - 1] if rd["winner"] else ""
        if rd["res"] == "sat" and winner_beh == "ans":
            try:
                mdl = port.get_model()
                rd["model"] = [{"n": s.symbol_name(), "v": term_io.export(mdl.get_value(s))} for s in (p, q, x)]
                v = port.get_value(m.And(asserts))
                rd["value"] = "true" if v.is_true() else ("false" if v.is_false() else "other")
                rd["has_model"] = True
            except Exception as ex:
                rd["value"] = "error:" + type(ex).__name__
                rd["has_model"] = True
        time.sleep(0.01)
        rd["served"] = drain_log()
        out_rounds.append(rd)
    try:
        port.exit()
    except Exception:
        pass
    for pr in hooks.processes:
        try:
            if pr.is_alive():
                pr.terminate()
            pr.join(0.5)
        except Exception:
            pass
    return {"kind": "portfolio", "beh": [("sat" if sched["verdict"] == "sat" else "unsat") if b == "ans" else b for b in sched["beh"]],
            "verdict": sched["verdict"], "order": sched["order"], "late": sched["late"], "tie": sched["tie"],
            "asserts": [term_io.export(a) for a in asserts], "rounds": out_rounds}


def smtlib_member_runs(ck, quick, id0):
    """Portfolio queries whose members are real SmtLibSolver objects driving harness/fakes/smt_member.py.
    Each query runs in its own process (own session).  Blocking is decided structurally plus a grace period:
    every external solver process has ended (its marker file exists) - so nobody can answer any more - and
    the query is still waiting GRACE seconds later."""
    import itertools
    import json
    import os
    import shutil
    import signal
    import subprocess
    import sys
    import tempfile
    from harness.common import REPO, VERIF
    GRACE, LIMIT = 12.0, 90.0
    behs = ["good", "unknown", "crash_checksat", "crash_start", "crash_assert"]
    vectors = [list(v) for v in itertools.product(behs, repeat=2)]
    triples = [list(v) for v in itertools.product(behs, repeat=3)]
    vectors += triples if not quick else [t for k, t in enumerate(triples) if (k + ck.seed) % 9 == 0]
    # members listed as (name, options) pairs with DIFFERENT options: the solver gives up under random seed 13
    vectors += [["good@7", "good@13"], ["good@13", "good@7"], ["good@13", "good@13"], ["good@7", "good@8", "good@13"],
                ["good@13", "good@7", "good@9"], ["good@13", "unknown", "good@5"], ["good@5", "crash_checksat", "good@13"]]
    m = fresh_env().formula_manager
    p, q = m.Symbol("p", BOOL), m.Symbol("q", BOOL)
    asserts = [term_io.export(m.Or(p, q)), term_io.export(p)]
    a3 = term_io.export(m.Or(m.Not(p), m.Not(q)))
    by_label = {"solve": asserts, "is_sat, add_assertion, solve": asserts + [a3],
                "push, add_assertion, solve": asserts + [a3, term_io.export(q)], "pop, solve": asserts + [a3], "cycle": asserts,
                "push, add, push, add, solve": asserts + [a3, term_io.export(m.Not(p)), term_io.export(q)], "pop 2, solve": asserts + [a3]}
    scen = os.path.join(VERIF, "harness", "fakes", "portfolio_smtlib_scenario.py")
    evs = []
    running = []

    def start(vec):
        d = tempfile.mkdtemp(prefix="c19m_")
        env = dict(os.environ, VERIF_REPO=REPO, PYTHONPATH=REPO, C19_CYCLE="1")
        pr = subprocess.Popen([sys.executable, scen, os.path.join(d, "out.json"), d] + vec, env=env, start_new_session=True,
                              stdout=subprocess.DEVNULL, stderr=subprocess.DEVNULL)
        return {"vec": vec, "dir": d, "proc": pr, "t0": time.time(), "all_ended_at": None}

    def finish(r, res):
        try:
            os.killpg(r["proc"].pid, signal.SIGKILL)
        except Exception:
            pass
        r["proc"].wait()
        shutil.rmtree(r["dir"], ignore_errors=True)
        vec = r["vec"]
        beh = ["unknown" if (b == "unknown" or b.endswith("@13")) else ("sat" if b.startswith("good") else "crash_pre") for b in vec]
        rounds = []
        for rr in (res.get("rounds") or [res]):
            live = by_label.get(rr.get("label", "solve"), asserts)
            rd = {"res": rr.get("res", "slow"), "exc": rr.get("exc", ""), "model": [], "value": rr.get("value", "na"), "served": [],
                  "winner": 0, "has_model": False, "verdict": "sat", "asserts": live, "decide": True}
            if rd["res"] == "sat" and rr.get("model"):
                rd["model"] = [{"n": n_, "v": term_io.export(m.Bool(v_))} for n_, v_ in rr["model"]]
                rd["has_model"] = True
            rounds.append(rd)
        evs.append({"id": id0 + len(evs), "kind": "portfolio", "beh": beh, "verdict": "sat", "order": [], "late": [], "tie": False,
                    "asserts": asserts, "rounds": rounds, "members": "smtlib:" + ",".join(vec)})
        ck.count()
        ck.nontrivial(("smtlib", tuple(vec)))

    pending = list(vectors)
    while pending or running:
        while pending and len(running) < 6:
            running.append(start(pending.pop()))
        time.sleep(0.1)
        for r in list(running):
            out = os.path.join(r["dir"], "out.json")
            now = time.time()
            if os.path.exists(out):
                running.remove(r)
                finish(r, json.load(open(out)))
            elif r["proc"].poll() is not None:
                running.remove(r)
                finish(r, {"rounds": [{"label": "solve", "res": "raised", "exc": "scenario process ended without a result (rc %s)" % r["proc"].returncode}]})
            else:
                ended = all(os.path.exists(os.path.join(r["dir"], "m%d" % (i + 1))) for i in range(len(r["vec"])))
                if ended and r["all_ended_at"] is None:
                    r["all_ended_at"] = now
                if r["all_ended_at"] is not None and now - r["all_ended_at"] > GRACE:
                    running.remove(r)
                    finish(r, {"rounds": [{"label": "solve", "res": "blocked"}]})
                elif now - r["t0"] > LIMIT:
                    running.remove(r)
                    finish(r, {"rounds": [{"label": "solve", "res": "slow"}]})
    return evs


def run(ck):
    warnings.simplefilter("ignore")
    quick = ck.tier == "quick"
    # ---- (A)
    total = 0
    for cfg in ("MC_Portfolio.cfg", "MC_Portfolio_exit.cfg"):
        r = tlc.run("mc/MC_Portfolio", cfg=cfg, timeout=3000)
        ck.add_tlc(r)
        total += r.distinct
        if r.invariant_violated or r.property_violated or r.error or r.rc != 0:
            ck.machinery_error("MC_Portfolio %s: %s %s\n%s" % (cfg, r.invariant_violated, r.error, r.out[-1200:]))
    rq = tlc.run("mc/MC_Portfolio", cfg="MC_Portfolio_sharedq.cfg", timeout=3000)
    if "Agreement" not in rq.invariant_violated:
        ck.machinery_error("the model with one signalling queue for the object's life did not produce the stale-answer counterexample")
    rc = tlc.run("mc/MC_Portfolio", cfg="MC_Portfolio_cached.cfg", timeout=3000)
    if "ModelIsCurrent" not in rc.invariant_violated:
        ck.machinery_error("the model that keeps a member's first model did not produce the stale-model counterexample")
    rp = tlc.run("mc/MC_Portfolio", cfg="MC_Portfolio_pinned.cfg", timeout=3000)
    if "SolveReturns" not in rp.out or "violated" not in rp.out:
        ck.machinery_error("the model of the pinned portfolio did not produce the blocking counterexample")
    ck.part("design_check_MC_Portfolio", states=total, members=3, consecutive_solves=2, pinned_counterexample=True, shared_queue_counterexample=True, cached_model_counterexample=True)
    # ---- (B)
    n2 = gen_corpus("N2", module="gen/Gen_Portfolio", deps=DEPS)
    n3 = gen_corpus("N3", module="gen/Gen_Portfolio", deps=DEPS)
    a2 = ck.rng.sample(n2, min(len(n2), 90 if quick else len(n2)))
    a3 = ck.rng.sample(n3, min(len(n3), 60 if quick else 2500))
    # make sure the all-fail vectors are present
    allfail = [s for s in n2 if all(b != "ans" and b != "crash_post" for b in s["beh"]) and not s["late"]][:: (12 if quick else 1)]
    scheds = a2 + a3 + allfail
    env = fresh_env()
    hooks = pm.Hooks(pf)
    hooks.install()
    evs = []
    try:
        for k, s in enumerate(scheds):
            if BLOCKED[0] >= 8:
                ck.note("stopped after 8 blocked runs")
                break
            ev = run_schedule(env, s, hooks, rounds=2 if k % 4 == 0 else 1)
            ev["id"] = k
            evs.append(ev)
            ck.count()
            if len(set(ev["beh"])) > 1 or ev["late"] or ev["tie"]:
                ck.nontrivial((tuple(ev["beh"]), tuple(ev["order"]), tuple(ev["late"]), ev["tie"], len(ev["rounds"])))
        # two consecutive sat answers with different models, whoever wins
        twice = [s for s in n2 + n3 if s["verdict"] == "sat" and "ans" in s["beh"]]
        for s in ck.rng.sample(twice, min(len(twice), 16 if quick else 200)):
            if BLOCKED[0] >= 8:
                break
            ev = run_schedule(env, s, hooks, rounds=2, model_change=True)
            ev["id"] = len(scheds) + 5000 + len(evs)
            evs.append(ev)
            ck.count()
    finally:
        hooks.uninstall()
    sm = smtlib_member_runs(ck, quick, len(scheds) + 10)
    evs += sm
    ck.part("smtlib_members", runs=len(sm), behaviours=["good", "unknown", "crash_checksat", "crash_start", "crash_assert"])
    slow = [e["id"] for e in evs if any(r["res"] == "slow" for r in e["rounds"])]
    if slow:
        ck.note("runs that did not finish within the harness limit although a member was still alive: %s" % slow[:5])
        evs = [e for e in evs if e["id"] not in slow]
        ck.cov["inconclusive"] += len(slow)
    verdicts, st = tlc.validate_events("Trace_Pure", evs, constants={"Seed": 0, "Cap": 8})
    ck.add_tlc(st)
    byid = {e["id"]: e for e in evs}
    for i, fails in verdicts.items():
        e = byid[i]
        for cl in fails:
            sig = {"kind": "portfolio", "clause": cl, "beh": e["beh"], "late": e["late"], "tie": e["tie"],
                   "res": [r["res"] for r in e["rounds"]]}
            if e.get("members"):
                sig["members"] = e["members"]
            ck.violation(sig, {"event": e})
    ck.part("schedules", n2_total=len(n2), n3_total=len(n3), used=len(scheds), all_fail=len(allfail))
    ck.sample({k: evs[0][k] for k in ("beh", "order", "late", "tie", "rounds")})
    ck.sample({k: evs[-1][k] for k in ("beh", "order", "late", "tie", "rounds")})
    ck.cov["exhaustive"] = False
    ck.cov["rule"] = ("schedules enumerated by TLC (2 and 3 members x 6 behaviours each x release orders x late sets x near-tie flag), seeded "
                      "sample replayed with real forked processes, a quarter of them with two consecutive solves + get_model/get_value. "
                      "non-trivial = distinct schedules with mixed behaviours, late members or near-ties")
    ck.assumptions += ["the gating wrappers only delay real multiprocessing operations", "get_model on a winner that died after posting "
                       "is outside the property (and outside the runs)"]


def main():
    ck = Check("C19")
    try:
        run(ck)
    except tlc.TLCError as ex:
        ck.machinery_error(str(ex))
    return ck.finish()
