"""C20 - work is linear in DAG size and independent of nesting depth.

(A) MC_Walker: TLC model-checks the implementation-shaped DagWalker machine (explicit stack, memo,
expand/compute phases, failure path) for EVERY rooted DAG shape (N nodes, fan-out <= 2): each node's
callback runs at most once per walk, pushes are bounded by the edges, children are computed first,
every walk terminates (liveness under weak fairness).
(B) the same shapes (Gen_Dag, all rooted DAGs up to 5 nodes) are instantiated with every nestable
operator family and fed to the real walkers, whose per-instance `functions` table is wrapped from the
outside to log each callback; (C) TLC validates each logged callback sequence against
WalkTraceContract.  Scaling families beyond TLC's reach (diamond chains with tree size 2^60, chains
nested 20,000 deep) are run through type checking at construction, simplify, substitute, every oracle,
get_logic, the rewriters, DAG printing and re-parsing; the logged (nodes, callbacks, outcome) are
validated against ScaleContract."""
import io
import sys
import warnings
from harness.common import Check, gen_corpus, fresh_env
from harness import term_io, tlc
import pysmt.environment
import pysmt.rewritings as rw
from pysmt.typing import BOOL, INT, REAL, BVType, ArrayType
from pysmt.oracles import get_logic
from pysmt.smtlib.printers import SmtDagPrinter
from pysmt.smtlib.parser import SmtLibParser

DEPS = ("gen/Gen_Dag.tla", "DagShapes.tla")


import signal


class _Timeout(BaseException):
    pass


def timed(fn, limit=20):
    """Run fn under a wall-clock limit; returns 'ok', 'timeout' or the exception class name."""
    def handler(signum, frame):
        raise _Timeout()
    old = signal.signal(signal.SIGALRM, handler)
    signal.setitimer(signal.ITIMER_REAL, limit)
    try:
        fn()
        return "ok"
    except _Timeout:
        return "timeout"
    except RecursionError:
        return "RecursionError"
    except Exception as ex:
        return type(ex).__name__
    finally:
        signal.setitimer(signal.ITIMER_REAL, 0)
        signal.signal(signal.SIGALRM, old)


class Counter(object):
    """Wraps the functions table of one walker instance (from the outside) and logs callbacks."""

    def __init__(self, walker):
        self.calls = []
        self.setwork = 0
        self.walker = walker
        for nt, fn in list(walker.functions.items()):
            walker.functions[nt] = self._wrap(fn)
        # expansions: every pop of an unexpanded stack entry goes through _push_with_children_to_stack
        self.exps = exps = []
        orig = walker._push_with_children_to_stack

        def wp(formula, *a, **k):
            exps.append(formula)
            return orig(formula, *a, **k)
        walker._push_with_children_to_stack = wp

    def _wrap(self, fn):
        calls = self.calls

        def w(formula, *a, **k):
            calls.append(formula)
            r = fn(formula, *a, **k)
            # the cost of a callback that builds a collection is at least the size of that collection
            if isinstance(r, (frozenset, set, list, tuple, dict)):
                self.setwork += len(r)
            return r
        return w


def families(env):
    m = env.formula_manager
    p = m.Symbol("p0", BOOL)
    av = m.Symbol("arr", ArrayType(INT, INT))
    return {
        "bool": (lambda i: m.Symbol("l%d" % i, BOOL), lambda a: m.Or(m.Not(a), p), lambda a, b: m.And(a, b)),
        "bool_or_iff": (lambda i: m.Symbol("l%d" % i, BOOL), lambda a: m.Implies(a, p), lambda a, b: m.Iff(a, b)),
        "int": (lambda i: m.Symbol("i%d" % i, INT), lambda a: m.Minus(a, m.Int(1)), lambda a, b: m.Plus(a, b)),
        "real_times": (lambda i: m.Symbol("r%d" % i, REAL), lambda a: m.Times(a, m.Real(2)), lambda a, b: m.Minus(a, b)),
        "bv": (lambda i: m.Symbol("v%d" % i, BVType(4)), lambda a: m.BVNot(a), lambda a, b: m.BVAdd(a, b)),
        "ite_int": (lambda i: m.Symbol("i%d" % i, INT), lambda a: m.Ite(p, a, m.Int(0)), lambda a, b: m.Ite(p, a, b)),
        "ite_bv": (lambda i: m.Symbol("v%d" % i, BVType(4)), lambda a: m.BVNeg(m.Ite(p, a, a)) if False else m.Ite(p, a, m.BV(1, 4)), lambda a, b: m.Ite(p, a, b)),
        "array_store": (lambda i: m.Symbol("a%d" % i, ArrayType(INT, INT)), lambda a: m.Store(a, m.Int(1), m.Int(2)),
                        lambda a, b: m.Ite(p, a, b)),
        # every version of the array is read AND updated (a copy tower): sharing inside each level
        "array_tower": (lambda i: m.Symbol("a%d" % i, ArrayType(INT, INT)), lambda a: m.Store(a, m.Int(1), m.Select(a, m.Int(2))),
                        lambda a, b: m.Store(a, m.Select(b, m.Int(0)), m.Select(a, m.Int(1)))),
    }


def instantiate(shape, fam):
    leaf, un, bi = fam
    nodes = []
    for i, ks in enumerate(shape):
        if not ks:
            nodes.append(leaf(i))
        elif len(ks) == 1:
            nodes.append(un(nodes[ks[0] - 1]))
        else:
            nodes.append(bi(nodes[ks[0] - 1], nodes[ks[1] - 1]))
    return nodes[-1]


def real_dag(f):
    """Number the distinct sub-formulas of f (children first)."""
    order = []
    idx = {}
    stack = [(f, False)]
    while stack:
        x, ex = stack.pop()
        if x in idx:
            continue
        if ex:
            idx[x] = len(order) + 1
            order.append(x)
        else:
            stack.append((x, True))
            for c in x.args():
                if c not in idx:
                    stack.append((c, False))
    kids = [[idx[c] for c in x.args()] for x in order]
    return order, idx, kids


def run(ck):
    warnings.simplefilter("ignore")
    quick = ck.tier == "quick"
    # ---- (A)
    total_states = 0
    for cfg in ("MC_Walker.cfg", "MC_Walker_oneshot.cfg"):
        r = tlc.run("mc/MC_Walker", cfg=cfg, timeout=3000)
        ck.add_tlc(r)
        total_states += r.distinct
        if r.invariant_violated or r.property_violated or r.error or r.rc != 0:
            ck.machinery_error("MC_Walker %s: %s %s\n%s" % (cfg, r.invariant_violated, r.error, r.out[-1500:]))
    # the unfixed configuration must exhibit the failure-transparency counterexample (vacuity guard)
    r = tlc.run("mc/MC_Walker", cfg="MC_Walker_unfixed.cfg", timeout=3000)
    if "FailureTransparent" not in r.invariant_violated:
        ck.machinery_error("MC_Walker_unfixed did not produce the expected counterexample")
    ck.part("design_check_MC_Walker", states=total_states, configs=2, unfixed_counterexample=True)
    shapes = gen_corpus("DAG5", module="gen/Gen_Dag", deps=DEPS)
    if quick:
        shapes = [s for k, s in enumerate(shapes) if len(s) <= 4 or (k + ck.seed) % 3 == 0]
    evs = []
    eid = [0]

    def walk_event(walker_name, f, order_idx, kids, calls, K=1, order=True, full=True, res="ok", exps=None):
        _nodes, idx = order_idx
        known = [idx[c] for c in calls if c in idx]
        ev = {"id": eid[0], "kind": "walk", "walker": walker_name, "kids": kids, "root": idx[f], "calls": known,
              "K": K, "order": order, "full": full, "res": res, "foreign": len(calls) - len(known),
              "chk_exp": exps is not None, "exps": [idx[c] for c in (exps or []) if c in idx]}
        eid[0] += 1
        ck.count()
        evs.append(ev)
        if len(kids) > len(set(map(tuple, kids))) or any(len(k) == 2 for k in kids):
            ck.nontrivial((walker_name, tuple(map(tuple, kids))))

    fam_names = None
    for sn, shape in enumerate(shapes):
        pysmt.environment.reset_env()
        env = pysmt.environment.get_env()
        # type checking at construction: instrument the environment's type checker first
        c_stc = Counter(env.stc)
        fams = families(env)
        fam_names = list(fams)
        name = fam_names[sn % len(fam_names)]
        f = instantiate(shape, fams[name])
        order, idx, kids = real_dag(f)
        oi = (order, idx)
        walk_event("type_check_at_construction", f, oi, kids, [c for c in c_stc.calls if c in idx], full=True)
        ops = [("simplify", env.simplifier, lambda: f.simplify()),
               ("free_vars", env.fvo, lambda: f.get_free_variables()),
               ("quantifier_oracle", env.qfo, lambda: env.qfo.is_qf(f)),
               ("theory_oracle", env.theoryo, lambda: get_logic(f, env)),
               ("types_oracle", env.typeso, lambda: env.typeso.get_types(f)),
               ("substitute", env.substituter, lambda: f.substitute({order[0]: order[0]}))]
        if f.get_type().is_bool_type():
            ops.append(("atoms_oracle", env.ao, lambda: f.get_atoms()))
        for wname, walker, fn in ops:
            cnt = Counter(walker)
            res = "ok"
            try:
                fn()
            except Exception as ex:
                res = type(ex).__name__
            walk_event(wname, f, oi, kids, cnt.calls, res=res, exps=cnt.exps)
        for measure in range(6):
            # get_size() installs the measure's callbacks first (set_walking_measure) and then walks:
            # do the same two steps so that the installed table can be wrapped in between
            env.sizeo.set_walking_measure(measure)
            cnt = Counter(env.sizeo)
            res = "ok"
            try:
                env.sizeo.walk(f, measure=measure)
            except Exception as ex:
                res = type(ex).__name__
            walk_event("size_oracle_m%d" % measure, f, oi, kids, cnt.calls, res=res, exps=cnt.exps)
        # identity walker (normalizer of the same env) and DAG printer
        from pysmt.walkers import IdentityDagWalker
        idw = IdentityDagWalker(env)
        cnt = Counter(idw)
        idw.walk(f)
        walk_event("identity_dag_walker", f, oi, kids, cnt.calls, exps=cnt.exps)
        buf = io.StringIO()
        pr = SmtDagPrinter(buf)
        cnt = Counter(pr)
        res = "ok"
        try:
            pr.printer(f)
        except Exception as ex:
            res = type(ex).__name__
        walk_event("smtlib_dag_printer", f, oi, kids, cnt.calls, res=res)
        if not f.get_type().is_bool_type():
            # the same DAG below a theory atom: the Boolean-level walkers store None for theory terms
            g = env.formula_manager.Equals(f, fams[name][0](len(shape) + 1))
            order_g, idx_g, kids_g = real_dag(g)
            for wname, walker, fn in (("atoms_oracle/atom", env.ao, lambda: g.get_atoms()),
                                      ("prenex/atom", rw.PrenexNormalizer(env), None),
                                      ("quantifier_oracle/atom", env.qfo, lambda: env.qfo.is_qf(g)),
                                      ("theory_oracle/atom", env.theoryo, lambda: get_logic(g, env))):
                cnt = Counter(walker)
                res = "ok"
                try:
                    fn() if fn else walker.normalize(g)
                except Exception as ex:
                    res = type(ex).__name__
                walk_event(wname, g, (order_g, idx_g), kids_g, cnt.calls, res=res, full=False, order=False, exps=cnt.exps)
        if name.startswith("bool"):
            for wname, mk, fn in (("nnf", lambda: rw.NNFizer(env), lambda w: w.convert(f)),
                                  ("aig", lambda: rw.AIGer(env), lambda w: w.convert(f)),
                                  ("prenex", lambda: rw.PrenexNormalizer(env), lambda w: w.normalize(f))):
                w = mk()
                cnt = Counter(w)
                res = "ok"
                try:
                    fn(w)
                except Exception as ex:
                    res = type(ex).__name__
                # these walkers also visit negations they create on the fly: per-object bound, linear total
                distinct = len(set(cnt.calls))
                evs.append({"id": eid[0], "kind": "scale", "op": wname, "nodes": len(order), "callbacks": len(cnt.calls),
                            "K": 2, "slack": 2, "res": res if distinct == len(cnt.calls) else "node_visited_twice",
                            "exp": len(cnt.exps), "edges": sum(len(k) for k in kids), "setwork": 0})
                eid[0] += 1
                ck.count()
        if name in ("int", "real_times"):
            w = rw.TimesDistributor(env)
            cnt = Counter(w)
            res = "ok"
            try:
                w.walk(f)
            except Exception as ex:
                res = type(ex).__name__
            walk_event("times_distributor", f, oi, kids, cnt.calls, res=res)

    # ---- scaling families beyond TLC's reach
    scale = []
    depth_chain = 20000
    depth_diamond = 60
    old_limit = sys.getrecursionlimit()

    def scale_event(op, nodes, callbacks, res, K=1, slack=8, exp=0, edges=0, setwork=0):
        evs.append({"id": eid[0], "kind": "scale", "op": op, "nodes": nodes, "callbacks": callbacks, "K": K, "slack": slack, "res": res,
                    "exp": exp, "edges": edges, "setwork": setwork})
        eid[0] += 1
        ck.count()
        ck.nontrivial(("scale", op))

    for fam_name in (fam_names or []):
        for kind in ("chain", "diamond"):
            pysmt.environment.reset_env()
            env = pysmt.environment.get_env()
            c_stc = Counter(env.stc)
            fams = families(env)
            leaf, un, bi = fams[fam_name]
            box = []

            def build():
                cur = leaf(0)
                if kind == "chain":
                    # (one family keeps the full depth in the quick tier too: quadratic work only shows there)
                    for _ in range(depth_chain if (not quick or fam_name == "int") else 6000):
                        cur = un(cur)
                else:
                    for _ in range(depth_diamond):
                        cur = bi(cur, cur)
                box.append(cur)
            res = timed(build, 60)
            f = box[0] if box else None
            label = "%s/%s" % (fam_name, kind)
            if f is None:
                scale_event("construct:" + label, 1, 0, res)
                continue
            order, idx, kids = real_dag(f)
            n = len(order)
            n_edges = sum(len(k) for k in kids)
            scale_event("construct:" + label, n, len(c_stc.calls), res, K=1, slack=8)
            runs = [("simplify", env.simplifier, lambda: f.simplify(), 1),
                    ("substitute", env.substituter, lambda: f.substitute({order[0]: order[0]}), 1),
                    ("free_vars", env.fvo, lambda: f.get_free_variables(), 1),
                    ("is_qf", env.qfo, lambda: env.qfo.is_qf(f), 1),
                    ("get_logic", env.theoryo, lambda: get_logic(f, env), 1),
                    ("get_types", env.typeso, lambda: env.typeso.get_types(f), 1),
                    ("size_tree", env.sizeo, lambda: env.sizeo.get_size(f, 0), 1),
                    ("size_dag", env.sizeo, lambda: env.sizeo.get_size(f, 1), 1),
                    ("size_leaves", env.sizeo, lambda: env.sizeo.get_size(f, 2), 1),
                    ("size_depth", env.sizeo, lambda: env.sizeo.get_size(f, 3), 1),
                    ("size_symbols", env.sizeo, lambda: env.sizeo.get_size(f, 4), 1),
                    ("size_bool_dag", env.sizeo, lambda: env.sizeo.get_size(f, 5), 1)]
            if f.get_type().is_bool_type():
                runs += [("atoms", env.ao, lambda: f.get_atoms(), 1)]
            for opn, walker, fn, K in runs:
                cnt = Counter(walker)
                res = timed(fn)
                scale_event("%s:%s" % (opn, label), n, len(cnt.calls) if res == "ok" else 0, res, K=K, slack=8,
                            exp=len(cnt.exps) if res == "ok" else 0, edges=n_edges, setwork=cnt.setwork if res == "ok" else 0)
            if not f.get_type().is_bool_type():
                # the same DAG below a theory atom, through the Boolean-level walkers
                g = env.formula_manager.Equals(f, leaf(1))
                for opn, mk, fn in (("atoms", lambda: env.ao, lambda w: g.get_atoms()),
                                    ("is_qf", lambda: env.qfo, lambda w: env.qfo.is_qf(g)),
                                    ("nnf", lambda: rw.NNFizer(env), lambda w: w.convert(g)),
                                    ("prenex", lambda: rw.PrenexNormalizer(env), lambda w: w.normalize(g))):
                    w = mk()
                    cnt = Counter(w)
                    res = timed(lambda: fn(w))
                    scale_event("%s:%s/atom" % (opn, label), n + 2, len(cnt.calls) if res == "ok" else 0, res, K=2, slack=8,
                                exp=len(cnt.exps) if res == "ok" else 0, edges=n_edges + 2)
            if fam_name.startswith("bool"):
                for opn, mk, fn in (("nnf", lambda: rw.NNFizer(env), lambda w: w.convert(f)),
                                    ("aig", lambda: rw.AIGer(env), lambda w: w.convert(f)),
                                    ("prenex", lambda: rw.PrenexNormalizer(env), lambda w: w.normalize(f))):
                    w = mk()
                    cnt = Counter(w)
                    res = timed(lambda: fn(w))
                    scale_event("%s:%s" % (opn, label), n, len(cnt.calls) if res == "ok" else 0, res, K=2, slack=8)
            # DAG printing and re-parsing
            buf = io.StringIO()
            pr = SmtDagPrinter(buf)
            cnt = Counter(pr)
            res = timed(lambda: pr.printer(f))
            scale_event("smtlib_dag_print:" + label, n, len(cnt.calls) if res == "ok" else 0, res, K=1, slack=8)
            if res == "ok":
                text = buf.getvalue()
                decls = "".join("(declare-fun %s () %s)" % (s.symbol_name(), s.symbol_type().as_smtlib(funstyle=False))
                                for s in f.get_free_variables())
                got = []
                res = timed(lambda: got.append(SmtLibParser(env).get_script(io.StringIO(decls + "(assert %s)" % text)).commands[-1].args[0]))
                if res == "ok" and got[0] is not f:
                    res = "reparsed_formula_differs"
                # the parser has no walker: its work is measured by the text it consumes (linear in the DAG)
                scale_event("smtlib_reparse:" + label, n, len(text) // 40, res, K=2, slack=50)
    # a bit-vector operator applied on top of a deep pure-ITE chain (its width must be found without
    # recursing over the chain), and its later processing
    pysmt.environment.reset_env()
    env = pysmt.environment.get_env()
    c_stc = Counter(env.stc)
    m = env.formula_manager
    box = []

    def build_ite():
        p = m.Symbol("p0", BOOL)
        cur = m.Symbol("v0", BVType(4))
        one = m.BV(1, 4)
        for _ in range(depth_chain if not quick else 6000):
            cur = m.Ite(p, cur, one)
        box.append(m.BVAdd(m.BVNot(cur), cur))
    res = timed(build_ite, 60)
    if box:
        order, idx, kids = real_dag(box[0])
        scale_event("construct:bv_op_over_ite_chain", len(order), len(c_stc.calls), res, K=1, slack=8)
        cnt = Counter(env.simplifier)
        res = timed(lambda: box[0].simplify())
        scale_event("simplify:bv_op_over_ite_chain", len(order), len(cnt.calls) if res == "ok" else 0, res, K=1, slack=8)
    else:
        scale_event("construct:bv_op_over_ite_chain", 1, 0, res)
    # the same with the chain nested in the ELSE position (an if / elif / ... / else ladder)
    pysmt.environment.reset_env()
    env_e = pysmt.environment.get_env()
    c_stc_e = Counter(env_e.stc)
    me = env_e.formula_manager
    box_e = []

    def build_else_ladder():
        p = me.Symbol("p0", BOOL)
        cur = me.Symbol("v0", BVType(4))
        one = me.BV(1, 4)
        for _ in range(depth_chain if not quick else 6000):
            cur = me.Ite(p, one, cur)
        box_e.append(me.BVAdd(me.BVNot(cur), cur))
    res_e = timed(build_else_ladder, 60)
    if box_e:
        order_e, idx_e, kids_e = real_dag(box_e[0])
        scale_event("construct:bv_op_over_else_nested_ite_ladder", len(order_e), len(c_stc_e.calls), res_e, K=1, slack=8)
        cnt_e = Counter(env_e.simplifier)
        res_e = timed(lambda: box_e[0].simplify())
        scale_event("simplify:bv_op_over_else_nested_ite_ladder", len(order_e), len(cnt_e.calls) if res_e == "ok" else 0, res_e, K=1, slack=8)
    else:
        scale_event("construct:bv_op_over_else_nested_ite_ladder", 1, 0, res_e)
    # construction interleaved with REJECTED constructions (ill-typed applications raise): the type checker's
    # knowledge of the existing sub-formulas must survive a rejection, so the total type-checking work stays
    # linear in the nodes built (rejected nodes included)
    for fam_name in ("int", "bool", "bv"):
        pysmt.environment.reset_env()
        env = pysmt.environment.get_env()
        c_stc = Counter(env.stc)
        m = env.formula_manager
        leaf, un, bi = families(env)[fam_name]
        pb, xi = m.Symbol("pp", BOOL), m.Symbol("xx", INT)
        box, rej = [], [0]

        def build_rej():
            cur = leaf(0)
            for k in range(depth_chain if not quick else 6000):
                cur = un(cur)
                if k % 10 == 0:
                    try:
                        m.And(cur, xi) if fam_name == "bool" else m.And(pb, cur)     # ill-typed: rejected
                    except Exception:
                        rej[0] += 1
            box.append(cur)
        res = timed(build_rej, 120)
        if box:
            order, idx, kids = real_dag(box[0])
            scale_event("construct_with_rejections:%s/chain" % fam_name, len(order) + rej[0], len(c_stc.calls), res, K=2, slack=16)
        else:
            scale_event("construct_with_rejections:%s/chain" % fam_name, 1, 0, res)
    # the partitions (generators, not walkers) and propagate_toplevel over conjunctions / disjunctions SHARED through nested
    # And / Or nodes: f_{i+1} = And(And(f_i, a_i), And(f_i, b_i)) has 2^40 paths to f_0 and 40 * 5 nodes
    pysmt.environment.reset_env()
    env = pysmt.environment.get_env()
    m = env.formula_manager
    for opn, mk in (("and", m.And), ("or", m.Or)):
        cur = m.Symbol("s0", BOOL)
        for k in range(40):
            cur = mk(mk(cur, m.Symbol("a%d" % k, BOOL)), mk(cur, m.Symbol("b%d" % k, BOOL)))
        order, idx, kids = real_dag(cur)
        got = []
        part = rw.conjunctive_partition if opn == "and" else rw.disjunctive_partition
        res = timed(lambda: got.append(len(list(part(cur)))), 20)
        if res == "ok" and got[0] != 81:
            res = "wrong_number_of_parts"
        scale_event("partition_over_shared_%s_diamond" % opn, len(order), 0, res, K=1, slack=8)
        if opn == "and":
            res = timed(lambda: rw.propagate_toplevel(cur, env), 20)
            scale_event("propagate_toplevel_over_shared_and_diamond", len(order), 0, res, K=1, slack=8)
    # REJECTING an application on top of a big shared DAG costs no more than type-checking it: the error (and its
    # message) must not walk the tree expansion of the operands (2^40 nodes here)
    for fam_name, bad in (("bool", "equals_on_bool_terms"), ("bool", "plus_on_bool_terms"), ("int", "and_on_int_terms"), ("bv", "bvadd_other_width")):
        pysmt.environment.reset_env()
        env = pysmt.environment.get_env()
        c_stc = Counter(env.stc)
        m = env.formula_manager
        leaf, un, bi = families(env)[fam_name]
        cur = leaf(0)
        for k in range(40):
            cur = bi(un(cur), cur)
        order, idx, kids = real_dag(cur)
        outcome = []

        def reject():
            try:
                if bad == "equals_on_bool_terms":
                    m.Equals(cur, m.Not(cur))
                elif bad == "plus_on_bool_terms":
                    m.Plus(cur, cur)
                elif bad == "and_on_int_terms":
                    m.And(m.LE(cur, cur), cur)
                else:
                    m.BVAdd(cur, m.BVZExt(cur, 1))
                outcome.append("accepted")
            except Exception as ex:
                outcome.append(type(ex).__name__)
        res = timed(reject, 20)
        if res == "ok" and outcome and outcome[0] == "accepted":
            res = "ill_typed_application_accepted"
        scale_event("reject_over_diamond:%s/%s" % (fam_name, bad), len(order) + 4, len(c_stc.calls), res, K=2, slack=16)
    # re-parsing a deep let-DAG of Real arithmetic written with integer literals (the parser retries such
    # applications after a type error)
    pysmt.environment.reset_env()
    env = pysmt.environment.get_env()
    c_stc = Counter(env.stc)
    nlev = 1500 if quick else 6000
    text = "(declare-fun r0 () Real)(assert (let ((d0 (+ r0 1)))" + "".join(
        "(let ((d%d (+ d%d (* 2 d%d))))" % (k, k - 1, k - 1) for k in range(1, nlev)) + "(< d%d 3)" % (nlev - 1) + ")" * (nlev + 1)
    got = []
    res = timed(lambda: got.append(SmtLibParser(env).get_script(io.StringIO(text)).commands[-1].args[0]), 120)
    if got:
        order, idx, kids = real_dag(got[0])
        scale_event("smtlib_parse_int_literals_over_reals", len(order), len(c_stc.calls), res, K=4, slack=16)
    else:
        scale_event("smtlib_parse_int_literals_over_reals", 1, 0, res)
    # shared sub-terms named by chains of define-fun (nullary, and unary applied to the previous name): the work of the
    # environment's walkers the parser calls (type checker, substituter, simplifier) must stay linear in the DAG
    nlev = 1200 if quick else 5000
    for fam, sort, leaf_txt, body, body1 in (
            ("bool", "Bool", "p0", "(and (or (not .d%d) p0) .d%d)", "(and (or (not z) p0) z)"),
            ("int", "Int", "i0", "(+ (- .d%d 1) .d%d)", "(+ (- z 1) z)"),
            ("bv", "(_ BitVec 4)", "v0", "(bvadd (bvnot .d%d) .d%d)", "(bvadd (bvnot z) z)")):
        for style in ("nullary", "unary"):
            pysmt.environment.reset_env()
            env = pysmt.environment.get_env()
            cs = [Counter(env.stc), Counter(env.substituter), Counter(env.simplifier)]
            decl = "(declare-fun %s () %s)" % (leaf_txt, sort)
            if style == "nullary":
                text = decl + "(define-fun .d0 () %s %s)" % (sort, leaf_txt) + "".join(
                    "(define-fun .d%d () %s %s)" % (k, sort, body % (k - 1, k - 1)) for k in range(1, nlev))
            else:
                text = decl + "(define-fun step ((z %s)) %s %s)" % (sort, sort, body1) + "(define-fun .d0 () %s %s)" % (sort, leaf_txt) + "".join(
                    "(define-fun .d%d () %s (step .d%d))" % (k, sort, k - 1) for k in range(1, nlev))
            text += "(assert (= .d%d .d%d))" % (nlev - 1, nlev - 2)
            got = []
            res = timed(lambda: got.append(SmtLibParser(env).get_script(io.StringIO(text)).commands[-1].args[0]), 120)
            if got:
                order, idx, kids = real_dag(got[0])
                scale_event("smtlib_parse_define_chain:%s/%s" % (fam, style), len(order), sum(len(c.calls) for c in cs), res, K=6, slack=32)
            else:
                scale_event("smtlib_parse_define_chain:%s/%s" % (fam, style), 1, 0, res)
    sys.setrecursionlimit(old_limit)
    verdicts, st = tlc.validate_events("Trace_Pure", evs, constants={"Seed": 0, "Cap": 8})
    ck.add_tlc(st)
    byid = {e["id"]: e for e in evs}
    for i, fails in verdicts.items():
        e = byid[i]
        for cl in fails:
            if e["kind"] == "walk":
                ck.violation({"kind": "walk", "clause": cl, "walker": e["walker"], "res": e["res"]}, {"event": e})
            else:
                ck.violation({"kind": "scale", "clause": cl, "op": e["op"], "res": e["res"]}, {"event": e})
    ck.part("replay", shapes=len(shapes), families=len(fam_names or []), chain_depth=depth_chain if not quick else 6000,
            diamond_depth=depth_diamond)
    ck.sample({k: evs[3][k] for k in ("walker", "kids", "root", "calls")})
    ck.sample([e for e in evs if e["kind"] == "scale"][-1])
    ck.cov["exhaustive"] = not quick
    ck.cov["rule"] = ("every rooted DAG shape up to 5 nodes / fan-out 2 (TLC, Gen_Dag) x operator family (round robin) x walker; "
                      "per-callback logs validated against WalkTraceContract; scaling families (depth %d chains, 2^%d-tree diamonds) "
                      "validated against ScaleContract. non-trivial = shapes with sharing or binary nodes / scaling runs"
                      % (depth_chain if not quick else 6000, depth_diamond))
    ck.assumptions += ["the model decides visit-once and absence of per-level recursion of the ALGORITHM; the absolute depth reached is an "
                       "observation on the interpreter", "callbacks are counted by wrapping walker.functions from outside"]


def main():
    ck = Check("C20")
    try:
        run(ck)
    except tlc.TLCError as ex:
        ck.machinery_error(str(ex))
    return ck.finish()
