"""Catalogue of environment-level calls used by the C14 / C15 twin runs.

A `World` is one Environment plus the long-lived helper objects a user would reuse (an SmtLibParser,
the environment's serializer / substituter / simplifier ...).  Every call returns a result record
{k, t, ts, s, fresh} (see Contracts!ResultEq).  Nothing here judges a result."""
import io
import warnings
from fractions import Fraction
import pysmt.environment
import pysmt.operators as op
import pysmt.rewritings as rw
from pysmt.typing import BOOL, INT, REAL, BVType, ArrayType, FunctionType
from pysmt.smtlib.parser import SmtLibParser
from pysmt.smtlib.printers import to_smtlib
from pysmt.oracles import get_logic
from pysmt.solvers.eager import EagerModel
from pysmt.parsing import HRParser
from harness import term_io

NONE_T = term_io.node("bool_constant", i=[1])


def rec(k, t=None, ts=None, s="", fresh=()):
    return {"k": k, "t": t or NONE_T, "ts": ts or [], "s": s, "fresh": list(fresh)}


class World(object):
    def __init__(self):
        pysmt.environment.reset_env()
        self.env = pysmt.environment.get_env()
        self.env.enable_infix_notation = True
        m = self.m = self.env.formula_manager
        self.parser = SmtLibParser(self.env)
        self.hr = HRParser(self.env)
        p, q = m.Symbol("p", BOOL), m.Symbol("q", BOOL)
        x, y = m.Symbol("x", INT), m.Symbol("y", INT)
        r = m.Symbol("r", REAL)
        f = m.Symbol("f", FunctionType(INT, [INT]))
        b, c = m.Symbol("b", BVType(4)), m.Symbol("c", BVType(4))
        a = m.Symbol("a", ArrayType(INT, INT))
        from pysmt.typing import STRING
        st = m.Symbol("st", STRING)
        self.s = dict(p=p, q=q, x=x, y=y, r=r, f=f, b=b, c=c, a=a, st=st)
        self.str_len = m.LE(m.StrLength(st), m.Int(3))
        self.str_only = m.Equals(st, m.String("a"))
        self.const_arr = m.Equals(m.Select(m.Array(INT, x), y), x)
        self.int_only = m.LE(x, y)
        self.bv2nat = m.LE(m.BVToNatural(b), m.Int(2))
        self.bv_only = m.BVULT(b, c)
        le = m.LE(m.Plus(x, m.Int(1)), y)
        self.phi1 = m.And(p, m.Or(q, le), m.Equals(m.Function(f, [x]), y))
        self.phi2 = m.Implies(le, m.Not(m.And(p, q)))
        self.phi3 = m.ForAll([x], m.Or(m.LE(x, y), m.Exists([y], m.Equals(m.Function(f, [y]), x))))
        self.phi4 = m.And(m.Equals(m.BVAdd(b, m.BVMul(c, m.BV(1, 4))), m.BVNot(b)),
                          m.Equals(m.Select(m.Store(a, x, y), m.Plus(x, m.Int(1))), y), m.Iff(p, m.Ite(q, le, p)))
        # long-lived substitution maps the validation of substitute() rejects: a value that belongs to another
        # environment, a function symbol as a value.  The SAME dict objects are passed again by a probe.
        other = pysmt.environment.Environment()
        self.bad_map_foreign = {p: other.formula_manager.Symbol("zf", BOOL)}
        self.bad_map_funsym = {x: f}
        # a formula with an operator only the type checker knows (registered as part of the world's set-up): every other
        # walker meets it in the MIDDLE of its traversal and fails there
        from pysmt.type_checker import SimpleTypeChecker
        if not World._CUSTOM2:
            World._CUSTOM2.append(op.new_node_type(node_str="verif_custom2"))
        self.env.add_dynamic_walker_function(World._CUSTOM2[0], SimpleTypeChecker, SimpleTypeChecker.walk_bool_to_bool)
        self.custom_f = m.And(m.Or(q, le), m.Not(m.And(p, m.create_node(node_type=World._CUSTOM2[0], args=(m.Or(p, q),)))),
                              m.Equals(m.Function(f, [x]), y))
        # a long-lived map that is rejected INSIDE the body of a quantifier binding one of its keys (y -> a Real), and
        # is perfectly fine for formulas without y
        self.bad_map_quant = {x: m.Int(0), y: r}
        # a long-lived substitution map whose CONTENT is changed between two uses (same object, same address)
        self.shared_map = {y: m.Plus(x, m.Int(1))}
        self.known = set(m.symbols)

    # ---- helpers
    def _call(self, fn, kind="term"):
        before = set(self.m.symbols)
        try:
            with warnings.catch_warnings():
                warnings.simplefilter("ignore")
                out = fn()
        except Exception as ex:
            return rec("err", s=type(ex).__name__), None
        if kind == "term":
            names = {s.symbol_name() for s in self._all_syms(out)}
            fresh = sorted(n for n in names if n not in before)
            try:
                return rec("term", t=term_io.export(out), fresh=fresh), out
            except term_io.Unrepresentable as ex:
                return rec("text", s="returned a formula the exporter cannot represent (%s)" % ex), out
        if kind == "terms":
            out = list(out)
            names = set()
            for o in out:
                names |= {s.symbol_name() for s in self._all_syms(o)}
            fresh = sorted(n for n in names if n not in before)
            return rec("terms", ts=[term_io.export(o) for o in out], fresh=fresh), out
        return rec("text", s=str(out)), out

    def _subst_changed_map(self):
        self.shared_map[self.s["y"]] = self.m.Int(0)
        return self.phi3.substitute(self.shared_map)

    def _custom_with_rule(self):
        from pysmt.type_checker import SimpleTypeChecker
        nt = self._custom_op()
        self.env.add_dynamic_walker_function(nt, SimpleTypeChecker, SimpleTypeChecker.walk_bool_to_bool)
        n = self.m.create_node(node_type=nt, args=(self.s["p"],))
        return "built a node of the custom type with %d argument(s), type %s" % (len(n.args()), n.get_type())

    @staticmethod
    def _outcome(fn):
        try:
            return "returns:%s" % fn()
        except Exception as ex:
            return "raises:" + type(ex).__name__

    def _all_syms(self, f):
        seen, out, stack = set(), set(), [f]
        while stack:
            z = stack.pop()
            if z in seen:
                continue
            seen.add(z)
            if z.is_symbol():
                out.add(z)
            if z.is_function_application():
                out.add(z.function_name())
            if z.is_quantifier():
                out.update(z.quantifier_vars())
            stack.extend(z.args())
        return out

    def parse_smt(self, text, which=-1):
        decls = ("(declare-fun p () Bool)(declare-fun q () Bool)(declare-fun x () Int)(declare-fun y () Int)"
                 "(declare-fun f (Int) Int)")
        sc = self.parser.get_script(io.StringIO(decls + text))
        return [c.args[0] for c in sc.commands if c.name == "assert"]

    # ---- catalogue
    def good_calls(self):
        m, s = self.m, self.s
        x, y, p, q = s["x"], s["y"], s["p"], s["q"]
        sig1 = {x: m.Plus(y, m.Int(1))}
        sig2 = {x: m.Int(0), p: m.TRUE()}
        return [
            ("get_type(phi1)", lambda: self._call(lambda: self.phi1.get_type(), "text")),
            ("simplify(phi1)", lambda: self._call(lambda: self.phi1.simplify())),
            ("simplify(phi2)", lambda: self._call(lambda: self.phi2.simplify())),
            ("subst s1 phi1", lambda: self._call(lambda: self.phi1.substitute(sig1))),
            ("subst s2 phi1", lambda: self._call(lambda: self.phi1.substitute(sig2))),
            ("subst s1 phi2", lambda: self._call(lambda: self.phi2.substitute(sig1))),
            ("fv+atoms phi1", lambda: self._call(lambda: list(self.phi1.get_free_variables()) + list(self.phi1.get_atoms()), "terms")),
            ("get_logic(phi3)", lambda: self._call(lambda: get_logic(self.phi3, self.env), "text")),
            ("size(phi1,dag)", lambda: self._call(lambda: self.phi1.size(1), "text")),
            ("size(phi1,depth)", lambda: self._call(lambda: self.phi1.size(3), "text")),
            ("size(phi2,tree)", lambda: self._call(lambda: self.phi2.size(0), "text")),
            ("serialize(phi3)", lambda: self._call(lambda: self.phi3.serialize(), "text")),
            ("to_smtlib(phi1)", lambda: self._call(lambda: to_smtlib(self.phi1, daggify=True), "text")),
            ("parse(print(phi2))", lambda: self._call(lambda: self.parse_smt("(assert %s)" % to_smtlib(self.phi2, daggify=False))[0])),
            ("nnf(phi2)", lambda: self._call(lambda: rw.nnf(self.phi2, self.env))),
            ("prenex(phi3)", lambda: self._call(lambda: rw.prenex_normal_form(self.phi3, self.env))),
            ("cnf(phi2)", lambda: self._call(lambda: rw.cnf(self.phi2, self.env))),
            ("spellings", lambda: self._call(lambda: [m.Real(2.0), m.Real((4, 2)), m.Int(2), m.And([q, p]), m.BV("0101"),
                                                      m.Real(Fraction(1, 2)), m.Times(x, m.Int(2)), m.Symbol("fresh_user", INT),
                                                      m.Int(-2), m.Real(-3)], "terms")),
            ("get_logic(len(st)<=3)", lambda: self._call(lambda: "%s %s" % (get_logic(self.str_len, self.env), get_logic(self.bv2nat, self.env)), "text")),
            ("get_logic(const array)", lambda: self._call(lambda: get_logic(self.const_arr, self.env), "text")),
            ("subst shared_map phi3 (quantified)", lambda: self._call(lambda: self.phi3.substitute(self.shared_map))),
            # a formula over a symbol whose sort OBJECT belongs to another environment's type manager (a sort kept in a
            # variable while another environment was current): equal sorts are the same sort
            ("formula over b12 : BV12 built with a foreign sort object", lambda: self._call(lambda: self._foreign_sort_formula())),
            # the environment's size oracle driven through its public walker interface with another measure
            ("sizeo.set_walking_measure(depth); walk(phi1)", lambda: self._call(lambda: self._size_walk(), "text")),
        ]

    def _foreign_sort_formula(self):
        other = pysmt.environment.Environment()
        t12 = other.type_manager.BVType(12)
        return self.m.BVULT(self.m.BV(3, 12), self.m.Symbol("b12", t12))

    def _other_b12(self):
        o = pysmt.environment.Environment()
        return o.formula_manager.BVULT(o.formula_manager.Symbol("b12", o.type_manager.BVType(12)), o.formula_manager.BV(9, 12))

    def _size_walk(self):
        so = self.env.sizeo
        so.set_walking_measure(so.MEASURE_DEPTH)
        return so.walk(self.phi1, measure=so.MEASURE_DEPTH)

    def c15_good_calls(self):
        g = self.good_calls()
        return [g[1], g[3], g[12], g[13], g[7], g[10]]

    def fail_calls(self):
        m, s = self.m, self.s
        x, y, p, q, r, b = s["x"], s["y"], s["p"], s["q"], s["r"], s["b"]
        le = m.LE(m.Plus(x, m.Int(1)), y)
        wrong = {BOOL: x, INT: r, REAL: p}
        nodes = [x, le, m.Plus(x, m.Int(1)), m.Or(q, le), m.Function(s["f"], [x])]
        calls = [
            ("And(p,x)", lambda: self._call(lambda: m.And(p, x))),
            ("Plus(x,r)", lambda: self._call(lambda: m.Plus(x, r))),
            ("BVAdd(b4,b8)", lambda: self._call(lambda: m.BVAdd(b, m.Symbol("b8", BVType(8))))),
            # applications the type checker rejects by RAISING inside its walk (not by returning "no type")
            ("Equals(p,q) on Booleans", lambda: self._call(lambda: m.Equals(p, q))),
            ("BVULT(x,y) on Ints", lambda: self._call(lambda: m.BVULT(x, y))),
        ]
        for n in nodes:
            t = n.get_type()
            w = wrong[BOOL] if t.is_bool_type() else wrong[INT]
            calls.append(("subst %s->wrong sort" % n, (lambda n=n, w=w: self._call(lambda: self.phi1.substitute({n: w})))))
        calls += [
            ("get_value pow(0,-1)", lambda: self._call(lambda: EagerModel({x: m.Int(0), y: m.Int(1)}, self.env).get_value(
                m.Equals(m.Times(m.ToReal(y), m.Pow(x, m.Int(-1))), m.Real(1))))),
            ("custom node", lambda: self._call(lambda: m.create_node(node_type=self._custom_op(), args=(x,)))),
            ("cnf(quantified)", lambda: self._call(lambda: rw.cnf(self.phi3, self.env))),
            ("get_atoms(int term)", lambda: self._call(lambda: m.Plus(x, m.Int(1)).get_atoms(), "terms")),
            ("get_symbol(undefined)", lambda: self._call(lambda: m.get_symbol("undefined_zz"))),
            ("parse truncated", lambda: self._call(lambda: self.parse_smt("(assert (and p (< x y)))(assert (or q"), "terms")),
            ("parse unknown op", lambda: self._call(lambda: self.parse_smt("(push 1)(assert (foo p q))(assert p)"), "terms")),
            ("hr parse error", lambda: self._call(lambda: self.hr.parse("(x + ) <= y"))),
            ("subst map with a foreign value", lambda: self._call(lambda: self.phi1.substitute(self.bad_map_foreign))),
            ("subst map with a function symbol as value", lambda: self._call(lambda: self.phi2.substitute(self.bad_map_funsym))),
            ("subst phi3 with a map rejected under the binder of one of its keys", lambda: self._call(lambda: self.phi3.substitute(self.bad_map_quant))),
            # an operator without handler met in the middle of a traversal (size with two measures, simplify, free
            # variables, substitution, SMT-LIB printing)
            ("size(custom formula, depth)", lambda: self._call(lambda: self.env.sizeo.get_size(self.custom_f, measure=3), "text")),
            ("size(custom formula, symbols)", lambda: self._call(lambda: self.env.sizeo.get_size(self.custom_f, measure=4), "text")),
            ("simplify(custom formula)", lambda: self._call(lambda: self.custom_f.simplify())),
            ("free variables(custom formula)", lambda: self._call(lambda: self.env.fvo.get_free_variables(self.custom_f), "terms")),
            ("subst s1 custom formula", lambda: self._call(lambda: self.custom_f.substitute({x: m.Plus(y, m.Int(1))}))),
            ("to_smtlib(custom formula)", lambda: self._call(lambda: to_smtlib(self.custom_f, daggify=True), "text")),
            # a declaration that is rejected only at its closing parenthesis (two result sorts; cut before the end)
            ("parse declare-fun with two result sorts", lambda: self._call(lambda: self.parser.get_script(io.StringIO(
                "(declare-fun zz9 () Int Real)(assert (> zz9 0))")))),
            ("parse declare-fun cut before its end", lambda: self._call(lambda: self.parser.get_script(io.StringIO(
                "(declare-fun zz8 (Int) Int")))),
            # failing scripts that have already changed the parser's state when they fail: a logic under which
            # numerals are Reals, a definition, an open let binding
            ("parse LRA script, unknown command", lambda: self._call(lambda: self.parser.get_script(io.StringIO(
                "(set-logic QF_LRA)(declare-fun rr0 () Real)(assert (< rr0 1))(assert (= rr0 (/ 1 2)))(frobnicate rr0)")))),
            ("parse define-fun, truncated", lambda: self._call(lambda: self.parser.get_script(io.StringIO(
                "(declare-fun p () Bool)(define-fun one () Int 1)(define-fun x () Bool (not p))(assert (and x")))),
            ("parse undefined function inside let", lambda: self._call(lambda: self.parser.get_script(io.StringIO(
                "(declare-fun p () Bool)(assert (let ((y (not p)) (one 7)) (and y (undefined_fn one))))")))),
        ]
        return calls

    _CUSTOM = []
    _CUSTOM2 = []

    def _custom_op(self):
        if not World._CUSTOM:
            World._CUSTOM.append(op.new_node_type(node_str="verif_custom"))
        return World._CUSTOM[0]

    def probes(self):
        """(name, thunk, repeatable): repeatable = returns a formula and introduces no fresh symbol."""
        m, s = self.m, self.s
        x, y, p, q = s["x"], s["y"], s["p"], s["q"]
        return [
            # first, before any probe creates further constants: whether an invalid spelling is rejected must not
            # depend on an equal valid constant having been built earlier (2.0 == 2, True == 1)
            ("invalid constant spellings", lambda: self._call(lambda: " ".join(self._outcome(fn) for fn in (
                lambda: m.Int(2.0), lambda: m.Int(0.0), lambda: m.Int(False), lambda: m.Int(Fraction(2)), lambda: m.Int(True), lambda: m.Real(True), lambda: m.Int(7.0),
                lambda: m.Real("2"))), "text"), False),
            # elided printing (str() prints to depth 5, threshold=k to depth k) of formulas that may have been printed in full
            # (before any probe prints them in full)
            ("str / thresholded serialize", lambda: self._call(lambda: " | ".join(
                [str(self.phi1), self.phi3.serialize(threshold=2), self.phi4.serialize(threshold=1), str(self.phi4)]), "text"), False),
            # (before any other probe substitutes: a substituter that remembered the last map it looked at would be reset)
            ("subst with the map object rejected last", lambda: self._call(lambda: " ".join(self._outcome(fn) for fn in (
                lambda: self.phi2.substitute(self.bad_map_foreign), lambda: self.phi4.substitute(self.bad_map_funsym),
                lambda: self.phi1.substitute(self.bad_map_funsym), lambda: self.phi1.substitute(self.bad_map_foreign))), "text"), False),
            # a substitution over a formula mentioning every symbol, with a map that mentions none of the keys of the
            # rejected maps (run FIRST of all in the second probe order: a successful substitution wipes what an
            # earlier rejected one may have left in the substituter)
            ("subst {q:p} phi1", lambda: self._call(lambda: self.phi1.substitute({q: p})), True),
            ("subst shared_map after its content changed, phi3", lambda: self._call(lambda: self._subst_changed_map()), False),
            ("subst x<=3 & p with the map rejected under a binder", lambda: self._call(
                lambda: m.And(m.LE(x, m.Int(3)), p).substitute(self.bad_map_quant)), False),
            ("custom node after registering its type-checker rule", lambda: self._call(lambda: self._custom_with_rule(), "text"), False),
            ("subst {x:0} phi1", lambda: self._call(lambda: self.phi1.substitute({x: m.Int(0)})), True),
            ("subst {y:x+1,p:q} phi4", lambda: self._call(lambda: self.phi4.substitute({y: m.Plus(x, m.Int(1)), p: q})), True),
            ("simplify(phi2)", lambda: self._call(lambda: self.phi2.simplify()), True),
            ("simplify(phi4)", lambda: self._call(lambda: self.phi4.simplify()), True),
            ("type+fv phi1", lambda: self._call(lambda: [self.phi1] + sorted(self.phi1.get_free_variables(), key=lambda z: z.symbol_name()), "terms"), False),
            ("atoms phi4", lambda: self._call(lambda: self.phi4.get_atoms(), "terms"), False),
            # the free symbols of the quantified formula, of its body (a disjunction with a quantified disjunct) and of
            # a conjunction built over it - as text: one answer per formula
            ("fv of phi3, its body, a conjunction over the body", lambda: self._call(lambda: " | ".join(
                ",".join(sorted(z.symbol_name() for z in g_.get_free_variables()))
                for g_ in (self.phi3, self.phi3.arg(0), m.And(self.phi3.arg(0), p), m.Not(self.phi3.arg(0)))), "text"), False),
            ("to_smtlib dag phi1", lambda: self._call(lambda: to_smtlib(self.phi1, daggify=True), "text"), False),
            ("to_smtlib tree phi4", lambda: self._call(lambda: to_smtlib(self.phi4, daggify=False), "text"), False),
            ("serialize phi3", lambda: self._call(lambda: self.phi3.serialize(), "text"), False),
            ("parse good script", lambda: self._call(lambda: self.parse_smt("(assert (and p (< x (+ y 1))))(push 1)(assert (= (f x) (* 2 y)))(pop 1)(assert (or q p))"), "terms"), False),
            ("And(p,x) again", lambda: self._call(lambda: m.And(p, x)), False),
            # names that only REJECTED declarations mentioned: still undefined, still free for another sort
            ("zz9 / zz8 after rejected declarations", lambda: self._call(lambda: " ".join(self._outcome(fn) for fn in (
                lambda: m.get_symbol("zz9").symbol_type(), lambda: m.get_symbol("zz8").symbol_type(),
                lambda: self.parse_smt("(declare-fun zz9 () Real)(assert (> zz9 0.5))", which=0)[0].serialize(),
                lambda: self.hr.parse("zz8 + 1"))), "text"), False),
            # (reported as text: whether b12 is NEW to the environment legitimately differs between the two runs)
            ("b12 with the environment's own BV12, normalize, parse", lambda: self._call(lambda: " ".join(self._outcome(fn) for fn in (
                lambda: m.Not(m.Equals(m.Symbol("b12", self.env.type_manager.BVType(12)), m.BV(7, 12))).serialize(),
                lambda: m.normalize(self._other_b12()).serialize(),
                lambda: self.parse_smt("(declare-fun b12 () (_ BitVec 12))(assert (bvult b12 #x005))")[0].serialize())), "text"), False),
            ("hr parse", lambda: self._call(lambda: self.hr.parse("(x + 1) <= y & p")), True),
            ("nnf phi2", lambda: self._call(lambda: rw.nnf(self.phi2, self.env)), True),
            ("prenex phi3", lambda: self._call(lambda: rw.prenex_normal_form(self.phi3, self.env)), False),
            ("cnf phi2", lambda: self._call(lambda: rw.cnf(self.phi2, self.env)), False),
            ("get_logic phi3/phi4", lambda: self._call(lambda: "%s %s" % (get_logic(self.phi3, self.env), get_logic(self.phi4, self.env)), "text"), False),
            ("get_logic small", lambda: self._call(lambda: "%s %s %s" % (get_logic(self.str_only, self.env), get_logic(self.int_only, self.env),
                                                                       get_logic(self.bv_only, self.env)), "text"), False),
            ("get_theory small", lambda: self._call(lambda: " | ".join(str(self.env.theoryo.get_theory(z)) for z in
                                                                        (self.str_only, self.int_only, self.bv_only, self.phi1)), "text"), False),
            # a symbol created AFTER the constants it is multiplied with may already exist (node ids order the factors)
            ("simplify x + late*(-2) + r*(-3)", lambda: self._call(lambda: [
                m.Plus(x, m.Times(m.Symbol("late_w", INT), m.Int(-2))).simplify(),
                m.Plus(m.Times(m.Real(-3), m.Symbol("late_r", REAL)), m.Real(1)).simplify()], "terms"), False),
            ("sizes phi1", lambda: self._call(lambda: [self.phi1.size(k) for k in range(6)], "text"), False),
            ("qf+types phi3", lambda: self._call(lambda: "%s %s" % (self.env.qfo.is_qf(self.phi3), sorted(map(str, self.env.typeso.get_types(self.phi3)))), "text"), False),
        ]
