"""Honest brute-force satisfiability oracle over declared finite domains (environment, not oracle:
every answer it gives is re-validated by TLC with the TLA+ Eval)."""
import itertools
from pysmt.solvers.solver import IncrementalTrackingSolver, SolverOptions
from pysmt.solvers.eager import EagerModel
from pysmt.decorators import clear_pending_pop
from pysmt.logics import QF_AUFBVLIRA
from harness import term_io


class BruteSolver(IncrementalTrackingSolver):
    OptionsClass = SolverOptions
    LOGICS = [QF_AUFBVLIRA]

    def __init__(self, environment, logic=QF_AUFBVLIRA, domains=None, policy="first", rng=None, rank=None, **options):
        IncrementalTrackingSolver.__init__(self, environment=environment, logic=logic, **options)
        self.domains = domains or {}          # symbol -> list of constant FNodes
        self.policy = policy
        self.rng = rng
        self.rank = rank                      # callable model -> sortable "goodness" (for worst / best policies)
        self.model = None
        self.log = []
        self.mgr = environment.formula_manager

    @clear_pending_pop
    def _reset_assertions(self):
        pass

    @clear_pending_pop
    def _add_assertion(self, formula, named=None):
        return formula

    @clear_pending_pop
    def _push(self, levels=1):
        pass

    @clear_pending_pop
    def _pop(self, levels=1):
        pass

    @clear_pending_pop
    def _solve(self, assumptions=None):
        live = list(self._assertion_stack)
        assum = list(assumptions) if assumptions else []
        conj = self.mgr.And(live + assum)
        syms = sorted(self.domains, key=lambda s: s.symbol_name())
        sat = []
        for vals in itertools.product(*[self.domains[s] for s in syms]):
            m = EagerModel(dict(zip(syms, vals)), self.environment)
            if m.get_value(conj).is_true():
                sat.append(m)
        ev = {"asserts": [term_io.export(f) for f in live], "assum": [term_io.export(f) for f in assum],
              "res": "sat" if sat else "unsat", "model": []}
        if sat:
            if self.policy == "first":
                self.model = sat[0]
            elif self.policy == "last":
                self.model = sat[-1]
            elif self.policy == "random":
                self.model = self.rng.choice(sat)
            elif self.policy in ("worst", "best") and self.rank is not None:
                ranked = sorted(sat, key=self.rank)
                self.model = ranked[0] if self.policy == "worst" else ranked[-1]
            else:
                self.model = sat[len(sat) // 2]
            ev["model"] = model_json(self.model, syms)
        else:
            self.model = None
        self.log.append(ev)
        return bool(sat)

    def get_model(self):
        return self.model

    def get_value(self, formula):
        return self.model.get_value(formula)

    def _exit(self):
        pass


def model_json(model, syms):
    return [{"n": s.symbol_name(), "v": term_io.export(model.get_value(s))} for s in syms]
