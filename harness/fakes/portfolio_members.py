"""Fake member solvers for the Portfolio runs (C19) and the gating of the real multiprocessing
primitives.  The members are real forked processes started by the real Portfolio code; a member's
`solve()` blocks on a gate (multiprocessing.Event created before the fork) until the scheduler
releases it, then behaves as configured.  The wrappers only DELAY real operations and LOG them,
they never alter them."""
import multiprocessing as mp
import os
import threading
import time

from pysmt.solvers.solver import Solver, SolverOptions
from pysmt.solvers.eager import EagerModel
from pysmt.logics import QF_UFLIRA, QF_BOOL, QF_LIA
from pysmt.exceptions import SolverReturnedUnknownResultError

# configuration of the current run, set by the driver BEFORE the processes are forked
CONFIG = {}          # member index (1-based) -> dict(beh, verdict, gate, crash_gate, model)
LOGQ = None          # multiprocessing.Queue for child-side events


class Gate(object):
    """A one-shot flag in shared memory, polled by the waiter.  (multiprocessing.Event must not be used
    here: Event.set() waits for every sleeper to acknowledge and blocks forever if a sleeping process
    was terminated - exactly what Portfolio does to the losers.)"""

    def __init__(self):
        self.flag = mp.RawValue("i", 0)

    def set(self):
        self.flag.value = 1

    def wait(self):
        while not self.flag.value:
            time.sleep(0.002)


class FakeMember(Solver):
    LOGICS = [QF_UFLIRA, QF_LIA, QF_BOOL]
    OptionsClass = SolverOptions
    MEMBER = 0

    def __init__(self, environment, logic, **options):
        Solver.__init__(self, environment=environment, logic=logic, **options)
        self.cfg = CONFIG[self.MEMBER]
        self.formulas = []
        if self.cfg["beh"] == "ctor_raise":
            raise RuntimeError("member %d cannot be constructed" % self.MEMBER)

    def add_assertion(self, formula, named=None):
        self.formulas.append(formula)

    def solve(self, assumptions=None):
        cfg = self.cfg
        cfg["gate"].wait()
        beh = cfg["beh"]
        if beh == "crash_pre":
            os._exit(3)
        if beh == "unknown":
            raise SolverReturnedUnknownResultError("member %d says unknown" % self.MEMBER)
        if beh == "raise":
            raise RuntimeError("member %d failed" % self.MEMBER)
        if beh == "crash_post":
            def die():
                cfg["crash_gate"].wait()
                os._exit(4)
            threading.Thread(target=die, daemon=True).start()
        LOGQ.put((self.MEMBER, "posting", cfg["verdict"]))
        return cfg["verdict"] == "sat"

    def _model(self):
        # values given as Python numbers are turned into constants HERE, in the member's process: like a real solver,
        # the member then hands out nodes its parent has never built
        mgr = self.environment.formula_manager
        # ... after some nodes of its own (a real solver wrapper builds intermediate terms while reading the answer):
        # the ids of the nodes it hands out are unrelated to the ids the parent gives to equal nodes
        for j in range(self.cfg.get("garbage", 0)):
            mgr.Int(100000 + 17 * j + self.MEMBER)
        mk = lambda v: v if not isinstance(v, (bool, int)) else (mgr.Bool(v) if isinstance(v, bool) else mgr.Int(v))
        return EagerModel({s: mk(v) for s, v in self.cfg["model"]}, self.environment)

    def get_model(self):
        LOGQ.put((self.MEMBER, "served", "get_model"))
        return self._model()

    def get_value(self, formula):
        LOGQ.put((self.MEMBER, "served", "get_value"))
        return self._model().get_value(formula)

    def _exit(self):
        pass


def member_class(i):
    return type("FakeMember%d" % i, (FakeMember,), {"MEMBER": i})


class Hooks(object):
    """Parent-side instrumentation installed into pysmt.solvers.portfolio (module attributes)."""

    def __init__(self, pf_module):
        self.pf = pf_module
        self.orig = (pf_module.Process, pf_module.Queue, pf_module.Pipe)
        self.queues = []
        self.processes = []
        self.before_first_terminate = None     # callable, run once per solve just before the first terminate()
        self._terminated_in_round = False
        hooks = self

        class GProcess(self.orig[0]):
            def start(self):
                hooks.processes.append(self)
                return super().start()

            def terminate(self):
                if not hooks._terminated_in_round:
                    hooks._terminated_in_round = True
                    if hooks.before_first_terminate:
                        hooks.before_first_terminate()
                return super().terminate()

        def GQueue(*a, **k):
            q = hooks.orig[1](*a, **k)
            hooks.queues.append(q)
            return q
        self.GProcess, self.GQueue = GProcess, GQueue

    def install(self):
        self.pf.Process = self.GProcess
        self.pf.Queue = self.GQueue

    def uninstall(self):
        self.pf.Process, self.pf.Queue, self.pf.Pipe = self.orig

    def new_round(self):
        self._terminated_in_round = False
        self.processes = []

    def all_dead(self):
        return all(not p.is_alive() for p in self.processes)


def wait_until(pred, timeout=5.0, step=0.005):
    t0 = time.time()
    while time.time() - t0 < timeout:
        if pred():
            return True
        time.sleep(step)
    return False
