#!/usr/bin/env python3
"""One Portfolio query whose members are real SmtLibSolver instances (generic SMT-LIB solvers registered in
the factory) talking to harness/fakes/smt_member.py.  argv: out.json markerdir beh1 beh2 ...
Writes {"res": sat|unsat|raised, "exc": .., "value": .., "model": [[name, bool], ..]} when solve() returns."""
import json
import os
import sys
import warnings

HERE = os.path.dirname(os.path.abspath(__file__))
sys.path.insert(0, os.environ.get("VERIF_REPO", "/repo"))
warnings.simplefilter("ignore")


def main():
    out, markerdir, behs = sys.argv[1], sys.argv[2], sys.argv[3:]
    from pysmt.shortcuts import Symbol, Or, And, get_env
    from pysmt.logics import QF_BOOL
    from pysmt.solvers.portfolio import Portfolio
    env = get_env()
    names = []
    for i, bs in enumerate(behs):
        b, _, seed = bs.partition("@")
        name = "member%d_%s" % (i + 1, b)
        env.factory.add_generic_solver(name, [sys.executable, os.path.join(HERE, "smt_member.py"), b,
                                              os.path.join(markerdir, "m%d" % (i + 1))], [QF_BOOL])
        # "beh@seed": the member is listed as a (name, options) pair with its own random seed
        names.append((name, {"random_seed": int(seed)}) if seed else name)
    p, q = Symbol("p"), Symbol("q")
    asserts = [Or(p, q), p]
    from pysmt.shortcuts import Not
    rounds = []

    def one_round(port, live, label):
        rd = {"label": label, "res": "raised", "exc": "", "value": "na", "model": [], "asserts": [str(a) for a in live]}
        for i in range(len(behs)):          # the markers say "this solve's external solvers have all ended"
            try:
                os.unlink(os.path.join(markerdir, "m%d" % (i + 1)))
            except OSError:
                pass
        try:
            r = port.solve()
            rd["res"] = "sat" if r else "unsat"
            if r:
                v = port.get_value(And(live))
                rd["value"] = "true" if v.is_true() else ("false" if v.is_false() else "other")
                rd["model"] = [[s.symbol_name(), bool(port.get_value(s).is_true())] for s in (p, q)]
        except Exception as ex:
            rd["exc"] = type(ex).__name__
        rounds.append(rd)
        return rd["res"] != "raised"
    with Portfolio(names, environment=env, logic=QF_BOOL, incremental=True, generate_models=True) as port:
        live = list(asserts)
        for a in asserts:
            port.add_assertion(a)
        if one_round(port, live, "solve") and os.environ.get("C19_CYCLE"):
            # repeated solve / one-shot query / push-pop cycle on the same portfolio
            try:
                port.is_sat(Not(q))
                port.add_assertion(Or(Not(p), Not(q)))
                live = live + [Or(Not(p), Not(q))]
                ok = one_round(port, live, "is_sat, add_assertion, solve")
                if ok:
                    port.push()
                    port.add_assertion(q)
                    ok = one_round(port, live + [q], "push, add_assertion, solve")
                if ok:
                    port.pop()
                    ok = one_round(port, live, "pop, solve")
                if ok:
                    # two levels opened one by one and closed together (the members only ever see the live conjunction)
                    port.push()
                    port.add_assertion(Not(p))
                    port.push()
                    port.add_assertion(q)
                    ok = one_round(port, live + [Not(p), q], "push, add, push, add, solve")
                if ok:
                    port.pop(2)
                    one_round(port, live, "pop 2, solve")
            except Exception as ex:
                rounds.append({"label": "cycle", "res": "raised", "exc": type(ex).__name__, "value": "na", "model": [], "asserts": []})
        with open(out + ".tmp", "w") as f:
            json.dump({"rounds": rounds}, f)
        os.rename(out + ".tmp", out)


if __name__ == "__main__":
    main()
