#!/usr/bin/env python3
"""A fake external SMT-LIB solver used as a PORTFOLIO MEMBER (C19): argv = behaviour, marker file.
Behaviours: good (answers sat, every value true), unknown (answers unknown), crash_checksat (dies when asked
to check), crash_start (dies on its first command), crash_assert (dies on the first assert).
The marker file is written when the process ends, whatever the reason, so that the harness can tell
structurally that no external solver is left that could still answer."""
import atexit
import os
import re
import sys

beh, marker = sys.argv[1], sys.argv[2]


def mark():
    try:
        with open(marker, "w") as f:
            f.write("ended")
    except Exception:
        pass


atexit.register(mark)


def die(code):
    mark()
    os._exit(code)


def out(s):
    try:
        sys.stdout.write(s + "\n")
        sys.stdout.flush()
    except Exception:
        die(5)


buf = ""
first = True
for line in sys.stdin:
    buf += line
    if buf.count("(") != buf.count(")") or not buf.strip():
        continue
    cmd, buf = buf.strip(), ""
    if first and beh == "crash_start":
        die(3)
    first = False
    if cmd.startswith("(assert") and beh == "crash_assert":
        die(3)
    if cmd.startswith("(check-sat"):
        if beh == "crash_checksat":
            die(3)
        out("unknown" if beh == "unknown" else "sat")
    elif cmd.startswith("(get-value"):
        name = re.match(r"\(get-value \((.*)\)\)", cmd).group(1)
        out("((%s true))" % name)
    elif cmd.startswith("(exit"):
        break
    else:
        out("success")
mark()
