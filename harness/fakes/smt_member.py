#!/usr/bin/env python3
"""A fake external SMT-LIB solver used as a PORTFOLIO MEMBER (C19): argv = behaviour, marker file.
Behaviours: good (answers sat, every value true), unknown (answers unknown), crash_checksat (dies when asked
to check), crash_start (dies on its first command), crash_assert (dies on the first assert).
The marker file is written when the process ends, whatever the reason, so that the harness can tell
structurally that no external solver is left that could still answer."""
import atexit
import os
import re
import sys

beh, marker = sys.argv[1], sys.argv[2]


def mark():
    try:
        with open(marker, "w") as f:
            f.write("ended")
    except Exception:
        pass


atexit.register(mark)


def die(code):
    mark()
    os._exit(code)


def out(s):
    try:
        sys.stdout.write(s + "\n")
        sys.stdout.flush()
    except Exception:
        die(5)


# ---- a tiny decision procedure for the propositional fragment (and / or / not / => / = / xor / ite / let)
def tokens(text):
    return text.replace("(", " ( ").replace(")", " ) ").split()


def parse(toks, pos=0):
    if toks[pos] == "(":
        lst, pos = [], pos + 1
        while toks[pos] != ")":
            x, pos = parse(toks, pos)
            lst.append(x)
        return lst, pos + 1
    return toks[pos], pos + 1


def ev(x, env):
    if isinstance(x, str):
        if x == "true":
            return True
        if x == "false":
            return False
        return env[x.strip("|")]
    op = x[0]
    if op == "let":
        env2 = dict(env)
        for name, val in x[1]:
            env2[name.strip("|")] = ev(val, env)
        return ev(x[2], env2)
    a = [ev(y, env) for y in x[1:]] if op != "ite" else None
    if op == "and":
        return all(a)
    if op == "or":
        return any(a)
    if op == "not":
        return not a[0]
    if op == "=>":
        r = a[-1]
        for v in reversed(a[:-1]):
            r = (not v) or r
        return r
    if op == "=":
        return all(v == a[0] for v in a)
    if op == "xor":
        return a[0] != a[1]
    if op == "ite":
        return ev(x[2], env) if ev(x[1], env) else ev(x[3], env)
    raise ValueError(op)


decls, levels, model = [], [[]], {}


def decide():
    import itertools
    live = [f for lv in levels for f in lv]
    for vals in itertools.product([True, False], repeat=len(decls)):
        env = dict(zip(decls, vals))
        try:
            if all(ev(f, env) for f in live):
                return env
        except Exception:
            return dict(zip(decls, [True] * len(decls)))      # outside the fragment: answer sat, everything true
    return None


buf = ""
first = True
for line in sys.stdin:
    buf += line
    if buf.count("(") != buf.count(")") or not buf.strip():
        continue
    cmd, buf = buf.strip(), ""
    if first and beh == "crash_start":
        die(3)
    first = False
    if cmd.startswith("(assert") and beh == "crash_assert":
        die(3)
    sx = parse(tokens(cmd))[0]
    if sx[0] == "set-option" and sx[1] == ":random-seed" and sx[2] == "13":
        beh = "unknown"         # the configuration under which this solver gives up
        out("success")
    elif sx[0] in ("declare-fun", "declare-const"):
        decls.append(sx[1].strip("|"))
        out("success")
    elif sx[0] == "assert":
        levels[-1].append(sx[1])
        out("success")
    elif sx[0] == "push":
        for _ in range(int(sx[1]) if len(sx) > 1 else 1):
            levels.append([])
        out("success")
    elif sx[0] == "pop":
        for _ in range(int(sx[1]) if len(sx) > 1 else 1):
            levels.pop()
        out("success")
    elif cmd.startswith("(check-sat"):
        if beh == "crash_checksat":
            die(3)
        if beh == "unknown":
            out("unknown")
        else:
            model = decide()
            out("sat" if model is not None else "unsat")
    elif cmd.startswith("(get-value"):
        name = re.match(r"\(get-value \((.*)\)\)", cmd).group(1).strip()
        val = (model or {}).get(name.strip("|"), True)
        out("((%s %s))" % (name, "true" if val else "false"))
    elif cmd.startswith("(exit"):
        break
    else:
        out("success")
mark()
