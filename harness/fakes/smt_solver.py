#!/usr/bin/env python3
"""A fake external SMT solver speaking SMT-LIB on stdin/stdout (environment for C17).

It logs every command it receives (sequence number + text) BEFORE replying, keeps the little
book-keeping needed to know which assertion texts are live, answers check-sat / get-value from a
table prepared by the harness (FAKE_SOLVER_TABLE: JSON {"true": [assert texts that hold in the model],
"values": {symbol: smtlib constant}}), and NEVER rejects anything itself - judging the legality of the
stream is the job of the TLA+ strict reference solver."""
import json
import os
import sys


def read_command(stream):
    depth, buf, started, in_str, in_bar = 0, [], False, False, False
    while True:
        ch = stream.read(1)
        if ch == "":
            return None
        if in_str:
            buf.append(ch)
            if ch == '"':
                in_str = False
            continue
        if in_bar:
            buf.append(ch)
            if ch == "|":
                in_bar = False
            continue
        if ch == '"':
            in_str = True
        elif ch == "|":
            in_bar = True
        elif ch == "(":
            depth += 1
            started = True
        elif ch == ")":
            depth -= 1
        if started:
            buf.append(ch)
        if started and depth == 0:
            return "".join(buf)


def main():
    table = json.load(open(os.environ["FAKE_SOLVER_TABLE"]))
    log = open(os.environ["FAKE_SOLVER_LOG"], "w")
    true_texts = set(table["true"])
    values = table["values"]
    levels = [[]]
    seq = 0
    while True:
        cmd = read_command(sys.stdin)
        if cmd is None:
            break
        seq += 1
        log.write(json.dumps({"seq": seq, "cmd": cmd}) + "\n")
        log.flush()
        head = cmd[1:].split(None, 1)[0].rstrip(")")
        reply = "success"
        if head == "assert":
            levels[-1].append(" ".join(cmd.split()))
        elif head == "push":
            k = int(cmd.strip("()").split()[1]) if len(cmd.strip("()").split()) > 1 else 1
            for _ in range(k):
                levels.append([])
        elif head == "pop":
            k = int(cmd.strip("()").split()[1]) if len(cmd.strip("()").split()) > 1 else 1
            for _ in range(k):
                if len(levels) > 1:
                    levels.pop()
        elif head == "reset-assertions":
            levels = [[]]
        elif head == "check-sat":
            live = [a for lv in levels for a in lv]
            reply = "sat" if all(a in true_texts for a in live) else "unsat"
        elif head == "get-value":
            body = cmd.strip()[len("(get-value"):].strip()        # "(x))" or "(|a b|))"
            name = body[1:body.rindex(")")].rstrip()
            name = name[:-1].strip() if name.endswith(")") else name
            key = name.strip("|")
            reply = "((%s %s))" % (name, values.get(key, "0"))
        elif head == "exit":
            log.write(json.dumps({"seq": seq, "reply": "success"}) + "\n")
            sys.stdout.write("success\n")
            sys.stdout.flush()
            break
        log.write(json.dumps({"seq": seq, "reply": reply}) + "\n")
        log.flush()
        sys.stdout.write(reply + "\n")
        sys.stdout.flush()


if __name__ == "__main__":
    main()
