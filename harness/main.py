import argparse
import importlib
import os
import sys

HERE = os.path.dirname(os.path.abspath(__file__))
sys.path.insert(0, os.path.dirname(HERE))


def main():
    ap = argparse.ArgumentParser()
    ap.add_argument("prop")
    ap.add_argument("--tier", default=None)
    ap.add_argument("--seed", default=None)
    ap.add_argument("--replay", default=None)
    a = ap.parse_args()
    if a.tier:
        os.environ["VERIF_TIER"] = a.tier
    if a.seed is not None:
        os.environ["VERIF_SEED"] = str(a.seed)
    if a.replay:
        os.environ["VERIF_REPLAY"] = a.replay
    try:
        mod = importlib.import_module("harness.drivers." + a.prop.lower())
        rc = mod.main()
    except SystemExit:
        raise
    except BaseException:
        # an uncaught exception in the harness is a failure of the machinery, never a verdict on the property
        import traceback
        traceback.print_exc()
        print("ERROR %s machinery failure (uncaught exception in the harness)" % a.prop)
        sys.exit(2)
    sys.exit(rc)


if __name__ == "__main__":
    main()
