import argparse
import importlib
import os
import sys

HERE = os.path.dirname(os.path.abspath(__file__))
sys.path.insert(0, os.path.dirname(HERE))


def replay(prop, path):
    """Re-validates the recorded event of a replay file against the specification (one TLC step) and prints the
    failing clauses; exit 1 if the recorded observation is (still) rejected, 0 if the specification accepts it."""
    import json
    from harness import tlc
    d = json.load(open(path))
    print("replay of %s: signature %s" % (path, json.dumps(d.get("signature"), sort_keys=True)))
    ev = (d.get("case") or {}).get("event")
    if not isinstance(ev, dict) or "kind" not in ev:
        print("the recorded case carries no single event (it records an exception or a summary):")
        print(json.dumps(d.get("case"), indent=1)[:3000])
        return 2
    ev.setdefault("id", 0)
    try:
        verdicts, st = tlc.validate_events("Trace_Pure", [ev], constants={"Seed": 0, "Cap": 64}, shards=1,
                                           header=(d.get("case") or {}).get("hdr"))
    except tlc.TLCError as ex:
        print("ERROR %s machinery failure during replay: %s" % (prop, str(ex)[:500]))
        return 2
    if st["inconclusive"]:
        print("ERROR %s the specification could not evaluate the event: %s" % (prop, st["inconclusive"][0]["error"][:500]))
        return 2
    fails = verdicts.get(ev["id"], [])
    if fails:
        print("VIOLATION property=%s replay=%s  rejected clauses: %s" % (prop, path, ", ".join(fails)))
        return 1
    print("PASS %s replay: the specification accepts the recorded event" % prop)
    return 0


def main():
    ap = argparse.ArgumentParser()
    ap.add_argument("prop")
    ap.add_argument("--tier", default=None)
    ap.add_argument("--seed", default=None)
    ap.add_argument("--replay", default=None)
    a = ap.parse_args()
    if a.tier:
        os.environ["VERIF_TIER"] = a.tier
    if a.seed is not None:
        os.environ["VERIF_SEED"] = str(a.seed)
    if a.replay:
        os.environ["VERIF_REPLAY"] = a.replay
    if a.replay:
        sys.exit(replay(a.prop, a.replay))
    try:
        mod = importlib.import_module("harness.drivers." + a.prop.lower())
        rc = mod.main()
    except SystemExit:
        raise
    except BaseException:
        # an uncaught exception in the harness is a failure of the machinery, never a verdict on the property
        import traceback
        traceback.print_exc()
        print("ERROR %s machinery failure (uncaught exception in the harness)" % a.prop)
        sys.exit(2)
    sys.exit(rc)


if __name__ == "__main__":
    main()
