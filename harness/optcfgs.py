"""Configurations of the Optimizer design model (spec/mc/MC_Opt)."""
import os
from harness import tlc

PROPS = ["INVARIANT CutsRepresentable", "INVARIANT NoneIffUnsat", "INVARIANT ResultIsOptimum", "INVARIANT StackRestored",
         "PROPERTY Termination", "CHECK_DEADLOCK FALSE"]


def write_cfg(path, vals, nm, kind, width, goal, strategy, mode, cleanup=True):
    lines = ["SPECIFICATION Spec", "CONSTANTS", "  Vals <- %s" % vals, "  NM = %d" % nm, '  Kind = "%s"' % kind,
             "  Width = %d" % width, '  Goal = "%s"' % goal, '  Strategy = "%s"' % strategy, '  Mode = "%s"' % mode,
             "  CleanupOnLexSuccess = %s" % ("TRUE" if cleanup else "FALSE")] + PROPS
    with open(path, "w") as f:
        f.write("\n".join(lines) + "\n")


def matrix(thorough=False):
    out = []
    kinds = [("int", "ValsInt", 2), ("ubv", "ValsU2", 2), ("sbv", "ValsS2", 2)]
    if thorough:
        kinds += [("ubv", "ValsU3", 3), ("sbv", "ValsS3", 3)]
    for kind, vals, w in kinds:
        for goal in ("min", "max"):
            for strat in ("linear", "binary"):
                out.append(dict(vals=vals, nm=3 if not thorough else 4, kind=kind, width=w, goal=goal, strategy=strat, mode="single"))
    for goal in ("min", "max"):
        for strat in ("linear", "binary"):
            out.append(dict(vals="ValsU2", nm=3, kind="ubv", width=2, goal=goal, strategy=strat, mode="lex"))
        out.append(dict(vals="ValsS2", nm=2, kind="sbv", width=2, goal=goal, strategy="linear", mode="lex3"))
        out.append(dict(vals="ValsU2", nm=3, kind="ubv", width=2, goal=goal, strategy="linear", mode="pareto"))
        out.append(dict(vals="ValsInt", nm=3, kind="int", width=2, goal=goal, strategy="linear", mode="pareto"))
    return out
