import glob
import json
import os
import sys
from concurrent.futures import ThreadPoolExecutor

HERE = os.path.dirname(os.path.abspath(__file__))
sys.path.insert(0, os.path.dirname(HERE))
from harness import tlc, common  # noqa: E402


def main():
    ok = True
    mods = sorted(glob.glob(os.path.join(tlc.SPEC, "*.tla")) + glob.glob(os.path.join(tlc.SPEC, "*", "*.tla")))
    with ThreadPoolExecutor(max_workers=8) as ex:
        for path, (good, out) in zip(mods, ex.map(tlc.sany, mods)):
            print("SANY %-40s %s" % (os.path.relpath(path, tlc.SPEC), "ok" if good else "FAILED"))
            if not good:
                ok = False
                print(out[-1500:])
    # corpora (cached by spec hash)
    for layer, shards in (("L1", 1), ("LQ", 1), ("L2", 16)):
        c = common.gen_corpus(layer, shards=shards)
        print("corpus %s: %d terms" % (layer, len(c)))
    # MANIFEST sanity
    with open(os.path.join(common.VERIF, "MANIFEST.json")) as f:
        m = json.load(f)
    print("manifest: %d checks, %d not_applicable" % (len(m["checks"]), len(m.get("not_applicable", []))))
    sys.exit(0 if ok else 1)


if __name__ == "__main__":
    main()
