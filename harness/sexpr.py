"""Independent SMT-LIB 2.6 reader: text -> S-expressions (JSON for spec/SmtLibSyntax.tla).

Written from the lexicon of the SMT-LIB standard (section 3.1), independent of pysmt.smtlib.
An S-expression is the uniform record {k, s, n, cs, l}:
  k = "sym"  s = symbol name (|quoted| symbols without the bars)
      "kw"   s = keyword including the colon
      "num"  n = [value]
      "dec"  n = [numerator, denominator]   (decimal d.ddd as a fraction over a power of ten)
      "hex"  n = [value, width]             (#xF0: width = 4 * digits)
      "bin"  n = [value, width]
      "str"  cs = character codes            ("" inside a literal is one quote)
      "list" l = elements
No SMT semantics lives here."""


class SexprError(Exception):
    pass


INT_LIMIT = 2 ** 31 - 1


def _rec(k, s="", n=(), cs=(), l=()):
    return {"k": k, "s": s, "n": list(n), "cs": list(cs), "l": list(l)}


SYMBOL_CHARS = set("abcdefghijklmnopqrstuvwxyzABCDEFGHIJKLMNOPQRSTUVWXYZ0123456789~!@$%^&*_-+=<>.?/")


def tokenize(text):
    i, n = 0, len(text)
    while i < n:
        c = text[i]
        if c in " \t\r\n":
            i += 1
        elif c == ";":
            while i < n and text[i] != "\n":
                i += 1
        elif c in "()":
            yield c
            i += 1
        elif c == '"':
            j = i + 1
            buf = []
            while True:
                if j >= n:
                    raise SexprError("unterminated string literal")
                if text[j] == '"':
                    if j + 1 < n and text[j + 1] == '"':
                        buf.append('"')
                        j += 2
                        continue
                    break
                buf.append(text[j])
                j += 1
            yield _rec("str", cs=[ord(ch) for ch in buf])
            i = j + 1
        elif c == "|":
            j = text.find("|", i + 1)
            if j < 0:
                raise SexprError("unterminated quoted symbol")
            body = text[i + 1:j]
            if "\\" in body:
                raise SexprError("backslash in quoted symbol")
            yield _rec("sym", s=body)
            i = j + 1
        elif c == "#":
            j = i + 2
            while j < n and text[j] not in " \t\r\n()":
                j += 1
            tok = text[i:j]
            if tok.startswith("#x") and len(tok) > 2 and all(ch in "0123456789abcdefABCDEF" for ch in tok[2:]):
                v = int(tok[2:], 16)
                if v > INT_LIMIT:
                    raise SexprError("literal beyond 31 bits")
                yield _rec("hex", n=[v, 4 * (len(tok) - 2)])
            elif tok.startswith("#b") and len(tok) > 2 and all(ch in "01" for ch in tok[2:]):
                v = int(tok[2:], 2)
                if v > INT_LIMIT:
                    raise SexprError("literal beyond 31 bits")
                yield _rec("bin", n=[v, len(tok) - 2])
            else:
                raise SexprError("bad # literal %r" % tok)
            i = j
        else:
            j = i
            while j < n and text[j] not in " \t\r\n()\";|":
                j += 1
            tok = text[i:j]
            if not tok:
                raise SexprError("unexpected character %r" % c)
            if tok[0] == ":":
                yield _rec("kw", s=tok)
            elif tok[0].isdigit():
                if tok.isdigit():
                    if len(tok) > 1 and tok[0] == "0":
                        raise SexprError("numeral with leading zero")
                    v = int(tok)
                    if v > INT_LIMIT:
                        raise SexprError("numeral beyond 31 bits")
                    yield _rec("num", n=[v])
                else:
                    parts = tok.split(".")
                    if len(parts) != 2 or not parts[0].isdigit() or not parts[1].isdigit():
                        raise SexprError("bad numeric token %r" % tok)
                    num = int(parts[0] + parts[1])
                    den = 10 ** len(parts[1])
                    if num > INT_LIMIT or den > INT_LIMIT:
                        raise SexprError("decimal beyond 31 bits")
                    yield _rec("dec", n=[num, den])
            else:
                if not all(ch in SYMBOL_CHARS for ch in tok):
                    raise SexprError("bad symbol %r" % tok)
                yield _rec("sym", s=tok)
            i = j


def read_all(text):
    """All top-level S-expressions of `text`."""
    stack = [[]]
    for tok in tokenize(text):
        if tok == "(":
            stack.append([])
        elif tok == ")":
            if len(stack) == 1:
                raise SexprError("unbalanced )")
            done = stack.pop()
            # (_ bvN w): TLA+ strings are atomic, so the numeral inside the symbol is decoded here
            if (len(done) == 3 and done[0]["k"] == "sym" and done[0]["s"] == "_" and done[1]["k"] == "sym"
                    and done[1]["s"].startswith("bv") and done[1]["s"][2:].isdigit() and done[2]["k"] == "num"):
                v = int(done[1]["s"][2:])
                if v > INT_LIMIT:
                    raise SexprError("literal beyond 31 bits")
                stack[-1].append(_rec("bvlit", n=[v, done[2]["n"][0]]))
            else:
                stack[-1].append(_rec("list", l=done))
        else:
            stack[-1].append(tok)
    if len(stack) != 1:
        raise SexprError("unbalanced (")
    return stack[0]


def read_one(text):
    xs = read_all(text)
    if len(xs) != 1:
        raise SexprError("expected exactly one S-expression, got %d" % len(xs))
    return xs[0]


# ---- construction helpers (used by the generators' printer) ----------------------------------------
def sym(s):
    return _rec("sym", s=s)


def lst(*xs):
    return _rec("list", l=list(xs))


SIMPLE = set("abcdefghijklmnopqrstuvwxyzABCDEFGHIJKLMNOPQRSTUVWXYZ0123456789~!@$%^&*_-+=<>.?/")


def to_text(sx):
    """Trivial printer of an S-expression record (for TLC-generated scripts)."""
    k = sx["k"]
    if k == "list":
        return "(" + " ".join(to_text(x) for x in sx["l"]) + ")"
    if k == "sym":
        s = sx["s"]
        if s and all(ch in SIMPLE for ch in s) and not s[0].isdigit():
            return s
        return "|%s|" % s
    if k == "kw":
        return sx["s"]
    if k == "num":
        return str(sx["n"][0])
    if k == "dec":
        num, den = sx["n"]
        digits = len(str(den)) - 1
        s = str(num).rjust(digits + 1, "0")
        return s[:-digits] + "." + s[-digits:]
    if k == "hex":
        return "#x" + format(sx["n"][0], "0%dx" % (sx["n"][1] // 4))
    if k == "bin":
        return "#b" + format(sx["n"][0], "0%db" % sx["n"][1])
    if k == "bvlit":
        return "(_ bv%d %d)" % (sx["n"][0], sx["n"][1])
    if k == "str":
        return '"' + "".join(chr(c) for c in sx["cs"]).replace('"', '""') + '"'
    raise ValueError(k)
