"""FNode <-> JSON term (the representation documented in spec/SmtTypes.tla).

`export` walks an FNode only through its structural accessors (node_type,
args, payload accessors); it never asks pySMT for a type, a free-variable set
or a simplification - those are recomputed in TLA+.  `build` re-creates a term
through the public FormulaManager constructors (create_node for the bare
operators so that no constructor normalisation interferes, see `build(raw=...)`).
No SMT semantics lives here.
"""
import pysmt.operators as op
from pysmt.fnode import FNode
from fractions import Fraction

OPNAME = {}
for _name in dir(op):
    _v = getattr(op, _name)
    if _name.isupper() and isinstance(_v, int) and _v in op.ALL_TYPES and _name not in ("ALL_TYPES",):
        OPNAME[_v] = _name.lower()
OPID = {v: k for k, v in OPNAME.items()}

INT_LIMIT = 2 ** 31 - 1


# When True, integers / rationals beyond TLC's 32-bit range are exported symbolically (n = "Z:<num>" /
# "Q:<num>/<den>", i = zeros): usable where only the IDENTITY of the number matters (C04), never for Eval.
SYMBOLIC_BIG = False


class Unrepresentable(Exception):
    """The term cannot be handed to TLC (integer beyond 32 bits, algebraic constant...)."""


def ty_none():
    return {"k": "None", "w": 0, "n": "", "a": []}


def export_type(t):
    if t.is_bool_type():
        return {"k": "Bool", "w": 0, "n": "", "a": []}
    if t.is_int_type():
        return {"k": "Int", "w": 0, "n": "", "a": []}
    if t.is_real_type():
        return {"k": "Real", "w": 0, "n": "", "a": []}
    if t.is_string_type():
        return {"k": "String", "w": 0, "n": "", "a": []}
    if t.is_bv_type():
        return {"k": "BV", "w": t.width, "n": "", "a": []}
    if t.is_array_type():
        return {"k": "Array", "w": 0, "n": "", "a": [export_type(t.index_type), export_type(t.elem_type)]}
    if t.is_function_type():
        return {"k": "Fun", "w": 0, "n": "",
                "a": [export_type(t.return_type)] + [export_type(p) for p in t.param_types]}
    # custom sort
    return {"k": "Sort", "w": 0, "n": t.basename, "a": [export_type(a) for a in (t.args or [])]}


def build_type(j, env):
    tm = env.type_manager
    k = j["k"]
    if k == "Bool":
        return tm.BOOL()
    if k == "Int":
        return tm.INT()
    if k == "Real":
        return tm.REAL()
    if k == "String":
        return tm.STRING()
    if k == "BV":
        return tm.BVType(j["w"])
    if k == "Array":
        return tm.ArrayType(build_type(j["a"][0], env), build_type(j["a"][1], env))
    if k == "Fun":
        return tm.FunctionType(build_type(j["a"][0], env), [build_type(x, env) for x in j["a"][1:]])
    if k == "Sort":
        decl = tm.Type(j["n"], len(j["a"]))
        if j["a"]:
            return tm.get_type_instance(decl, *[build_type(x, env) for x in j["a"]])
        return decl
    raise ValueError("bad type %r" % (j,))


def _chk(i):
    if not isinstance(i, int) or isinstance(i, bool):
        raise Unrepresentable("non-int payload %r" % (i,))
    if abs(i) > INT_LIMIT:
        raise Unrepresentable("integer beyond 32 bits")
    return i


def node(opname, a=(), n="", ty=None, i=(), s=(), bv=()):
    return {"op": opname, "a": list(a), "n": n, "ty": ty or ty_none(),
            "i": list(i), "s": list(s), "bv": list(bv)}


def export_result(f):
    """Export of a RESULT (the output of the code under test): a number beyond 32 bits does not make the event
    disappear - it is exported symbolically, so that the contract sees a constant that is not the expected one
    (a result that is legitimately that big makes TLC overflow on the expected value: inconclusive, reported)."""
    global SYMBOLIC_BIG
    try:
        return export(f)
    except Unrepresentable:
        old = SYMBOLIC_BIG
        SYMBOLIC_BIG = True
        try:
            return export(f)
        finally:
            SYMBOLIC_BIG = old


BV_WIDTH_OPS = frozenset(["bv_not", "bv_and", "bv_or", "bv_xor", "bv_concat", "bv_neg", "bv_add", "bv_sub", "bv_mul", "bv_udiv",
                          "bv_urem", "bv_lshl", "bv_lshr", "bv_sdiv", "bv_srem", "bv_ashr", "bv_comp"])


def export(f, memo=None):
    """Structural export of an FNode (iterative, DAG-memoised)."""
    if memo is None:
        memo = {}
    stack = [(f, False)]
    while stack:
        x, expanded = stack.pop()
        if id(x) in memo:
            continue
        if not expanded:
            stack.append((x, True))
            for c in x.args():
                if id(c) not in memo:
                    stack.append((c, False))
            continue
        nt = x.node_type()
        name = OPNAME.get(nt)
        if name is None:
            raise Unrepresentable("custom node type %d" % nt)
        kids = [memo[id(c)] for c in x.args()]
        if nt == op.SYMBOL:
            r = node(name, n=x.symbol_name(), ty=export_type(x.symbol_type()))
        elif nt == op.BOOL_CONSTANT:
            r = node(name, i=[1 if x.constant_value() else 0])
        elif nt == op.INT_CONSTANT:
            v = int(x.constant_value())
            if SYMBOLIC_BIG and abs(v) > INT_LIMIT:
                r = node(name, n="Z:%d" % v, i=[0])
            else:
                r = node(name, i=[_chk(v)])
        elif nt == op.REAL_CONSTANT:
            v = x.constant_value()
            if SYMBOLIC_BIG and (abs(v.numerator) > INT_LIMIT or v.denominator > INT_LIMIT):
                r = node(name, n="Q:%d/%d" % (v.numerator, v.denominator), i=[0, 0])
            else:
                r = node(name, i=[_chk(int(v.numerator)), _chk(int(v.denominator))])
        elif nt == op.BV_CONSTANT:
            r = node(name, i=[_chk(int(x.constant_value())), _chk(x.bv_width())])
        elif nt == op.STR_CONSTANT:
            r = node(name, s=[ord(c) for c in x.constant_value()])
        elif nt == op.ALGEBRAIC_CONSTANT:
            raise Unrepresentable("algebraic constant")
        elif nt == op.FUNCTION:
            fn = x.function_name()
            r = node(name, a=kids, n=fn.symbol_name(), ty=export_type(fn.symbol_type()))
        elif nt in (op.FORALL, op.EXISTS):
            r = node(name, a=kids,
                     bv=[{"n": v.symbol_name(), "ty": export_type(v.symbol_type())}
                         for v in x.quantifier_vars()])
        elif nt == op.ARRAY_VALUE:
            r = node(name, a=kids, ty=export_type(x.array_value_index_type()))
        elif nt in (op.BV_EXTRACT,):
            r = node(name, a=kids, i=[_chk(x.bv_width()), _chk(x.bv_extract_start()), _chk(x.bv_extract_end())])
        elif nt in (op.BV_ROL, op.BV_ROR):
            r = node(name, a=kids, i=[_chk(x.bv_width()), _chk(x.bv_rotation_step())])
        elif nt in (op.BV_ZEXT, op.BV_SEXT):
            r = node(name, a=kids, i=[_chk(x.bv_width()), _chk(x.bv_extend_step())])
        elif name in BV_WIDTH_OPS:
            # (the exporter's own table: pySMT's operator CLASSES are code under test)
            r = node(name, a=kids, i=[_chk(x.bv_width())])
        else:
            r = node(name, a=kids)
        memo[id(x)] = r
    return memo[id(f)]


def export_via_content(f):
    """Second exporter reading FNode._content directly (cross-check of `export`)."""
    c = f._content
    nt, args, payload = c.node_type, c.args, c.payload
    name = OPNAME[nt]
    kids = [export_via_content(a) for a in args]
    if nt == op.SYMBOL:
        return node(name, n=payload[0], ty=export_type(payload[1]))
    if nt == op.BOOL_CONSTANT:
        return node(name, i=[1 if payload else 0])
    if nt == op.INT_CONSTANT:
        return node(name, i=[int(payload)])
    if nt == op.REAL_CONSTANT:
        return node(name, i=[int(payload.numerator), int(payload.denominator)])
    if nt == op.BV_CONSTANT:
        return node(name, i=[int(payload[0]), payload[1]])
    if nt == op.STR_CONSTANT:
        return node(name, s=[ord(ch) for ch in payload])
    if nt == op.FUNCTION:
        return node(name, a=kids, n=payload._content.payload[0], ty=export_type(payload._content.payload[1]))
    if nt in (op.FORALL, op.EXISTS):
        return node(name, a=kids, bv=[{"n": v._content.payload[0], "ty": export_type(v._content.payload[1])}
                                      for v in payload])
    if nt == op.ARRAY_VALUE:
        return node(name, a=kids, ty=export_type(payload))
    if payload is not None:
        return node(name, a=kids, i=list(payload))
    return node(name, a=kids)


def build(j, env, raw=True):
    """Re-create the term in `env`.

    raw=True uses FormulaManager.create_node for operator nodes so that the
    result has exactly the requested structure (the type check still runs);
    constants and symbols go through their public constructors.
    """
    mgr = env.formula_manager
    o = j["op"]
    kids = tuple(build(c, env, raw) for c in j["a"])
    if o == "symbol":
        return mgr.Symbol(j["n"], build_type(j["ty"], env))
    if o == "bool_constant":
        return mgr.Bool(j["i"][0] == 1)
    if o == "int_constant":
        return mgr.Int(j["i"][0])
    if o == "real_constant":
        return mgr.Real(Fraction(j["i"][0], j["i"][1]))
    if o == "bv_constant":
        return mgr.BV(j["i"][0], j["i"][1])
    if o == "str_constant":
        return mgr.String("".join(chr(c) for c in j["s"]))
    if o == "function":
        fn = mgr.Symbol(j["n"], build_type(j["ty"], env))
        return mgr.create_node(node_type=op.FUNCTION, args=kids, payload=fn)
    if o in ("forall", "exists"):
        vs = tuple(mgr.Symbol(v["n"], build_type(v["ty"], env)) for v in j["bv"])
        return mgr.create_node(node_type=OPID[o], args=kids, payload=vs)
    if o == "array_value":
        ity = build_type(j["ty"], env)
        assign = dict(zip(kids[1::2], kids[2::2]))
        return mgr.Array(ity, kids[0], assign)
    nt = OPID[o]
    payload = tuple(j["i"]) if j["i"] else None
    return mgr.create_node(node_type=nt, args=kids, payload=payload)


def term_size(j):
    return 1 + sum(term_size(c) for c in j["a"])


def term_key(j):
    """Hashable structural key of a JSON term (for distinct counting)."""
    import json
    return json.dumps(j, sort_keys=True, separators=(",", ":"))


# ---------------------------------------------------------------------------
# building through the PUBLIC constructors (constructor normalisations apply)
_PUBLIC = {
    "and": "And", "or": "Or", "not": "Not", "implies": "Implies", "iff": "Iff",
    "plus": "Plus", "minus": "Minus", "times": "Times", "div": "Div", "pow": "Pow",
    "le": "LE", "lt": "LT", "equals": "Equals", "ite": "Ite", "toreal": "ToReal",
    "bv_not": "BVNot", "bv_and": "BVAnd", "bv_or": "BVOr", "bv_xor": "BVXor",
    "bv_concat": "BVConcat", "bv_ult": "BVULT", "bv_ule": "BVULE", "bv_neg": "BVNeg",
    "bv_add": "BVAdd", "bv_sub": "BVSub", "bv_mul": "BVMul", "bv_udiv": "BVUDiv",
    "bv_urem": "BVURem", "bv_lshl": "BVLShl", "bv_lshr": "BVLShr", "bv_slt": "BVSLT",
    "bv_sle": "BVSLE", "bv_comp": "BVComp", "bv_sdiv": "BVSDiv", "bv_srem": "BVSRem",
    "bv_ashr": "BVAShr", "bv_tonatural": "BVToNatural",
    "str_length": "StrLength", "str_concat": "StrConcat", "str_contains": "StrContains",
    "str_indexof": "StrIndexOf", "str_replace": "StrReplace", "str_substr": "StrSubstr",
    "str_prefixof": "StrPrefixOf", "str_suffixof": "StrSuffixOf", "str_to_int": "StrToInt",
    "int_to_str": "IntToStr", "str_charat": "StrCharAt",
    "array_select": "Select", "array_store": "Store",
}


def build_public(j, env, memo=None):
    """Re-create the term through the public FormulaManager constructors."""
    mgr = env.formula_manager
    o = j["op"]
    kids = [build_public(c, env) for c in j["a"]]
    if o in ("symbol", "bool_constant", "int_constant", "real_constant", "bv_constant", "str_constant"):
        return build(j, env)
    if o == "function":
        return mgr.Function(mgr.Symbol(j["n"], build_type(j["ty"], env)), kids)
    if o in ("forall", "exists"):
        vs = [mgr.Symbol(v["n"], build_type(v["ty"], env)) for v in j["bv"]]
        return (mgr.ForAll if o == "forall" else mgr.Exists)(vs, kids[0])
    if o == "array_value":
        return mgr.Array(build_type(j["ty"], env), kids[0], dict(zip(kids[1::2], kids[2::2])))
    if o == "bv_extract":
        return mgr.BVExtract(kids[0], j["i"][1], j["i"][2])
    if o in ("bv_rol", "bv_ror"):
        return (mgr.BVRol if o == "bv_rol" else mgr.BVRor)(kids[0], j["i"][1])
    if o in ("bv_zext", "bv_sext"):
        return (mgr.BVZExt if o == "bv_zext" else mgr.BVSExt)(kids[0], j["i"][1])
    return getattr(mgr, _PUBLIC[o])(*kids)
