"""TLC runner: one-shot runs, sharded trace validation over the 16 cores, output parsing.

Nothing here knows SMT; it only shuttles JSON to TLC and verdict lines back.
"""
import json
import os
import re
import shutil
import subprocess
import tempfile
import time
from concurrent.futures import ThreadPoolExecutor

VERIF = os.path.dirname(os.path.dirname(os.path.abspath(__file__)))
SPEC = os.path.join(VERIF, "spec")
JAR = "/opt/veriftools/tla/tla2tools.jar:/opt/veriftools/tla/CommunityModules-deps.jar"
NCPU = os.cpu_count() or 4


class TLCError(Exception):
    pass


class TLCResult(object):
    def __init__(self, rc, out, wall):
        self.rc = rc
        self.out = out
        self.wall = wall
        self.generated = 0
        self.distinct = 0
        self.depth = 0
        m = re.search(r"(\d+) states generated, (\d+) distinct states found", out)
        if m:
            self.generated = int(m.group(1))
            self.distinct = int(m.group(2))
        m = re.search(r"The depth of the complete state graph search is (\d+)", out)
        if m:
            self.depth = int(m.group(1))
        self.invariant_violated = re.findall(r"Invariant (\S+) is violated", out)
        self.property_violated = ("Temporal properties were violated" in out
                                  or bool(re.search(r"(Action|Temporal) property \S+ (is|was) violated", out)))
        self.deadlock = "Deadlock reached" in out
        self.error = None
        if "Error:" in out and not (self.invariant_violated or self.property_violated or self.deadlock):
            self.error = out[out.index("Error:"):][:2000]
        self.completed = ("Model checking completed. No error has been found." in out
                          or "Finished computing initial states" in out and rc == 0)

    def printed(self):
        """Values printed with PrintT(ToJson(x)): one quoted JSON string per line."""
        vals = []
        for line in self.out.splitlines():
            line = line.strip()
            if line.startswith('"') and line.endswith('"') and len(line) >= 2:
                try:
                    s = json.loads(line)
                    vals.append(json.loads(s))
                except ValueError:
                    pass
        return vals

    def coverage(self):
        """-coverage 1 action counts: {action: (distinct, total)}"""
        cov = {}
        for m in re.finditer(r"<(\w+) line \d+, col \d+ to line \d+, col \d+ of module (\w+)>: (\d+):(\d+)", self.out):
            cov[m.group(1)] = (int(m.group(3)), int(m.group(4)))
        return cov


def run(module, cfg=None, env=None, workers=None, simulate=None, depth=None, seed=None,
        coverage=False, timeout=3600, deadlock=None, heap="3g", extra=(), cwd=None, queue_dfs=False):
    """Run TLC on spec/<module>.tla (module may be a path relative to spec/)."""
    path = module if os.path.isabs(module) else os.path.join(SPEC, module)
    if not path.endswith(".tla"):
        path += ".tla"
    wd = cwd or os.path.dirname(path)
    meta = tempfile.mkdtemp(prefix="tlcmeta_")
    if cfg is None:
        cfg = path[:-4] + ".cfg"
    elif not os.path.isabs(cfg):
        cfg = os.path.join(wd, cfg)
    # module search path: spec/ and its sub-directories
    libs = [SPEC] + [os.path.join(SPEC, d) for d in ("mc", "gen", "trace")]
    java = ["java", "-XX:+UseParallelGC", "-Xmx" + heap, "-Xss16m",
            "-Djava.io.tmpdir=" + meta,          # TLC's own scratch directories (tlc-<n>) go where they are removed
            "-DTLA-Library=" + os.pathsep.join(libs)]
    if queue_dfs:
        java.append("-Dtlc2.tool.queue.IStateQueue=StateDeque")
    cmd = java + ["-cp", JAR, "tlc2.TLC", "-metadir", meta, "-noGenerateSpecTE",
                  "-config", cfg]
    w = workers if workers is not None else NCPU
    cmd += ["-workers", str(w)]
    if simulate:
        cmd += ["-simulate", simulate]
    if depth is not None:
        cmd += ["-depth", str(depth)]
    if seed is not None:
        cmd += ["-seed", str(seed)]
    if coverage:
        cmd += ["-coverage", "1"]
    if deadlock is False:
        cmd += ["-deadlock"]
    cmd += list(extra)
    cmd.append(path)
    e = dict(os.environ)
    e.pop("JAVA_TOOL_OPTIONS", None)
    if env:
        e.update({k: str(v) for k, v in env.items()})
    t0 = time.time()
    try:
        p = subprocess.run(cmd, cwd=wd, env=e, stdout=subprocess.PIPE, stderr=subprocess.STDOUT,
                           timeout=timeout, universal_newlines=True)
        out, rc = p.stdout, p.returncode
    except subprocess.TimeoutExpired as ex:
        out = (ex.stdout or "")
        if isinstance(out, bytes):
            out = out.decode("utf-8", "replace")
        out += "\nError: TIMEOUT after %ds" % timeout
        rc = 124
    finally:
        shutil.rmtree(meta, ignore_errors=True)
    return TLCResult(rc, out, time.time() - t0)


def validate_events(module, events, constants=None, shards=None, scratch=None, timeout=3600,
                    header=None, heap="2g"):
    """Validate independent events with spec/trace/<module>.tla.

    The trace spec reads the JSON file named by TRACE_FILE ({"hdr":..., "ev":[...]}),
    steps once per event, and prints one PrintT(ToJson([id |-> .., fail |-> ..])) line
    per rejected event.  Events are split over `shards` JVMs.  Returns
    (verdicts: {id: [failing clauses]}, stats dict).  An event TLC cannot evaluate
    (overflow etc.) is isolated by bisection and reported under stats['inconclusive'].
    """
    if not events:
        return {}, {"states": 0, "transitions": 0, "validated": 0, "inconclusive": [], "wall": 0.0, "skipped": {}}
    shards = shards or min(NCPU, max(1, len(events) // 40))
    scratch = scratch or tempfile.mkdtemp(prefix="trace_")
    os.makedirs(scratch, exist_ok=True)
    # a chunk is deserialised as one TLA+ value: keep its JSON text below ~16 MB (more chunks than JVMs run in turns)
    approx = sum(len(json.dumps(e)) for e in events[:: max(1, len(events) // 200)]) * max(1, len(events) // 200)
    nchunks = max(shards, -(-approx // (16 * 1024 * 1024)))
    chunks = [events[i::nchunks] for i in range(nchunks)]
    chunks = [c for c in chunks if c]
    verdicts = {}
    stats = {"states": 0, "transitions": 0, "validated": 0, "inconclusive": [], "wall": 0.0, "skipped": {}}
    t0 = time.time()

    def one(idx_chunk):
        idx, chunk = idx_chunk
        return _validate_chunk(module, chunk, constants, scratch, "s%d" % idx, timeout, header, heap)

    with ThreadPoolExecutor(max_workers=min(len(chunks), max(shards, 1))) as ex:
        for v, st in ex.map(one, enumerate(chunks)):
            verdicts.update(v)
            stats["states"] += st["states"]
            stats["transitions"] += st["transitions"]
            stats["validated"] += st["validated"]
            stats["inconclusive"] += st["inconclusive"]
            for k, v in st.get("skipped", {}).items():
                stats["skipped"][k] = stats["skipped"].get(k, 0) + v
    stats["wall"] = time.time() - t0
    shutil.rmtree(scratch, ignore_errors=True)
    return verdicts, stats


def _write_cfg(path, constants):
    lines = ["SPECIFICATION TraceSpec", "CHECK_DEADLOCK FALSE"]
    if constants:
        lines.append("CONSTANTS")
        for k, v in constants.items():
            lines.append("  %s = %s" % (k, v))
    with open(path, "w") as f:
        f.write("\n".join(lines) + "\n")


def _validate_chunk(module, chunk, constants, scratch, tag, timeout, header, heap, depth=0):
    tf = os.path.join(scratch, "%s_%d.json" % (tag, depth))
    with open(tf, "w") as f:
        json.dump({"hdr": header or {}, "ev": chunk}, f)
    cfg = os.path.join(scratch, "%s_%d.cfg" % (tag, depth))
    _write_cfg(cfg, constants)
    r = run(os.path.join("trace", module), cfg=cfg, env={"TRACE_FILE": tf}, workers=1,
            timeout=timeout, heap=heap)
    st = {"states": r.distinct, "transitions": r.generated, "validated": 0, "inconclusive": [], "skipped": {}}
    verdicts = {}
    for v in r.printed():
        if isinstance(v, dict) and "id" in v and "fail" in v:
            fl = v["fail"] if isinstance(v["fail"], list) else [v["fail"]]
            if fl:
                verdicts.setdefault(v["id"], []).extend(fl)
            for sk in (v.get("skip") or []):
                st["skipped"][sk] = st["skipped"].get(sk, 0) + 1
    if "Parsing or semantic analysis failed" in r.out or "Semantic errors" in r.out:
        raise TLCError("the trace specification does not parse\n" + r.out[-2500:])
    done = max(r.distinct - 1, 0)
    if r.error is None and r.rc == 0 and done == len(chunk):
        st["validated"] = len(chunk)
        return verdicts, st
    if any(m in r.out for m in ("GC overhead limit exceeded", "OutOfMemoryError", "Java heap space")) and len(chunk) > 1:
        # the JVM ran out of memory (reading the chunk, or in the middle of it): no event is to blame - halve the chunk
        if depth > 200:
            raise TLCError("out of memory validating %s\n%s" % (module, r.out[-2000:]))
        out_v, out_st = {}, {"states": 0, "transitions": 0, "validated": 0, "inconclusive": [], "skipped": {}}
        half = len(chunk) // 2
        for k, part in enumerate((chunk[:half], chunk[half:])):
            v2, st2 = _validate_chunk(module, part, constants, scratch, "%s_h%d" % (tag, k), timeout, header, heap, depth + 1)
            out_v.update(v2)
            for key in ("states", "transitions", "validated"):
                out_st[key] += st2[key]
            out_st["inconclusive"] += st2["inconclusive"]
            for key, val in st2.get("skipped", {}).items():
                out_st["skipped"][key] = out_st["skipped"].get(key, 0) + val
        return out_v, out_st
    # TLC stopped inside event number done+1 (0-based index `done`): isolate it
    if r.rc == 124:
        raise TLCError("TLC timeout validating %s\n%s" % (module, r.out[-2000:]))
    if done >= len(chunk):
        raise TLCError("TLC failed after the trace\n" + r.out[-3000:])
    bad = chunk[done]
    if depth > 200:
        raise TLCError("too many unevaluable events\n" + r.out[-3000:])
    st["validated"] = done
    st["inconclusive"].append({"id": bad.get("id"), "error": (r.error or r.out[-800:])[:800]})
    good_verdicts = {k: v for k, v in verdicts.items()
                     if k in set(e.get("id") for e in chunk[:done])}
    rest = chunk[done + 1:]
    if rest:
        v2, st2 = _validate_chunk(module, rest, constants, scratch, tag, timeout, header, heap, depth + 1)
        good_verdicts.update(v2)
        for k in ("states", "transitions", "validated"):
            st[k] += st2[k]
        st["inconclusive"] += st2["inconclusive"]
        for k, v in st2.get("skipped", {}).items():
            st["skipped"][k] = st["skipped"].get(k, 0) + v
    return good_verdicts, st


def sany(path):
    cmd = ["java", "-DTLA-Library=" + os.pathsep.join([SPEC] + [os.path.join(SPEC, d) for d in ("mc", "gen", "trace")]),
           "-cp", JAR, "tla2sany.SANY", path]
    p = subprocess.run(cmd, stdout=subprocess.PIPE, stderr=subprocess.STDOUT, universal_newlines=True,
                       cwd=os.path.dirname(path))
    ok = p.returncode == 0 and "Semantic errors" not in p.stdout and "Parse Error" not in p.stdout \
        and "Fatal errors" not in p.stdout and "***Parse Error***" not in p.stdout
    return ok, p.stdout
