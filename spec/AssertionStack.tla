---------------------------- MODULE AssertionStack ----------------------------
(***************************************************************************)
(* The SMT-LIB assertion stack as an abstract state machine (C16, C17).     *)
(*                                                                         *)
(* State: `levels`, a non-empty sequence of levels; a level is the sequence *)
(* of entries asserted while it was the top level, in order:                *)
(*    [k |-> "assert", x |-> formula-id]                                    *)
(*    [k |-> "soft",   x |-> formula-id, id |-> group, w |-> weight]        *)
(*    [k |-> "goal",   x |-> term-id, g |-> kind]                           *)
(* push n adds n empty levels, pop n (enabled iff n < Len(levels)) removes  *)
(* n levels with everything in them, reset-assertions returns to one empty  *)
(* level.  Objectives and soft assertions live and die with their level.    *)
(* A command is the record [c, x, n, id].                                   *)
(***************************************************************************)
EXTENDS Integers, Sequences, FiniteSets, TLC

Cmd(c, x, n, id) == [c |-> c, x |-> x, n |-> n, id |-> id]

InitLevels == << <<>> >>
StackDepth(levels) == Len(levels) - 1

Legal(levels, cmd) ==
    CASE cmd.c = "pop" -> cmd.n >= 0 /\ cmd.n <= StackDepth(levels)
      [] cmd.c = "push" -> cmd.n >= 0
      [] OTHER -> TRUE

RECURSIVE NEmpty(_)
NEmpty(n) == IF n = 0 THEN <<>> ELSE <<<<>>>> \o NEmpty(n - 1)

AddTop(levels, entry) == [levels EXCEPT ![Len(levels)] = Append(@, entry)]

Step(levels, cmd) ==
    CASE cmd.c = "assert" -> AddTop(levels, [k |-> "assert", x |-> cmd.x, id |-> "", w |-> 0])
      [] cmd.c = "soft" -> AddTop(levels, [k |-> "soft", x |-> cmd.x, id |-> cmd.id, w |-> cmd.n])
      [] cmd.c \in {"maximize", "minimize", "minmax", "maxmin"} ->
            AddTop(levels, [k |-> cmd.c, x |-> cmd.x, id |-> "", w |-> cmd.n])      \* n = 1: the objective is :signed
      [] cmd.c = "push" -> levels \o NEmpty(cmd.n)
      [] cmd.c = "pop" -> SubSeq(levels, 1, Len(levels) - cmd.n)
      [] cmd.c = "reset" -> InitLevels
      [] OTHER -> levels           \* check-sat, one-shot queries, get-value ... do not change the stack

RECURSIVE Flatten(_)
Flatten(levels) == IF levels = <<>> THEN <<>> ELSE Head(levels) \o Flatten(Tail(levels))

Live(levels) == Flatten(levels)
LiveAsserts(levels) == SelectSeq(Live(levels), LAMBDA e : e.k = "assert")

\* the goals a script reports: objectives in order; a soft group appears where its first
\* live member was asserted and collects the live members of the group in order
RECURSIVE GoalsOf(_, _)
GoalsOf(entries, acc) ==
    IF entries = <<>> THEN acc
    ELSE LET e == Head(entries)
             pos == {j \in 1..Len(acc) : acc[j].k = "maxsmt" /\ acc[j].id = e.id}
         IN  CASE e.k = "assert" -> GoalsOf(Tail(entries), acc)
               [] e.k = "soft" ->
                    IF pos = {}
                    THEN GoalsOf(Tail(entries), Append(acc, [k |-> "maxsmt", x |-> 0, id |-> e.id, soft |-> <<<<e.x, e.w>>>>, sg |-> 0]))
                    ELSE LET j == CHOOSE j \in pos : TRUE
                         IN  GoalsOf(Tail(entries), [acc EXCEPT ![j].soft = Append(@, <<e.x, e.w>>)])
               [] OTHER -> GoalsOf(Tail(entries), Append(acc, [k |-> e.k, x |-> e.x, id |-> "", soft |-> <<>>, sg |-> e.w]))
Goals(levels) == GoalsOf(Live(levels), <<>>)

=============================================================================
