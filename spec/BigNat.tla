------------------------------- MODULE BigNat -------------------------------
(***************************************************************************)
(* Arbitrary-precision integers and rationals for the values TLC's 32-bit   *)
(* integers cannot hold (C01 / C02 / C07 / C09 on "huge constants").        *)
(* A natural number is a sequence of decimal digits, least significant      *)
(* first, without leading zeros (0 = <<>>).  An integer is [neg, mag].      *)
(* School-book algorithms: the point is an INDEPENDENT statement of what    *)
(* +, -, *, SMT-LIB div / mod and the comparisons denote, so that folding   *)
(* through floats or 64-bit arithmetic in the code is noticed.              *)
(***************************************************************************)
EXTENDS Integers, Sequences

Digit == 0..9

RECURSIVE Strip(_)
Strip(d) == IF d # <<>> /\ d[Len(d)] = 0 THEN Strip(SubSeq(d, 1, Len(d) - 1)) ELSE d

\* -1 / 0 / 1
RECURSIVE CmpFrom(_, _, _)
CmpFrom(a, b, k) == IF k = 0 THEN 0
                    ELSE IF a[k] < b[k] THEN -1 ELSE IF a[k] > b[k] THEN 1 ELSE CmpFrom(a, b, k - 1)
NCmp(a, b) == IF Len(a) < Len(b) THEN -1 ELSE IF Len(a) > Len(b) THEN 1 ELSE CmpFrom(a, b, Len(a))

Dg(a, k) == IF k <= Len(a) THEN a[k] ELSE 0

RECURSIVE AddFrom(_, _, _, _)
AddFrom(a, b, k, carry) ==
    IF k > Len(a) /\ k > Len(b) THEN (IF carry = 0 THEN <<>> ELSE <<carry>>)
    ELSE LET s == Dg(a, k) + Dg(b, k) + carry IN <<s % 10>> \o AddFrom(a, b, k + 1, s \div 10)
NAdd(a, b) == AddFrom(a, b, 1, 0)

\* a - b for a >= b
RECURSIVE SubFrom(_, _, _, _)
SubFrom(a, b, k, borrow) ==
    IF k > Len(a) THEN <<>>
    ELSE LET s == a[k] - Dg(b, k) - borrow
         IN  IF s < 0 THEN <<s + 10>> \o SubFrom(a, b, k + 1, 1) ELSE <<s>> \o SubFrom(a, b, k + 1, 0)
NSub(a, b) == Strip(SubFrom(a, b, 1, 0))

RECURSIVE MulDigitFrom(_, _, _, _)
MulDigitFrom(a, d, k, carry) ==
    IF k > Len(a) THEN (IF carry = 0 THEN <<>> ELSE <<carry>>)
    ELSE LET s == a[k] * d + carry IN <<s % 10>> \o MulDigitFrom(a, d, k + 1, s \div 10)
NMulDigit(a, d) == IF d = 0 THEN <<>> ELSE MulDigitFrom(a, d, 1, 0)
Shift(a) == IF a = <<>> THEN <<>> ELSE <<0>> \o a          \* times ten
RECURSIVE MulFrom(_, _, _)
MulFrom(a, b, k) == IF k = 0 THEN <<>> ELSE NAdd(Shift(MulFrom(a, b, k - 1)), NMulDigit(a, b[Len(b) - k + 1]))
\* processes the digits of b from the most significant one
RECURSIVE MulAcc(_, _, _, _)
MulAcc(a, b, k, acc) == IF k = 0 THEN acc ELSE MulAcc(a, b, k - 1, NAdd(Shift(acc), NMulDigit(a, b[k])))
NMul(a, b) == IF a = <<>> \/ b = <<>> THEN <<>> ELSE MulAcc(a, b, Len(b), <<>>)

\* long division: <<quotient, remainder>>, b # 0; digits of a from the most significant one
RECURSIVE QDigit(_, _, _)
QDigit(r, b, q) == IF NCmp(r, b) < 0 THEN <<q, r>> ELSE QDigit(NSub(r, b), b, q + 1)
RECURSIVE DivAcc(_, _, _, _, _)
DivAcc(a, b, k, quo, rem) ==
    IF k = 0 THEN <<Strip(quo), rem>>
    ELSE LET r1 == Strip(<<a[k]>> \o rem)        \* rem * 10 + a[k]
             qd == QDigit(r1, b, 0)
         IN  DivAcc(a, b, k - 1, <<qd[1]>> \o quo, qd[2])
NDivMod(a, b) == DivAcc(a, b, Len(a), <<>>, <<>>)

RECURSIVE NGcd(_, _)
NGcd(a, b) == IF b = <<>> THEN a ELSE NGcd(b, NDivMod(a, b)[2])

\* ---- integers
ZMk(neg, mag) == [neg |-> neg /\ mag # <<>>, mag |-> mag]
ZZero == ZMk(FALSE, <<>>)
ZNeg(x) == ZMk(~x.neg, x.mag)
ZAdd(x, y) ==
    IF x.neg = y.neg THEN ZMk(x.neg, NAdd(x.mag, y.mag))
    ELSE IF NCmp(x.mag, y.mag) >= 0 THEN ZMk(x.neg, NSub(x.mag, y.mag)) ELSE ZMk(y.neg, NSub(y.mag, x.mag))
ZSub(x, y) == ZAdd(x, ZNeg(y))
ZMul(x, y) == ZMk(x.neg # y.neg, NMul(x.mag, y.mag))
ZCmp(x, y) == IF x.neg /\ ~y.neg THEN -1 ELSE IF ~x.neg /\ y.neg THEN 1
              ELSE IF x.neg THEN NCmp(y.mag, x.mag) ELSE NCmp(x.mag, y.mag)
\* SMT-LIB Ints: x = y * q + r with 0 <= r < |y| (y # 0)
ZDivMod(x, y) ==
    LET qr == NDivMod(x.mag, y.mag)
        exact == qr[2] = <<>>
    IN  IF ~x.neg THEN <<ZMk(y.neg, qr[1]), ZMk(FALSE, qr[2])>>
        ELSE IF exact THEN <<ZMk(~y.neg, qr[1]), ZZero>>
        ELSE <<ZMk(~y.neg, NAdd(qr[1], <<1>>)), ZMk(FALSE, NSub(y.mag, qr[2]))>>

\* ---- rationals [n (integer), d (natural > 0)] in lowest terms
QMk(n, d) == LET g == NGcd(n.mag, d) IN [n |-> ZMk(n.neg, NDivMod(n.mag, g)[1]), d |-> NDivMod(d, g)[1]]
QOfZ(z) == [n |-> z, d |-> <<1>>]
QAddB(p, q) == QMk(ZAdd(ZMul(p.n, ZMk(FALSE, q.d)), ZMul(q.n, ZMk(FALSE, p.d))), NMul(p.d, q.d))
QSubB(p, q) == QAddB(p, [n |-> ZNeg(q.n), d |-> q.d])
QMulB(p, q) == QMk(ZMul(p.n, q.n), NMul(p.d, q.d))
QDivB(p, q) == QMk(ZMk(p.n.neg # q.n.neg, NMul(p.n.mag, q.d)), NMul(p.d, q.n.mag))      \* q # 0
QCmpB(p, q) == ZCmp(ZMul(p.n, ZMk(FALSE, q.d)), ZMul(q.n, ZMk(FALSE, p.d)))
\* ---- bit-vectors of any width as naturals below 2^w
RECURSIVE NPow2(_)
NPow2(k) == IF k = 0 THEN <<1>> ELSE NMulDigit(NPow2(k - 1), 2)
NMod(a, m) == NDivMod(a, m)[2]
NDiv(a, m) == NDivMod(a, m)[1]
\* binary digits, least significant first, exactly w of them
RECURSIVE Bits(_, _)
Bits(a, w) == IF w = 0 THEN <<>> ELSE LET qr == NDivMod(a, <<2>>) IN <<(IF qr[2] = <<>> THEN 0 ELSE 1)>> \o Bits(qr[1], w - 1)
RECURSIVE OfBits(_)
OfBits(bs) == IF bs = <<>> THEN <<>> ELSE NAdd(NMulDigit(OfBits(Tail(bs)), 2), IF Head(bs) = 1 THEN <<1>> ELSE <<>>)
BitWise(F(_, _), a, b, w) == LET x == Bits(a, w) y == Bits(b, w) IN OfBits([k \in 1..w |-> F(x[k], y[k])])
BAnd(p, q) == IF p = 1 /\ q = 1 THEN 1 ELSE 0
BOr(p, q) == IF p = 1 \/ q = 1 THEN 1 ELSE 0
BXor(p, q) == IF p # q THEN 1 ELSE 0
AllOnes(w) == NSub(NPow2(w), <<1>>)
IsNegBV(a, w) == NCmp(a, NPow2(w - 1)) >= 0
\* two's complement value as an integer, and back
ToSigned(a, w) == IF IsNegBV(a, w) THEN ZMk(TRUE, NSub(NPow2(w), a)) ELSE ZMk(FALSE, a)
OfSigned(z, w) == IF z.neg THEN NMod(NSub(NPow2(w), NMod(z.mag, NPow2(w))), NPow2(w)) ELSE NMod(z.mag, NPow2(w))
\* truncated (round towards zero) signed division and remainder of SMT-LIB bvsdiv / bvsrem
BVBin(op, a, b, w) ==
    LET M == NPow2(w)
        sh == IF NCmp(b, <<0, 0, 0, 1>>) >= 0 THEN 1000 ELSE            \* shift amounts >= 1000 clear everything
              LET RECURSIVE ToNat(_) ToNat(d) == IF d = <<>> THEN 0 ELSE Head(d) + 10 * ToNat(Tail(d)) IN ToNat(b)
    IN  CASE op = "bv_add" -> NMod(NAdd(a, b), M)
          [] op = "bv_sub" -> NMod(NAdd(a, NSub(M, b)), M)
          [] op = "bv_mul" -> NMod(NMul(a, b), M)
          [] op = "bv_udiv" -> IF b = <<>> THEN AllOnes(w) ELSE NDiv(a, b)
          [] op = "bv_urem" -> IF b = <<>> THEN a ELSE NMod(a, b)
          [] op = "bv_and" -> BitWise(BAnd, a, b, w)
          [] op = "bv_or" -> BitWise(BOr, a, b, w)
          [] op = "bv_xor" -> BitWise(BXor, a, b, w)
          [] op = "bv_lshl" -> IF sh >= w THEN <<>> ELSE NMod(NMul(a, NPow2(sh)), M)
          [] op = "bv_lshr" -> IF sh >= w THEN <<>> ELSE NDiv(a, NPow2(sh))
          [] op = "bv_ashr" -> IF ~IsNegBV(a, w) THEN (IF sh >= w THEN <<>> ELSE NDiv(a, NPow2(sh)))
                               ELSE IF sh >= w THEN AllOnes(w)
                               ELSE NAdd(NDiv(a, NPow2(sh)), NSub(M, NPow2(w - sh)))       \* the vacated bits are ones
          [] op = "bv_sdiv" -> LET x == ToSigned(a, w) y == ToSigned(b, w)
                               IN  IF b = <<>> THEN (IF x.neg THEN <<1>> ELSE AllOnes(w))
                                   ELSE OfSigned(ZMk(x.neg # y.neg, NDiv(x.mag, y.mag)), w)
          [] op = "bv_srem" -> LET x == ToSigned(a, w) y == ToSigned(b, w)
                               IN  IF b = <<>> THEN a ELSE OfSigned(ZMk(x.neg, NMod(x.mag, y.mag)), w)
\* comparisons: TRUE / FALSE
BVRel(op, a, b, w) ==
    CASE op = "bv_ult" -> NCmp(a, b) < 0 [] op = "bv_ule" -> NCmp(a, b) <= 0
      [] op = "bv_slt" -> ZCmp(ToSigned(a, w), ToSigned(b, w)) < 0
      [] op = "bv_sle" -> ZCmp(ToSigned(a, w), ToSigned(b, w)) <= 0
      [] op = "equals" -> a = b
BVUn(op, a, w) == CASE op = "bv_not" -> NSub(AllOnes(w), a) [] op = "bv_neg" -> NMod(NSub(NPow2(w), a), NPow2(w))
=============================================================================
