------------------------------- MODULE BigNat -------------------------------
(***************************************************************************)
(* Arbitrary-precision integers and rationals for the values TLC's 32-bit   *)
(* integers cannot hold (C01 / C02 / C07 / C09 on "huge constants").        *)
(* A natural number is a sequence of decimal digits, least significant      *)
(* first, without leading zeros (0 = <<>>).  An integer is [neg, mag].      *)
(* School-book algorithms: the point is an INDEPENDENT statement of what    *)
(* +, -, *, SMT-LIB div / mod and the comparisons denote, so that folding   *)
(* through floats or 64-bit arithmetic in the code is noticed.              *)
(***************************************************************************)
EXTENDS Integers, Sequences

Digit == 0..9

RECURSIVE Strip(_)
Strip(d) == IF d # <<>> /\ d[Len(d)] = 0 THEN Strip(SubSeq(d, 1, Len(d) - 1)) ELSE d

\* -1 / 0 / 1
RECURSIVE CmpFrom(_, _, _)
CmpFrom(a, b, k) == IF k = 0 THEN 0
                    ELSE IF a[k] < b[k] THEN -1 ELSE IF a[k] > b[k] THEN 1 ELSE CmpFrom(a, b, k - 1)
NCmp(a, b) == IF Len(a) < Len(b) THEN -1 ELSE IF Len(a) > Len(b) THEN 1 ELSE CmpFrom(a, b, Len(a))

Dg(a, k) == IF k <= Len(a) THEN a[k] ELSE 0

RECURSIVE AddFrom(_, _, _, _)
AddFrom(a, b, k, carry) ==
    IF k > Len(a) /\ k > Len(b) THEN (IF carry = 0 THEN <<>> ELSE <<carry>>)
    ELSE LET s == Dg(a, k) + Dg(b, k) + carry IN <<s % 10>> \o AddFrom(a, b, k + 1, s \div 10)
NAdd(a, b) == AddFrom(a, b, 1, 0)

\* a - b for a >= b
RECURSIVE SubFrom(_, _, _, _)
SubFrom(a, b, k, borrow) ==
    IF k > Len(a) THEN <<>>
    ELSE LET s == a[k] - Dg(b, k) - borrow
         IN  IF s < 0 THEN <<s + 10>> \o SubFrom(a, b, k + 1, 1) ELSE <<s>> \o SubFrom(a, b, k + 1, 0)
NSub(a, b) == Strip(SubFrom(a, b, 1, 0))

RECURSIVE MulDigitFrom(_, _, _, _)
MulDigitFrom(a, d, k, carry) ==
    IF k > Len(a) THEN (IF carry = 0 THEN <<>> ELSE <<carry>>)
    ELSE LET s == a[k] * d + carry IN <<s % 10>> \o MulDigitFrom(a, d, k + 1, s \div 10)
NMulDigit(a, d) == IF d = 0 THEN <<>> ELSE MulDigitFrom(a, d, 1, 0)
Shift(a) == IF a = <<>> THEN <<>> ELSE <<0>> \o a          \* times ten
RECURSIVE MulFrom(_, _, _)
MulFrom(a, b, k) == IF k = 0 THEN <<>> ELSE NAdd(Shift(MulFrom(a, b, k - 1)), NMulDigit(a, b[Len(b) - k + 1]))
\* processes the digits of b from the most significant one
RECURSIVE MulAcc(_, _, _, _)
MulAcc(a, b, k, acc) == IF k = 0 THEN acc ELSE MulAcc(a, b, k - 1, NAdd(Shift(acc), NMulDigit(a, b[k])))
NMul(a, b) == IF a = <<>> \/ b = <<>> THEN <<>> ELSE MulAcc(a, b, Len(b), <<>>)

\* long division: <<quotient, remainder>>, b # 0; digits of a from the most significant one
RECURSIVE QDigit(_, _, _)
QDigit(r, b, q) == IF NCmp(r, b) < 0 THEN <<q, r>> ELSE QDigit(NSub(r, b), b, q + 1)
RECURSIVE DivAcc(_, _, _, _, _)
DivAcc(a, b, k, quo, rem) ==
    IF k = 0 THEN <<Strip(quo), rem>>
    ELSE LET r1 == Strip(<<a[k]>> \o rem)        \* rem * 10 + a[k]
             qd == QDigit(r1, b, 0)
         IN  DivAcc(a, b, k - 1, <<qd[1]>> \o quo, qd[2])
NDivMod(a, b) == DivAcc(a, b, Len(a), <<>>, <<>>)

RECURSIVE NGcd(_, _)
NGcd(a, b) == IF b = <<>> THEN a ELSE NGcd(b, NDivMod(a, b)[2])

\* ---- integers
ZMk(neg, mag) == [neg |-> neg /\ mag # <<>>, mag |-> mag]
ZZero == ZMk(FALSE, <<>>)
ZNeg(x) == ZMk(~x.neg, x.mag)
ZAdd(x, y) ==
    IF x.neg = y.neg THEN ZMk(x.neg, NAdd(x.mag, y.mag))
    ELSE IF NCmp(x.mag, y.mag) >= 0 THEN ZMk(x.neg, NSub(x.mag, y.mag)) ELSE ZMk(y.neg, NSub(y.mag, x.mag))
ZSub(x, y) == ZAdd(x, ZNeg(y))
ZMul(x, y) == ZMk(x.neg # y.neg, NMul(x.mag, y.mag))
ZCmp(x, y) == IF x.neg /\ ~y.neg THEN -1 ELSE IF ~x.neg /\ y.neg THEN 1
              ELSE IF x.neg THEN NCmp(y.mag, x.mag) ELSE NCmp(x.mag, y.mag)
\* SMT-LIB Ints: x = y * q + r with 0 <= r < |y| (y # 0)
ZDivMod(x, y) ==
    LET qr == NDivMod(x.mag, y.mag)
        exact == qr[2] = <<>>
    IN  IF ~x.neg THEN <<ZMk(y.neg, qr[1]), ZMk(FALSE, qr[2])>>
        ELSE IF exact THEN <<ZMk(~y.neg, qr[1]), ZZero>>
        ELSE <<ZMk(~y.neg, NAdd(qr[1], <<1>>)), ZMk(FALSE, NSub(y.mag, qr[2]))>>

\* ---- rationals [n (integer), d (natural > 0)] in lowest terms
QMk(n, d) == LET g == NGcd(n.mag, d) IN [n |-> ZMk(n.neg, NDivMod(n.mag, g)[1]), d |-> NDivMod(d, g)[1]]
QOfZ(z) == [n |-> z, d |-> <<1>>]
QAddB(p, q) == QMk(ZAdd(ZMul(p.n, ZMk(FALSE, q.d)), ZMul(q.n, ZMk(FALSE, p.d))), NMul(p.d, q.d))
QSubB(p, q) == QAddB(p, [n |-> ZNeg(q.n), d |-> q.d])
QMulB(p, q) == QMk(ZMul(p.n, q.n), NMul(p.d, q.d))
QDivB(p, q) == QMk(ZMk(p.n.neg # q.n.neg, NMul(p.n.mag, q.d)), NMul(p.d, q.n.mag))      \* q # 0
QCmpB(p, q) == ZCmp(ZMul(p.n, ZMk(FALSE, q.d)), ZMul(q.n, ZMk(FALSE, p.d)))
=============================================================================
