------------------------------ MODULE Contracts ------------------------------
(***************************************************************************)
(* Abstract contracts of pySMT's pure operations: for every operation a     *)
(* predicate over (input, output) that is exactly the listed property.      *)
(* Each contract returns the sequence of names of the clauses that FAIL     *)
(* (<<>> = the event is accepted), so a verdict always names its clause.    *)
(* A clause that cannot be evaluated inside the bounded semantic domain     *)
(* (sort without carrier, integer beyond TLC's range) is reported in the    *)
(* `skip` component, never as a failure.                                    *)
(***************************************************************************)
EXTENDS Logics, AssertionStack

CONSTANT Cap             \* maximum number of interpretations per event

Fl(name, ok) == IF ok THEN <<>> ELSE <<name>>
Verdict(fail, skip, wit) == [fail |-> fail, skip |-> skip, wit |-> wit]
Accept == Verdict(<<>>, <<>>, -1)

SymSeq(Sx) == SetToSeqBy(Sx)

CanInterpret(Sx) == \A s \in Sx : HasCarrier(s.ty)

RECURSIVE HasInfBinder(_)
HasInfBinder(t) ==
    (t.op \in {"forall", "exists"} /\ \E j \in 1..Len(t.bv) : t.bv[j].ty.k \in {"Int", "Real", "String"})
    \/ \E j \in 1..Len(t.a) : HasInfBinder(t.a[j])

QsFor(t1, t2) == IF HasInfBinder(t1) \/ HasInfBinder(t2) THEN QDomains ELSE <<QDefault>>

\* bit-vector widths beyond the Nat encoding make a term non-evaluable
RECURSIVE NarrowBV(_)
NarrowBV(t) ==
    /\ (t.op = "bv_constant" => t.i[2] <= 15)
    /\ (t.op = "symbol" => HasCarrier(t.ty))
    /\ (t.op \in BVUnOps \cup BVBinOps \cup {"bv_concat", "bv_extract", "bv_rol", "bv_ror", "bv_zext", "bv_sext"}
            => t.i[1] <= 15)
    /\ (t.op \in {"forall", "exists"} => \A j \in 1..Len(t.bv) : t.bv[j].ty.k = "BV" => t.bv[j].ty.w <= 4)
    /\ \A j \in 1..Len(t.a) : NarrowBV(t.a[j])

CanEval(t) == Evaluable(t) /\ NarrowBV(t) /\ CanInterpret(FreeSyms(t))

(***************************************************************************)
(* Semantic equivalence of two well-typed terms of the same sort over the   *)
(* union of their free symbols: index of the first refuting                 *)
(* (interpretation, domain) pair, or -1.  Interpretations under which `a`   *)
(* evaluates a division by zero are left unconstrained.                     *)
(***************************************************************************)
EquivWitness(a, b) ==
    LET syms == SymSeq(FreeSyms(a) \cup FreeSyms(b))
        Qs == QsFor(a, b)
        idx == InterpIdx(syms, Cap)
        bad(k, q) == LET I == InterpAt(syms, k, Cap)
                     IN  ~DivZero(a, I, Qs[q]) /\ Eval(a, I, Qs[q]) # Eval(b, I, Qs[q])
        pairs == {<<k, q>> \in idx \X (1..Len(Qs)) : bad(k, q)}
    IN  IF pairs = {} THEN -1
        ELSE (CHOOSE p \in pairs : \A p2 \in pairs : p[1] <= p2[1])[1]

\* ------------------------------------------------------------------ C01
(* simplify(in) = out; rin/rout are the sorts pySMT reports for in/out *)
SimplifyContract(e) ==
    LET tin == TypeOf(e.in)
        tout == TypeOf(e.out)
        structural ==
            Fl("input_well_typed", tin # Ill) \o
            Fl("output_well_typed", tout # Ill) \o
            Fl("same_type", tin = Ill \/ tout = Ill \/ tin = tout) \o
            Fl("reported_type_in", tin = Ill \/ e.rin = tin) \o
            Fl("reported_type_out", tout = Ill \/ e.rout = tout) \o
            Fl("no_new_free_symbol", FreeSyms(e.out) \subseteq FreeSyms(e.in))
    IN  IF structural # <<>> THEN Verdict(structural, <<>>, -1)
        ELSE IF ~(CanEval(e.in) /\ CanEval(e.out)) THEN Verdict(<<>>, <<"value">>, -1)
        ELSE LET w == EquivWitness(e.in, e.out)
             IN  Verdict(Fl("same_value", w = -1), <<>>, w)

\* ------------------------------------------------------------------ C03
(***************************************************************************)
(* An application is [op, args, p, n, ty, bv] (Gen_Apply).  IntendedNode is *)
(* the node the constructor is meant to build: payloads are computed from   *)
(* the arguments the way the documented constructors do.                    *)
(***************************************************************************)
WidthOrZero(t) == IF TyF(t).k = "BV" THEN TyF(t).w ELSE 0
IntendedNode(app) ==
    LET op == app.op
        args == app.args
        w1 == IF Len(args) >= 1 THEN WidthOrZero(args[1]) ELSE 0
    IN
    CASE op \in BVUnOps \cup BVBinOps -> OpI(op, args, <<w1>>)
      [] op = "bv_comp" -> OpI(op, args, <<1>>)
      [] op = "bv_concat" -> OpI(op, args, <<w1 + (IF Len(args) >= 2 THEN WidthOrZero(args[2]) ELSE 0)>>)
      [] op = "bv_extract" -> OpI(op, args, <<app.p[2] - app.p[1] + 1, app.p[1], app.p[2]>>)
      [] op \in {"bv_rol", "bv_ror"} -> OpI(op, args, <<w1, app.p[1]>>)
      [] op \in {"bv_zext", "bv_sext"} -> OpI(op, args, <<w1 + app.p[1], app.p[1]>>)
      [] op = "function" -> App(app.n, app.ty, args)
      [] op = "array_value" ->
            \* documented: assignments whose value is the default are not represented
            \* (they are dropped before the node is built and type-checked)
            LET RECURSIVE Keep(_)
                Keep(j) == IF j + 1 > Len(args) THEN <<>>
                           ELSE (IF args[j + 1] = args[1] THEN <<>> ELSE <<args[j], args[j + 1]>>) \o Keep(j + 2)
            IN  ArrV(app.ty, <<args[1]>> \o Keep(2))
      [] op \in {"forall", "exists"} -> Quant(op, app.bv, args[1])
      [] OTHER -> Op(op, args)

\* documented constructor normalisations that return an argument / a constant
\* instead of building the node
\* (since fix 43 only where the lone argument is one the operator accepts: And(x) for an Int x is an ill-typed
\* application although the node that would be returned, x itself, is a well-typed term)
NormalisedAway(app) ==
    \/ app.op \in {"and", "or", "plus", "times"} /\ Len(app.args) = 0
    \/ app.op \in {"and", "or"} /\ Len(app.args) = 1 /\ TypeOf(app.args[1]) = TBool
    \/ app.op \in {"plus", "times"} /\ Len(app.args) = 1 /\ TypeOf(app.args[1]) \in {TInt, TReal}
    \/ app.op = "toreal" /\ Len(app.args) = 1 /\ TyF(app.args[1]) = TReal
    \/ app.op = "function" /\ Len(app.args) = 0 /\ (app.ty.k # "Fun" \/ Len(app.ty.a) <= 1)
    \/ app.op \in {"forall", "exists"} /\ app.bv = <<>> /\ Len(app.args) = 1 /\ TypeOf(app.args[1]) = TBool

(* create(app) -> res \in {"ok","error"}; out / rty = result and its reported sort *)
CreateContract(e) ==
    IF e.res = "error" THEN Accept       \* rejecting is always allowed by the property
    ELSE LET tout == TypeOf(e.out)
             ill == TypeOf(IntendedNode(e.app)) = Ill /\ ~NormalisedAway(e.app)
         IN  Verdict(Fl("ill_typed_application_accepted", ~ill) \o
                     Fl("output_well_typed", tout # Ill) \o
                     Fl("reported_type_out", tout = Ill \/ e.rty = tout), <<>>, -1)

\* would the typing rules accept the application?  (used to count well-typed rejections)
AppWellTyped(app) == TypeOf(IntendedNode(app)) # Ill

\* ------------------------------------------------------------------ C02
(***************************************************************************)
(* model.get_value(f, completion) over the model {asg[j] : present[j] = 1}. *)
(* asg[j] = [n, ty, v] with v a constant term.                              *)
(***************************************************************************)
HasDocumentedDefault(ty) == ty.k \in {"Bool", "Int", "Real", "BV"}
DefaultVal(ty) == CASE ty.k = "Bool" -> FALSE [] ty.k = "Int" -> 0 [] ty.k = "Real" -> <<0, 1>> [] OTHER -> 0

IsValueTerm(t) == t.op \in ConstOps \/ (t.op = "array_value" /\ \A j \in 1..Len(t.a) : t.a[j].op \in ConstOps \cup {"array_value"})

GetValueContract(e) ==
    LET f == e.f
        n == Len(e.asg)
        pres == {j \in 1..n : e.present[j] = 1}
        miss == {j \in 1..n : e.present[j] = 0}
        J == [nm \in {e.asg[j].n : j \in pres} |->
                 Eval(e.asg[CHOOSE j \in pres : e.asg[j].n = nm].v, EmptyMap, QDefault)]
        docdef == \A j \in miss : HasDocumentedDefault(e.asg[j].ty)
        D == [nm \in {e.asg[j].n : j \in miss} |-> DefaultVal(e.asg[CHOOSE j \in miss : e.asg[j].n = nm].ty)]
        tf == TypeOf(f)
        tout == TypeOf(e.out)
        outv == Eval(e.out, EmptyMap, QDefault)
        shape == Fl("value_is_constant", IsValueTerm(e.out)) \o
                 Fl("output_well_typed", tout # Ill) \o
                 Fl("same_type", tout = Ill \/ tout = tf) \o
                 Fl("reported_type_out", tout = Ill \/ e.rty = tout)
    IN
    IF tf = Ill THEN Verdict(<<"input_well_typed">>, <<>>, -1)
    ELSE IF ~(CanEval(f)) THEN Verdict(<<>>, <<"value">>, -1)
    ELSE IF miss = {} \/ (e.completion /\ docdef) THEN
        LET I == Override(J, D) IN
        IF DivZero(f, I, QDefault) THEN Accept
        ELSE IF e.res # "value" THEN Verdict(<<"value_returned">>, <<>>, -1)
        ELSE IF shape # <<>> THEN Verdict(shape, <<>>, -1)
        ELSE Verdict(Fl("exact_value", outv = Eval(f, I, QDefault)) \o
                     Fl("satisfies_iff_true", e.sat = "na" \/ (tf = TBool /\ (e.sat = "true") = Eval(f, I, QDefault))),
                     <<>>, -1)
    ELSE \* partial model without (documented) completion
        IF e.res # "value" THEN Accept
        ELSE IF shape # <<>> THEN Verdict(shape, <<>>, -1)
        ELSE LET ms == SymSeq({BVar(e.asg[j].n, e.asg[j].ty) : j \in miss})
                 bad == {k \in InterpIdx(ms, Cap) :
                            LET I == Override(J, InterpAt(ms, k, Cap))
                            IN  ~DivZero(f, I, QDefault) /\ Eval(f, I, QDefault) # outv}
             IN  Verdict(Fl("holds_for_every_completion", bad = {}), <<>>,
                         IF bad = {} THEN -1 ELSE CHOOSE k \in bad : TRUE)

\* ------------------------------------------------------------------ C06
(* built = constructor `name` applied to argument terms a with Python parameters p *)
DerivedContract(e) ==
    IF e.res # "ok" THEN Verdict(<<"construction_failed">>, <<>>, -1)
    ELSE
    LET n == Len(e.a)
        ts == [j \in 1..n |-> TyF(e.a[j])]
        tb == TypeOf(e.built)
        want == NamedSort(e.name, ts, e.p)
        shape == Fl("output_well_typed", tb # Ill) \o
                 Fl("result_sort", tb = Ill \/ tb = want) \o
                 Fl("reported_type_out", tb = Ill \/ e.rty = tb)
        syms == SymSeq(UNION {FreeSyms(e.a[j]) : j \in 1..n} \cup FreeSyms(e.built))
        bad == {k \in InterpIdx(syms, Cap) :
                   LET I == InterpAt(syms, k, Cap)
                       vs == [j \in 1..n |-> Eval(e.a[j], I, QDefault)]
                   IN  ~DivZero(e.built, I, QDefault) /\ Eval(e.built, I, QDefault) # Named(e.name, vs, ts, e.p)}
    IN  IF shape # <<>> THEN Verdict(shape, <<>>, -1)
        ELSE Verdict(Fl("denotes_named_function", bad = {}), <<>>, IF bad = {} THEN -1 ELSE CHOOSE k \in bad : TRUE)

\* ------------------------------------------------------------------ C12

(* analyses of f: fv (names+sorts), atoms (terms), qf, sorts, custom sorts, six sizes *)
AnalysesContract(e) ==
    LET f == e.f
        tf == TypeOf(f)
        fvdef == FreeSyms(f)
        structural ==
            Fl("input_well_typed", tf # Ill) \o
            Fl("free_symbols_exact", SeqSet(e.fv) = fvdef) \o
            Fl("qf_exact", e.qf = IsQF(f)) \o
            Fl("atoms_exact", tf # TBool \/ e.atoms_ok = FALSE \/ SeqSet(e.atoms) = Atoms(f)) \o
            Fl("atoms_reported_for_bool", tf # TBool \/ e.atoms_ok) \o
            Fl("sorts_exact", SeqSet(e.sorts) = SortsOf(f)) \o
            Fl("custom_sorts_exact", SeqSet(e.csorts) = CustomSortsOf(f)) \o
            Fl("size_tree", e.sizes[1] = TreeNodes(f)) \o
            Fl("size_dag", e.sizes[2] = DagNodes(f)) \o
            Fl("size_leaves", e.sizes[3] = Leaves(f)) \o
            Fl("size_depth", e.sizes[4] = Depth(f)) \o
            Fl("size_symbols", e.sizes[5] = SymbolsCount(f)) \o
            Fl("size_bool_dag", e.sizes[6] = BoolDagNodes(f))
    IN  IF structural # <<>> THEN Verdict(structural, <<>>, -1)
        ELSE IF ~CanEval(f) \/ ~CanInterpret(AllSyms(f)) THEN Verdict(<<>>, <<"semantic_consequences">>, -1)
        ELSE
        \* semantic consequences named by the property, evaluated with the REPORTED sets
        LET syms == SymSeq(AllSyms(f))
            rep == {s.n : s \in SeqSet(e.fv)}
            idx == InterpIdx(syms, Cap)
            \* perturb every symbol not reported free: the value must not move
            Perturb(I, k) == [nm \in DOMAIN I |->
                                 IF nm \in rep THEN I[nm] ELSE InterpAt(syms, (k + 1) % Cardinality(idx), Cap)[nm]]
            fvbad == {k \in idx : LET I == InterpAt(syms, k, Cap)
                                  IN  ~DivZero(f, I, QDefault) /\ ~DivZero(f, Perturb(I, k), QDefault)
                                      /\ Eval(f, I, QDefault) # Eval(f, Perturb(I, k), QDefault)}
            atoms == e.atoms
            Vec(I) == [j \in 1..Len(atoms) |-> Eval(atoms[j], I, QDefault)]
            atbad == IF tf # TBool \/ ~IsQF(f) THEN {}
                     ELSE {p \in idx \X idx :
                              LET I1 == InterpAt(syms, p[1], Cap)
                                  I2 == InterpAt(syms, p[2], Cap)
                              IN  p[1] < p[2] /\ Vec(I1) = Vec(I2)
                                  /\ ~DivZero(f, I1, QDefault) /\ ~DivZero(f, I2, QDefault)
                                  /\ Eval(f, I1, QDefault) # Eval(f, I2, QDefault)}
        IN  Verdict(Fl("value_depends_only_on_reported_free_symbols", fvbad = {}) \o
                    Fl("truth_is_function_of_reported_atoms", atbad = {}), <<>>, -1)

\* ------------------------------------------------------------------ C05
(* out = substitute(f, keys[j] -> vals[j], interpretations) with strategy "MG" | "MS" *)
SubstContract(e) ==
    LET f == e.f
        n == Len(e.keys)
        s == [k \in SeqSet(e.keys) |-> e.vals[CHOOSE j \in 1..n : e.keys[j] = k]]
        FI == [nm \in {e.interp[j].n : j \in 1..Len(e.interp)} |->
                  LET d == e.interp[CHOOSE j \in 1..Len(e.interp) : e.interp[j].n = nm]
                  IN  [params |-> d.params, body |-> d.body]]
        typed == \A j \in 1..n : TypeOf(e.keys[j]) # Ill /\ TypeOf(e.keys[j]) = TypeOf(e.vals[j])
        tf == TypeOf(f)
        tout == TypeOf(e.out)
        shape == Fl("output_well_typed", tout # Ill) \o
                 Fl("same_type", tout = Ill \/ tout = tf) \o
                 Fl("reported_type_out", tout = Ill \/ e.rty = tout)
        exactfrag == InExactFragment(f) /\ \A j \in 1..n : InExactFragment(e.keys[j]) /\ InExactFragment(e.vals[j])
        want == IF e.strategy = "MG" THEN MGS(f, s, FI) ELSE MSS(f, s, FI)
        symkeys == \A j \in 1..n : e.keys[j].op = "symbol"
        lemma_applies == symkeys /\ CaptureFree(f, s) /\ CanEval(f) /\ CanEval(e.out)
                         /\ \A j \in 1..n : CanEval(e.vals[j])
        syms == SymSeq({sy \in FreeSyms(f) \cup FreeSyms(e.out) \cup UNION {FreeSyms(e.vals[j]) : j \in 1..n}
                           \cup {BVar(e.keys[j].n, e.keys[j].ty) : j \in {j \in 1..n : e.keys[j].op = "symbol"}} :
                        sy.n \notin DOMAIN FI})
        bad == {k \in InterpIdx(syms, Cap) :
                   LET I0 == InterpAt(syms, k, Cap)
                       I == Override(I0, FI)
                       upd == [nm \in {e.keys[j].n : j \in 1..n} |->
                                  Eval(e.vals[CHOOSE j \in 1..n : e.keys[j].n = nm], I, QDefault)]
                       I2 == Override(I, upd)
                   IN  ~DivZero(f, I2, QDefault) /\ Eval(e.out, I, QDefault) # Eval(f, I2, QDefault)}
        \* applications of an interpreted symbol that the caller itself put into a replacement
        \* term are not "applications of the formula": the clause is about f's own applications
        valsmention == \E j \in 1..n : \E u \in SubTerms(e.vals[j]) : u.op = "function" /\ u.n \in DOMAIN FI
        leftover == IF valsmention THEN {} ELSE {u \in SubTerms(e.out) : u.op = "function" /\ u.n \in DOMAIN FI}
    IN  IF tf = Ill \/ ~typed THEN Verdict(<<>>, <<"ill_typed_input_or_map">>, -1)
        ELSE IF e.res # "ok" THEN Verdict(<<"raises_on_type_correct_map">>, <<>>, -1)
        ELSE IF shape # <<>> THEN Verdict(shape, <<>>, -1)
        ELSE Verdict(Fl("exact_documented_replacement", ~exactfrag \/ e.out = want) \o
                     Fl("interpreted_symbol_eliminated", leftover = {}) \o
                     (IF lemma_applies THEN Fl("substitution_lemma", bad = {}) ELSE <<>>),
                     IF lemma_applies THEN <<>> ELSE <<"substitution_lemma">>,
                     IF lemma_applies /\ bad # {} THEN CHOOSE k \in bad : TRUE ELSE -1)

\* ------------------------------------------------------------------ C10
(* out = proc(f) for the equivalence-preserving rewriters; parts for the partitions *)
RewriteContract(e) ==
    LET f == e.f
        tf == TypeOf(f)
        target == CASE e.proc = "conj_partition" -> MkAnd(e.parts)
                    [] e.proc = "disj_partition" -> MkOr(e.parts)
                    [] OTHER -> e.out
        tt == TypeOf(target)
        shapeok == CASE e.proc = "nnf" -> IsNNF(target)
                     [] e.proc = "prenex" -> (~QuantInBoolPositionsOnly(f)) \/ IsPrenex(target)
                     [] e.proc = "aig" -> IsAIG(target)
                     [] e.proc \in {"qelim_shannon", "qelim_selfsub"} -> IsQF(target)
                     [] OTHER -> TRUE
        structural == Fl("output_well_typed", tt # Ill) \o
                      Fl("same_type", tt = Ill \/ tt = tf) \o
                      Fl("reported_type_out", tt = Ill \/ e.proc \in {"conj_partition", "disj_partition"} \/ e.rty = tt) \o
                      Fl("no_new_free_symbol", FreeSyms(target) \subseteq FreeSyms(f)) \o
                      Fl("advertised_shape", shapeok)
    IN  IF tf = Ill THEN Verdict(<<"input_well_typed">>, <<>>, -1)
        ELSE IF e.res # "ok" THEN Verdict(<<"raises_on_input_in_fragment">>, <<>>, -1)
        ELSE IF structural # <<>> THEN Verdict(structural, <<>>, -1)
        ELSE IF ~(CanEval(f) /\ CanEval(target)) THEN Verdict(<<>>, <<"equivalent">>, -1)
        ELSE LET w == EquivWitness(f, target) IN Verdict(Fl("equivalent", w = -1), <<>>, w)

\* ------------------------------------------------------------------ C11
\* interpretations of a set of fresh symbols: exhaustive product of the carriers, or {} if too many
FreshSpaceSize(fs) == ProdCapped([j \in 1..Len(fs) |-> Len(Carrier(fs[j].ty))], 4096)

(* CNF: out = conversion of f (as formula); equisatisfiable model-by-model *)
CnfContract(e) ==
    LET f == e.f
        out == e.out
        tf == TypeOf(f)
        tout == TypeOf(out)
        base == SymSeq(FreeSyms(f))
        fresh == SymSeq(FreeSyms(out) \ FreeSyms(f))
        structural == Fl("output_well_typed", tout # Ill) \o
                      Fl("same_type", tout = Ill \/ tout = TBool) \o
                      Fl("is_cnf", IsCNF(out)) \o
                      Fl("fresh_symbols_are_boolean", \A j \in 1..Len(fresh) : fresh[j].ty = TBool)
    IN  IF tf # TBool THEN Verdict(<<"input_well_typed">>, <<>>, -1)
        ELSE IF e.res # "ok" THEN Verdict(<<"raises_on_input_in_fragment">>, <<>>, -1)
        ELSE IF structural # <<>> THEN Verdict(structural, <<>>, -1)
        ELSE IF ~(CanEval(f) /\ CanEval(out)) \/ FreshSpaceSize(fresh) > 4096 THEN Verdict(<<>>, <<"equisatisfiable">>, -1)
        ELSE
        LET nf == FreshSpaceSize(fresh)
            fidx == 0..(nf - 1)
            bidx == InterpIdx(base, Cap)
            OutAt(I, j) == Eval(out, Override(I, InterpAt(fresh, j, 4096)), QDefault)
            lost == {k \in bidx : LET I == InterpAt(base, k, Cap)
                                  IN  ~DivZero(f, I, QDefault) /\ Eval(f, I, QDefault) /\ ~\E j \in fidx : OutAt(I, j)}
            spurious == {k \in bidx : LET I == InterpAt(base, k, Cap)
                                      IN  ~DivZero(f, I, QDefault) /\ ~Eval(f, I, QDefault) /\ \E j \in fidx : OutAt(I, j)}
        IN  Verdict(Fl("models_of_input_extend_to_output", lost = {}) \o
                    Fl("models_of_output_restrict_to_input", spurious = {}), <<>>,
                    IF lost # {} THEN CHOOSE k \in lost : TRUE ELSE IF spurious # {} THEN CHOOSE k \in spurious : TRUE ELSE -1)

(* Ackermannization: out has no UF; map[j] = [app, c]: application term -> fresh constant *)
RECURSIVE ReplaceApps(_, _)
ReplaceApps(t, amap) ==
    IF t \in DOMAIN amap THEN amap[t]
    ELSE [t EXCEPT !.a = [j \in 1..Len(t.a) |-> ReplaceApps(t.a[j], amap)]]

AckContract(e) ==
    LET f == e.f
        out == e.out
        tout == TypeOf(out)
        amap == [ap \in {e.map[j].app : j \in 1..Len(e.map)} |->
                    LET m == e.map[CHOOSE j \in 1..Len(e.map) : e.map[j].app = ap] IN Sym(m.c, TyF(ap))]
        consts == {BVar(amap[ap].n, amap[ap].ty) : ap \in DOMAIN amap}
        funs == {s \in FreeSyms(f) : s.ty.k = "Fun"}
        plain == SymSeq(FreeSyms(f) \ funs)
        allsyms == SymSeq(FreeSyms(f))
        osyms == SymSeq(FreeSyms(out) \cup (FreeSyms(f) \ funs) \cup consts)
        structural == Fl("output_well_typed", tout # Ill) \o
                      Fl("same_type", tout = Ill \/ tout = TBool) \o
                      Fl("no_uf_left", NoUF(out)) \o
                      Fl("only_ack_constants_are_new", FreeSyms(out) \subseteq (FreeSyms(f) \ funs) \cup consts)
        \* function tables read off a model M of out
        Entries(M, fn) == {<<[j \in 1..Len(ap.a) |-> Eval(ReplaceApps(ap.a[j], amap), M, QDefault)], M[amap[ap].n]>> :
                               ap \in {a \in DOMAIN amap : a.n = fn}}
        WellDef(M, fn) == \A p1, p2 \in Entries(M, fn) : p1[1] = p2[1] => p1[2] = p2[2]
        Table(M, fnsym) == LET es == Entries(M, fnsym.n)
                               args == {p[1] : p \in es}
                           IN  [d |-> Carrier(FunRet(fnsym.ty))[1],
                                m |-> [a \in args |-> (CHOOSE p \in es : p[1] = a)[2]]]
        Complete(M) == [nm \in {s.n : s \in FreeSyms(f) \cup FreeSyms(out)} |->
                           IF \E s \in funs : s.n = nm THEN Table(M, CHOOSE s \in funs : s.n = nm)
                           ELSE IF nm \in DOMAIN M THEN M[nm]
                           ELSE Carrier((CHOOSE s \in FreeSyms(f) : s.n = nm).ty)[1]]
        oidx == InterpIdx(osyms, Cap)
        illdef == {k \in oidx : LET M == InterpAt(osyms, k, Cap)
                                IN  Eval(out, M, QDefault) /\ \E s \in funs : ~WellDef(M, s.n)}
        spurious == {k \in oidx : LET M == InterpAt(osyms, k, Cap)
                                  IN  Eval(out, M, QDefault) /\ (\A s \in funs : WellDef(M, s.n))
                                      /\ ~Eval(f, Complete(M), QDefault)}
        \* every model of f extends: give each ack constant the value of its application
        aidx == InterpIdx(allsyms, Cap)
        lost == {k \in aidx : LET I == InterpAt(allsyms, k, Cap)
                                  J == [nm \in {amap[ap].n : ap \in DOMAIN amap} |->
                                           Eval(CHOOSE ap \in DOMAIN amap : amap[ap].n = nm, I, QDefault)]
                              IN  Eval(f, I, QDefault) /\ ~Eval(out, Override(I, J), QDefault)}
    IN  IF e.res # "ok" THEN Verdict(<<"raises_on_input_in_fragment">>, <<>>, -1)
        ELSE IF structural # <<>> THEN Verdict(structural, <<>>, -1)
        ELSE IF ~(CanEval(f) /\ CanEval(out)) THEN Verdict(<<>>, <<"equisatisfiable">>, -1)
        ELSE Verdict(Fl("models_of_input_extend_to_output", lost = {}) \o
                     Fl("function_tables_well_defined", illdef = {}) \o
                     Fl("models_of_output_restrict_to_input", spurious = {}), <<>>, -1)

\* ------------------------------------------------------------------ C16
(***************************************************************************)
(* History traces: e.cmds is the command history, e.obs[i] what the real    *)
(* object reported after command i.  The abstract machine is stepped along  *)
(* the history; every step must be enabled and every observation must equal *)
(* the abstract state.                                                      *)
(***************************************************************************)
RECURSIVE StateAfter(_, _)
StateAfter(cmds, i) == IF i = 0 THEN InitLevels ELSE Step(StateAfter(cmds, i - 1), cmds[i])

ProjGoals(levels) ==
    LET g == Goals(levels) IN [j \in 1..Len(g) |-> [k |-> g[j].k, x |-> g[j].x, soft |-> g[j].soft, sg |-> g[j].sg]]

(* script: obs[i] = [formula (term), goals (seq of [k, x, soft])] for the prefix of length i;
   terms[x] = the formula / objective term with id x *)
ScriptHistoryContract(e) ==
    LET n == Len(e.cmds)
        St(i) == StateAfter(e.cmds, i)
        illegal == {i \in 1..n : ~Legal(St(i - 1), e.cmds[i])}
        WantFormula(i) == LET la == LiveAsserts(St(i)) IN MkAnd([j \in 1..Len(la) |-> e.terms[la[j].x]])
        badf == {i \in 1..n : e.obs[i].formula # WantFormula(i)}
        badg == {i \in 1..n : e.obs[i].goals # ProjGoals(St(i))}
    IN  IF illegal # {} THEN Verdict(<<>>, <<"illegal_history">>, -1)
        ELSE Verdict(Fl("final_formula_is_live_assertions", badf = {}) \o
                     Fl("goals_are_live_goals", badg = {}), <<>>,
                     IF badf # {} THEN CHOOSE i \in badf : \A k \in badf : i <= k
                     ELSE IF badg # {} THEN CHOOSE i \in badg : \A k \in badg : i <= k ELSE -1)

(* incremental solver: obs[i] = seq of assertion ids reported after command i (-1 = the call raised) *)
SolverHistoryContract(e) ==
    LET n == Len(e.cmds)
        St(i) == StateAfter(e.cmds, i)
        illegal == {i \in 1..n : ~Legal(St(i - 1), e.cmds[i])}
        Want(i) == LET la == LiveAsserts(St(i)) IN [j \in 1..Len(la) |-> la[j].x]
        bad == {i \in 1..n : e.obs[i] # Want(i)}
    IN  IF illegal # {} THEN Verdict(<<>>, <<"illegal_history">>, -1)
        ELSE Verdict(Fl("assertions_are_live_assertions", bad = {}), <<>>,
                     IF bad # {} THEN CHOOSE i \in bad : \A k \in bad : i <= k ELSE -1)

\* ------------------------------------------------------------------ C04
FM == INSTANCE FMCalls

(* one environment: calls[i] = index of the i-th constructor call, obs[i] = [term, same] where
   same[j] = 1 iff result i is the same object as result j (j < i) *)
FMHistoryContract(e) ==
    LET n == Len(e.calls)
        badread == {i \in 1..n : e.obs[i].term # FM!Den(e.calls[i])}
        badid == {p \in (1..n) \X (1..n) : p[2] < p[1] /\
                     ((e.obs[p[1]].same[p[2]] = 1) # (FM!Den(e.calls[p[1]]) = FM!Den(e.calls[p[2]])))}
        split == {p \in badid : FM!Den(e.calls[p[1]]) = FM!Den(e.calls[p[2]])}
        \* the derived accessors of a bit-vector constant: two's complement value and binary digits (most significant first)
        SignedOf(v, w) == IF v >= Pow2(w - 1) THEN v - Pow2(w) ELSE v
        BitsOf(v, w) == [j \in 1..w |-> (v \div Pow2(w - j)) % 2]
        badacc == {i \in 1..n : LET t == e.obs[i].term IN
                      t.op = "bv_constant" /\ t.n = "" /\ "sg" \in DOMAIN e.obs[i] /\
                      (e.obs[i].sg # SignedOf(t.i[1], t.i[2]) \/ e.obs[i].bin # BitsOf(t.i[1], t.i[2]))}
    IN  Verdict(Fl("accessors_read_back_what_was_built", badread = {} /\ badacc = {}) \o
                Fl("same_structure_same_object", split = {}) \o
                Fl("different_structure_different_object", badid \ split = {}), <<>>,
                IF badread # {} THEN CHOOSE i \in badread : TRUE ELSE -1)

(* cross-environment copy: src / copy exported structures, shared = number of FNode objects of the
   copy that are also reachable from the source, in_target = copy belongs to the target manager *)
NormalizeContract(e) ==
    \* conflict = the target environment already declares one of the symbols with another sort: refusing is then
    \* the only alternative to a faithful copy
    IF e.res # "ok" THEN (IF e.conflict THEN Accept ELSE Verdict(<<"raises">>, <<>>, -1))
    ELSE Verdict(Fl("structurally_identical_copy", e.copy = e.src) \o
                 Fl("copy_well_typed", TypeOf(e.copy) # Ill) \o
                 Fl("reported_type_out", e.rty = TypeOf(e.copy)) \o
                 Fl("no_shared_formula_objects", e.shared = 0) \o
                 Fl("copy_belongs_to_target_environment", e.in_target), <<>>, -1)

\* ------------------------------------------------------------------ C20
DSH == INSTANCE DagShapes

(* a recorded walk: kids = the DAG (children have smaller numbers), root, calls = the sequence of
   nodes whose walk_* callback ran, K = allowed callbacks per node, order / full = whether the
   walker computes children first / visits every reachable node *)
WalkTraceContract(e) ==
    LET n == Len(e.kids)
        Cnt(m) == Cardinality({i \in 1..Len(e.calls) : e.calls[i] = m})
        reach == DSH!Reach(e.kids, e.root)
        over == {m \in 1..n : Cnt(m) > e.K}
        First(m) == CHOOSE i \in 1..Len(e.calls) : e.calls[i] = m /\ \A j \in 1..(i - 1) : e.calls[j] # m
        early == IF ~e.order THEN {}
                 ELSE {m \in 1..n : Cnt(m) > 0 /\ \E j \in 1..Len(e.kids[m]) :
                                       LET c == e.kids[m][j] IN Cnt(c) = 0 \/ First(c) > First(m)}
        stray == {m \in 1..n : Cnt(m) > 0 /\ m \notin reach}
        missed == IF ~e.full THEN {} ELSE {m \in reach : Cnt(m) = 0}
        \* expansions (pops of an unexpanded stack entry): a node is pushed at most once per incoming edge
        \* (argument position of a parent), the root once; so are its expansions
        CntE(m) == Cardinality({i \in 1..Len(e.exps) : e.exps[i] = m})
        InEdges(m) == LET c == SumInts([p \in 1..n |-> Cardinality({j \in 1..Len(e.kids[p]) : e.kids[p][j] = m})])
                      IN  IF m = e.root THEN c + 1 ELSE c
        reexp == IF ~e.chk_exp THEN {} ELSE {m \in 1..n : CntE(m) > e.K * InEdges(m)}
    IN  IF e.res # "ok" THEN Verdict(<<"operation_failed">>, <<>>, -1)
        ELSE Verdict(Fl("each_node_visited_at_most_K_times", over = {}) \o
                     Fl("each_node_expanded_at_most_once_per_incoming_edge", reexp = {}) \o
                     Fl("children_computed_before_parent", early = {}) \o
                     Fl("only_reachable_nodes_visited", stray = {}) \o
                     Fl("every_reachable_node_visited", missed = {}), <<>>,
                     IF over # {} THEN CHOOSE m \in over : TRUE ELSE -1)

(* a scaling run: nodes = distinct sub-formulas of the input, callbacks = callbacks that ran,
   K = allowed callbacks per distinct node, res = "ok" or the exception class *)
ScaleContract(e) ==
    Verdict(Fl("succeeds_on_deep_or_shared_input", e.res = "ok") \o
            Fl("work_linear_in_dag_size", e.res # "ok" \/ e.callbacks <= e.K * e.nodes + e.slack) \o
            Fl("pushes_bounded_by_edges", e.res # "ok" \/ e.exp <= e.K * (e.edges + 1) + e.slack) \o
            \* collections built by the callbacks (sets of symbols, atoms, sorts, nodes ...): the families have a bounded
            \* number of symbols / atoms / sorts, so their total size is linear in the nodes too
            Fl("collections_built_linear_in_dag_size", e.res # "ok" \/ e.setwork <= 8 * e.nodes + 64), <<>>, -1)

\* ------------------------------------------------------------------ huge constants (C01 / C02 / C07 / C09)
(***************************************************************************)
(* Arithmetic on constants beyond 32 bits.  a, b, out.z are integers         *)
(* [neg, mag] (decimal digits, least significant first), qa, qb, out.q       *)
(* rationals [n, d]; out.k = "int" | "real" | "bool" | "other" is what the    *)
(* code returned for op(a, b) (simplify, and get_value with the operands      *)
(* bound to symbols), txt = the numerals of the SMT-LIB text of the term in   *)
(* order of appearance (sign applied), back = whether parsing that text        *)
(* returned the very same object.                                             *)
(***************************************************************************)
BN == INSTANCE BigNat
BigArithContract(e) ==
    LET isInt == e.sort = "Int"
        zexp == CASE e.op = "plus" -> BN!ZAdd(e.a, e.b) [] e.op = "minus" -> BN!ZSub(e.a, e.b)
                  [] e.op = "times" -> BN!ZMul(e.a, e.b) [] e.op = "div" -> BN!ZDivMod(e.a, e.b)[1]
                  [] OTHER -> BN!ZZero
        qa == IF isInt THEN BN!QOfZ(e.a) ELSE BN!QMk(e.qa.n, e.qa.d)
        qb == IF isInt THEN BN!QOfZ(e.b) ELSE BN!QMk(e.qb.n, e.qb.d)
        qexp == CASE e.op = "plus" -> BN!QAddB(qa, qb) [] e.op = "minus" -> BN!QSubB(qa, qb)
                  [] e.op = "times" -> BN!QMulB(qa, qb) [] e.op = "div" -> BN!QDivB(qa, qb)
                  [] e.op = "toreal" -> qa [] OTHER -> qa
        cmp == BN!QCmpB(qa, qb)
        bexp == CASE e.op = "le" -> cmp <= 0 [] e.op = "lt" -> cmp < 0 [] e.op = "equals" -> cmp = 0 [] OTHER -> FALSE
        Right(o) == IF e.op \in {"le", "lt", "equals"} THEN o.k = "bool" /\ (o.b = 1) = bexp
                    ELSE IF isInt /\ e.op # "toreal" THEN o.k = "int" /\ o.z = zexp
                    ELSE o.k = "real" /\ BN!QMk(o.q.n, o.q.d) = qexp /\ o.q = BN!QMk(o.q.n, o.q.d)
    IN  IF e.res # "ok" THEN Verdict(<<"operation_failed">>, <<>>, -1)
        ELSE Verdict(Fl("simplify_exact_on_huge_constants", Right(e.simp)) \o
                     Fl("get_value_exact_on_huge_constants", Right(e.gv)) \o
                     Fl("printed_numerals_are_the_constants",
                        \/ e.op = "toreal"
                        \/ isInt /\ e.txt = <<e.a, e.b>> /\ SeqSet(e.dtxt) = {e.a, e.b}       \* tree printer, let-DAG printer
                        \/ ~isInt /\ \/ e.op = "div"                                          \* (/ a b) reads like one literal
                                     \/ /\ Len(e.qtxt) = 2 /\ BN!QMk(e.qtxt[1].n, e.qtxt[1].d) = qa /\ BN!QMk(e.qtxt[2].n, e.qtxt[2].d) = qb
                                        /\ {BN!QMk(x.n, x.d) : x \in SeqSet(e.dqtxt)} = {qa, qb}) \o
                     Fl("print_parse_returns_same_object", e.back) \o
                     Fl("human_readable_round_trip_keeps_the_meaning", e.hr = "unparsed" \/ Right(e.hrsimp)), <<>>, -1)

(* Bit-vector operators at widths beyond the exhaustive range (32, 33, 64, 65, 128 bits): a, b = operand values
   as decimal digit sequences, p = parameters (extract hi lo / extension or rotation amount), simp / gv = what
   simplify / get_value returned: [k = "bv" | "bool" | "other", v (digits), w (width), b]. *)
BigBVContract(e) ==
    LET w == e.w
        rot(bs, k) == [j \in 1..w |-> bs[((j - 1 - k) % w) + 1]]            \* rotate left by k (least significant first)
        expv == CASE e.op \in {"bv_not", "bv_neg"} -> BN!BVUn(e.op, e.a, w)
                  [] e.op = "bv_concat" -> BN!NAdd(BN!NMul(e.a, BN!NPow2(w)), e.b)
                  [] e.op = "bv_zext" -> e.a
                  [] e.op = "bv_sext" -> IF BN!IsNegBV(e.a, w) THEN BN!NAdd(e.a, BN!NSub(BN!NPow2(w + e.p[1]), BN!NPow2(w))) ELSE e.a
                  [] e.op = "bv_extract" -> BN!NMod(BN!NDiv(e.a, BN!NPow2(e.p[2])), BN!NPow2(e.p[1] - e.p[2] + 1))
                  [] e.op = "bv_rol" -> BN!OfBits(rot(BN!Bits(e.a, w), e.p[1] % w))
                  [] e.op = "bv_ror" -> BN!OfBits(rot(BN!Bits(e.a, w), (w - (e.p[1] % w)) % w))
                  [] e.op \in {"bv_ult", "bv_ule", "bv_slt", "bv_sle", "equals"} -> <<>>
                  [] OTHER -> BN!BVBin(e.op, e.a, e.b, w)
        expw == CASE e.op = "bv_concat" -> 2 * w [] e.op \in {"bv_zext", "bv_sext"} -> w + e.p[1]
                  [] e.op = "bv_extract" -> e.p[1] - e.p[2] + 1 [] OTHER -> w
        isRel == e.op \in {"bv_ult", "bv_ule", "bv_slt", "bv_sle", "equals"}
        Right(o) == IF isRel THEN o.k = "bool" /\ (o.b = 1) = BN!BVRel(e.op, e.a, e.b, w)
                    ELSE o.k = "bv" /\ o.w = expw /\ o.v = expv
    IN  IF e.res # "ok" THEN Verdict(<<"operation_failed">>, <<>>, -1)
        ELSE Verdict(Fl("simplify_exact_on_wide_bit_vectors", Right(e.simp)) \o
                     Fl("get_value_exact_on_wide_bit_vectors", Right(e.gv)) \o
                     Fl("print_parse_returns_same_object", e.back), <<>>, -1)

\* ------------------------------------------------------------------ C14 / C15
(***************************************************************************)
(* Equality of results up to the order of commutative arguments (ACEq) and  *)
(* a bijection between the fresh symbol names of the two sides.             *)
(***************************************************************************)
CommutativeOps == {"and", "or", "plus", "times"}

RECURSIVE ACEq(_, _)
ACEq(a, b) ==
    /\ a.op = b.op /\ a.n = b.n /\ a.ty = b.ty /\ a.i = b.i /\ a.s = b.s
    /\ Len(a.a) = Len(b.a)
    /\ SeqSet(a.bv) = SeqSet(b.bv)              \* the order of bound variables is immaterial
    /\ IF a.op \in CommutativeOps
       THEN \* ACEq is an equivalence: the two argument multisets agree iff every class has the same size on both sides
            \A i \in 1..Len(a.a) :
                Cardinality({j \in 1..Len(b.a) : ACEq(a.a[i], b.a[j])}) =
                Cardinality({j \in 1..Len(a.a) : ACEq(a.a[i], a.a[j])})
       ELSE IF a.op = "array_value"
       THEN \* the literal lists its (distinct index, value) assignments in an unspecified order (FormulaManager.Array
            \* sorts them by object identity)
            /\ ACEq(a.a[1], b.a[1])
            /\ \A i \in 1..((Len(a.a) - 1) \div 2) : \E j \in 1..((Len(b.a) - 1) \div 2) :
                   ACEq(a.a[2 * i], b.a[2 * j]) /\ ACEq(a.a[2 * i + 1], b.a[2 * j + 1])
       ELSE \A j \in 1..Len(a.a) : ACEq(a.a[j], b.a[j])

RECURSIVE RenameSyms(_, _)
RenameSyms(t, m) ==
    LET R(nm) == IF nm \in DOMAIN m THEN m[nm] ELSE nm
    IN  [t EXCEPT !.n = IF t.op \in {"symbol", "function"} THEN R(t.n) ELSE t.n,
                  !.bv = [j \in 1..Len(t.bv) |-> [n |-> R(t.bv[j].n), ty |-> t.bv[j].ty]],
                  !.a = [j \in 1..Len(t.a) |-> RenameSyms(t.a[j], m)]]

Bijections(A, B) == IF Cardinality(A) # Cardinality(B) THEN {}
                    ELSE {f \in [A -> B] : \A x, y \in A : x # y => f[x] # f[y]}

(* a result is [k, t, ts, s, fresh]: k = "term" (t), "terms" (ts, a set), "text" / "err" / "val" (s) *)
ResultEq(ra, rb) ==
    /\ ra.k = rb.k
    /\ CASE ra.k = "term" ->
              \E m \in Bijections(SeqSet(ra.fresh), SeqSet(rb.fresh)) : ACEq(RenameSyms(ra.t, m), rb.t)
         [] ra.k = "terms" ->
              /\ Len(ra.ts) = Len(rb.ts)
              /\ \E m \in Bijections(SeqSet(ra.fresh), SeqSet(rb.fresh)) :
                    \A i \in 1..Len(ra.ts) :
                        Cardinality({j \in 1..Len(rb.ts) : ACEq(RenameSyms(ra.ts[i], m), rb.ts[j])}) =
                        Cardinality({j \in 1..Len(ra.ts) : ACEq(ra.ts[i], ra.ts[j])})
         [] OTHER -> ra.s = rb.s

(* twin run: pa[i] / pb[i] = result of probe i on the environment that saw the history / on its twin;
   rep[i] = TRUE iff repeating probe i on A returned the very same object (only asked where the
   probe introduces no fresh symbol and returns a formula) *)
TwinContract(e) ==
    LET n == Len(e.pa)
        diff == {i \in 1..n : ~ResultEq(e.pa[i], e.pb[i])}
        norep == {i \in 1..n : e.rep[i] = 0}
        \* a call of the catalogue that fails in a fresh environment fails whenever it is made: an earlier failing
        \* call (e.g. the very same one) must not make it succeed
        succeeded == IF "isfail" \in DOMAIN e THEN {i \in 1..Len(e.h) : e.isfail[i] = 1 /\ e.outcomes[i] # "err"} ELSE {}
    IN  Verdict(Fl("result_independent_of_history", diff = {}) \o
                Fl("failing_call_fails_whatever_was_called_before", succeeded = {}) \o
                Fl("repeated_call_returns_same_object", norep = {}), <<>>,
                IF diff # {} THEN CHOOSE i \in diff : \A k \in diff : i <= k
                ELSE IF norep # {} THEN CHOOSE i \in norep : TRUE ELSE -1)

\* ------------------------------------------------------------------ C18
(***************************************************************************)
(* An optimisation run over a finite-domain constraint system:              *)
(*  vars[j] = [n, ty, dom] (dom = sequence of constant terms), base = the    *)
(*  assertions present when the routine was called, goals[k] = [kind, terms, *)
(*  signed, soft] with kind in min / max / minmax / maxmin / maxsmt,         *)
(*  solves = the satisfiability queries the routine issued with the oracle's *)
(*  answers, outcome = what the routine returned, and the assertion stack    *)
(*  observed before and after.                                               *)
(***************************************************************************)
RECURSIVE AllAssignments(_)
AllAssignments(vs) ==
    IF vs = <<>> THEN {EmptyMap}
    ELSE LET v == Head(vs)
         IN  {MapPut(r, v.n, Eval(v.dom[j], EmptyMap, QDefault)) : r \in AllAssignments(Tail(vs)), j \in 1..Len(v.dom)}

AllTrue(ts, I) == \A j \in 1..Len(ts) : Eval(ts[j], I, QDefault)

Maximising(goal) == goal.kind \in {"max", "maxmin", "maxsmt"}
\* value of one term as an integer to be ordered (signed goals order bit-vectors as two's complement)
OrdVal(t, I, signed) == LET v == Eval(t, I, QDefault)
                        IN  IF TyF(t).k = "BV" /\ signed THEN BVSigned(v, TyF(t).w) ELSE v
ObjVal(goal, I) ==
    CASE goal.kind \in {"min", "max"} -> OrdVal(goal.terms[1], I, goal.signed)
      [] goal.kind = "minmax" -> LET vs == {OrdVal(goal.terms[j], I, goal.signed) : j \in 1..Len(goal.terms)}
                                 IN  CHOOSE v \in vs : \A u \in vs : u <= v
      [] goal.kind = "maxmin" -> LET vs == {OrdVal(goal.terms[j], I, goal.signed) : j \in 1..Len(goal.terms)}
                                 IN  CHOOSE v \in vs : \A u \in vs : v <= u
      [] goal.kind = "maxsmt" -> SumInts([j \in 1..Len(goal.soft) |->
                                              IF Eval(goal.soft[j].f, I, QDefault) THEN goal.soft[j].w ELSE 0])
BetterG(goal, a, b) == IF Maximising(goal) THEN a > b ELSE a < b
BetterEqG(goal, a, b) == IF Maximising(goal) THEN a >= b ELSE a <= b
BestOver(goal, S) == LET vs == {ObjVal(goal, I) : I \in S} IN CHOOSE v \in vs : \A u \in vs : BetterEqG(goal, v, u)
\* the value a returned cost constant denotes, in the order of the goal
CostVal(goal, c) == LET v == Eval(c, EmptyMap, QDefault)
                    IN  IF TyF(c).k = "BV" /\ goal.signed THEN BVSigned(v, TyF(c).w) ELSE v
ModelOf(asg) == [nm \in {asg[j].n : j \in 1..Len(asg)} |->
                    Eval(asg[CHOOSE j \in 1..Len(asg) : asg[j].n = nm].v, EmptyMap, QDefault)]

OptContract(e) ==
    LET space == AllAssignments(e.vars)
        models == {I \in space : AllTrue(e.base, I)}
        \* (1) the oracle's answers must be legitimate for what the routine asked, else the run is inconclusive
        badsolve == {k \in 1..Len(e.solves) :
                        LET sv == e.solves[k]
                            live == sv.asserts \o sv.assum
                        IN  IF sv.res = "sat" THEN ~AllTrue(live, ModelOf(sv.model))
                            ELSE \E I \in space : AllTrue(live, I)}
        G(k) == e.goals[k]
        ng == Len(e.goals)
        out == e.outcome
        unsat == models = {}
        \* (2) per mode
        single_ok(k, r) ==   \* r = [model, cost]
            /\ AllTrue(e.base, ModelOf(r.model))
            /\ ObjVal(G(k), ModelOf(r.model)) = CostVal(G(k), r.cost)
            /\ CostVal(G(k), r.cost) = BestOver(G(k), models)
        RECURSIVE LexModels(_)
        LexModels(k) == IF k = 0 THEN models
                        ELSE LET S == LexModels(k - 1) IN {I \in S : ObjVal(G(k), I) = BestOver(G(k), S)}
        lex_ok == /\ Len(out.costs) = ng
                  /\ \A k \in 1..ng : CostVal(G(k), out.costs[k]) = BestOver(G(k), LexModels(k - 1))
                  /\ AllTrue(e.base, ModelOf(out.model))
                  /\ \A k \in 1..ng : ObjVal(G(k), ModelOf(out.model)) = CostVal(G(k), out.costs[k])
        Vec(I) == [k \in 1..ng |-> ObjVal(G(k), I)]
        Dominates(a, b) == (\A k \in 1..ng : BetterEqG(G(k), a[k], b[k])) /\ (\E k \in 1..ng : BetterG(G(k), a[k], b[k]))
        front == {Vec(I) : I \in {I \in models : ~\E J \in models : Dominates(Vec(J), Vec(I))}}
        got == {[k \in 1..ng |-> CostVal(G(k), out.points[j].costs[k])] : j \in 1..Len(out.points)}
        pareto_ok == /\ got = front /\ Len(out.points) = Cardinality(front)
                     /\ \A j \in 1..Len(out.points) :
                           AllTrue(e.base, ModelOf(out.points[j].model)) /\ Vec(ModelOf(out.points[j].model)) \in front
        result_ok == CASE e.mode = "single" -> IF unsat THEN out.none ELSE ~out.none /\ single_ok(1, out.results[1])
                       [] e.mode = "boxed" -> IF unsat THEN out.none
                                              ELSE ~out.none /\ Len(out.results) = ng /\ \A k \in 1..ng : single_ok(k, out.results[k])
                       [] e.mode = "lex" -> IF unsat THEN out.none ELSE ~out.none /\ lex_ok
                       [] e.mode = "pareto" -> IF unsat THEN Len(out.points) = 0 ELSE pareto_ok
    IN  IF e.res # "ok" THEN Verdict(<<"routine_raised">>, <<>>, -1)
        ELSE IF badsolve # {} THEN Verdict(<<>>, <<"oracle_answer_not_legitimate">>, CHOOSE k \in badsolve : TRUE)
        ELSE Verdict(Fl("returns_true_optimum", result_ok) \o
                     Fl("assertion_stack_restored", e.stack_after = e.stack_before /\ e.depth_after = e.depth_before),
                     <<>>, -1)

\* ------------------------------------------------------------------ C19
(***************************************************************************)
(* A portfolio query run with real forked member processes.                 *)
(*   beh[i] in "sat" | "unsat" | "unknown" | "raise" | "crash_pre" |        *)
(*             "ctor_raise" | "crash_post"     behaviour of member i        *)
(*   rounds[r] = [res, model, value, served, winner] for each consecutive   *)
(*   solve on the same Portfolio object: res in "sat" | "unsat" | "raised"  *)
(*   | "blocked"; model = assignment returned by get_model (if asked),      *)
(*   value = get_value of the conjunction; served = members that consumed a *)
(*   control command; winner = member whose answer was taken                *)
(*   rounds[r].asserts = the assertions (terms) of that solve and            *)
(*   rounds[r].verdict = what the answering members say about them (the     *)
(*   assertions and the verdict change between consecutive solves)          *)
(***************************************************************************)
Answers(b) == b \in {"sat", "unsat", "crash_post"}
PortfolioContract(e) ==
    LET n == Len(e.beh)
        \* members that really decide (Boolean assertions): the verdict is the truth about the round's assertions
        BoolNames(ts) == SetToSeqBy(UNION {FreeNames(ts[j]) : j \in 1..Len(ts)})
        Satisfiable(ts) == LET ns == BoolNames(ts)
                           IN  \E bits \in [1..Len(ns) -> BOOLEAN] :
                                   AllTrue(ts, ModelOf([j \in 1..Len(ns) |-> [n |-> ns[j], v |-> BoolC(bits[j])]]))
        Expected(rd) == IF "decide" \in DOMAIN rd /\ rd.decide THEN (IF Satisfiable(rd.asserts) THEN "sat" ELSE "unsat") ELSE rd.verdict
        someone == \E i \in 1..n : Answers(e.beh[i])
        Bad(r) ==
            LET rd == e.rounds[r] IN
            (IF someone THEN <<>> \o Fl("returns_members_verdict", rd.res = Expected(rd))
                        ELSE Fl("reports_error_when_every_member_fails", rd.res = "raised")) \o
            Fl("never_blocks_forever", rd.res # "blocked") \o
            Fl("only_the_winner_serves_control_commands", \A j \in 1..Len(rd.served) : rd.served[j] = rd.winner) \o
            (IF rd.res = "sat" /\ rd.has_model
             THEN Fl("model_satisfies_assertions", AllTrue(rd.asserts, ModelOf(rd.model))) \o
                  Fl("value_agrees_with_model", rd.value = "true")
             ELSE <<>>)
        RECURSIVE AllBad(_)
        AllBad(r) == IF r = 0 THEN <<>> ELSE AllBad(r - 1) \o Bad(r)
    IN  Verdict(AllBad(Len(e.rounds)), <<>>, -1)

=============================================================================
