------------------------------- MODULE DagShapes -------------------------------
(* All DAG shapes over nodes 1..n with bounded fan-out in which node n reaches every node.
   A shape is a sequence: kids[m] = sequence of children of node m, all smaller than m. *)
EXTENDS Integers, Sequences, FiniteSets

SeqsUpTo(S, k) == UNION {[1..m -> S] : m \in 0..k}

RECURSIVE Reach(_, _)
Reach(k, n) == {n} \cup UNION {Reach(k, k[n][j]) : j \in 1..Len(k[n])}

RECURSIVE AllShapes(_, _)
AllShapes(n, fan) == IF n = 0 THEN {<<>>}
                     ELSE {Append(s, ks) : s \in AllShapes(n - 1, fan), ks \in SeqsUpTo(1..(n - 1), fan)}

RootedShapes(n, fan) == {k \in AllShapes(n, fan) : Reach(k, n) = 1..n}
=============================================================================
