------------------------------- MODULE DagWalker -------------------------------
(***************************************************************************)
(* Implementation-shaped model of pysmt.walkers.dag.DagWalker (C14, C15,    *)
(* C20): the explicit work stack, the memo, the two-phase processing        *)
(* (expand a node, later compute it), the failure path.                     *)
(*                                                                         *)
(* The formula is a DAG over nodes 1..N; kids[n] is the sequence of child   *)
(* nodes of n (all smaller than n).  One behaviour = a sequence of walks    *)
(* requested by the environment on one long-lived walker instance.          *)
(*   stack   sequence of <<expanded, node>>      (self.stack)               *)
(*   memo    set of nodes with a memoised result (self.memoization)         *)
(*   visits  node |-> number of times its walk_* callback ran IN THIS WALK  *)
(*   pushes  number of stack pushes in this walk                            *)
(*   pc      "idle" | "walking" | "failed"                                  *)
(* Parameters: OneShot (invalidate_memoization), Faulty (set of nodes whose *)
(* callback raises), CleanOnFailure (the fix: clear stack / one-shot memo   *)
(* when a walk aborts).                                                     *)
(***************************************************************************)
EXTENDS Integers, Sequences, FiniteSets, TLC

CONSTANTS N, MaxFan, OneShot, CleanOnFailure, MaxWalks

VARIABLES kids, faulty, stack, memo, visits, pushes, pc, root, walks, stale

vars == <<kids, faulty, stack, memo, visits, pushes, pc, root, walks, stale>>

Nodes == 1..N
DS == INSTANCE DagShapes
Reach(k, n) == DS!Reach(k, n)

Edges(k, r) == LET R == Reach(k, r) IN
               LET RECURSIVE Sum(_)
                   Sum(S) == IF S = {} THEN 0 ELSE LET x == CHOOSE x \in S : TRUE IN Len(k[x]) + Sum(S \ {x})
               IN  Sum(R)

\* every DAG shape over N nodes with fan-out <= MaxFan in which node N reaches every node
Shapes == DS!RootedShapes(N, MaxFan)

Init == /\ kids \in Shapes
        /\ faulty \in {{}} \cup {{n} : n \in Nodes}
        /\ stack = <<>> /\ memo = {} /\ visits = [n \in Nodes |-> 0] /\ pushes = 0
        /\ pc = "idle" /\ root = N /\ walks = 0 /\ stale = FALSE

\* walk(formula): memo hit returns at once; otherwise push the root
StartWalk(r) ==
    /\ pc \in {"idle", "failed"} /\ walks < MaxWalks
    /\ root' = r /\ walks' = walks + 1
    /\ visits' = [n \in Nodes |-> 0] /\ pushes' = IF r \in memo THEN 0 ELSE 1
    /\ stale' = (stack # <<>>)              \* work of an aborted walk is still on the stack
    /\ IF r \in memo THEN pc' = "idle" /\ stack' = stack
                     ELSE pc' = "walking" /\ stack' = Append(stack, <<FALSE, r>>)
    /\ UNCHANGED <<kids, faulty, memo>>

\* _push_with_children_to_stack
Expand ==
    /\ pc = "walking" /\ stack # <<>> /\ ~stack[Len(stack)][1]
    /\ LET n == stack[Len(stack)][2]
           rest == SubSeq(stack, 1, Len(stack) - 1)
           newk == SelectSeq(kids[n], LAMBDA c : c \notin memo)
       IN  /\ stack' = rest \o <<<<TRUE, n>>>> \o [j \in 1..Len(newk) |-> <<FALSE, newk[j]>>]
           /\ pushes' = pushes + 1 + Len(newk)
    /\ UNCHANGED <<kids, faulty, memo, visits, pc, root, walks, stale>>

\* _compute_node_result: the callback runs only if the node is not memoised
Compute ==
    /\ pc = "walking" /\ stack # <<>> /\ stack[Len(stack)][1]
    /\ LET n == stack[Len(stack)][2]
           rest == SubSeq(stack, 1, Len(stack) - 1)
       IN  IF n \in memo THEN stack' = rest /\ UNCHANGED <<memo, visits, pc>>
           ELSE IF n \in faulty
                THEN \* the callback raises: the exception leaves iter_walk
                     /\ visits' = [visits EXCEPT ![n] = @ + 1]
                     /\ pc' = "failed"
                     /\ IF CleanOnFailure
                        THEN stack' = <<>> /\ memo' = IF OneShot THEN {} ELSE memo
                        ELSE stack' = rest /\ memo' = memo
                ELSE /\ \A j \in 1..Len(kids[n]) : kids[n][j] \in memo    \* children's results exist
                     /\ visits' = [visits EXCEPT ![n] = @ + 1]
                     /\ memo' = memo \cup {n} /\ stack' = rest /\ UNCHANGED pc
    /\ UNCHANGED <<kids, faulty, pushes, root, walks, stale>>

\* the stack is empty: the walk returns memo[root]
Finish ==
    /\ pc = "walking" /\ stack = <<>>
    /\ pc' = "idle"
    /\ memo' = IF OneShot THEN {} ELSE memo
    /\ UNCHANGED <<kids, faulty, stack, visits, pushes, root, walks, stale>>

\* the environment may repair the faulty node between walks (a later VALID call)
Next == \/ \E r \in Nodes : StartWalk(r)
        \/ Expand \/ Compute \/ Finish
        \/ (pc = "failed" /\ faulty # {} /\ faulty' = {} /\ UNCHANGED <<kids, stack, memo, visits, pushes, pc, root, walks, stale>>)

Spec == Init /\ [][Next]_vars /\ WF_vars(Expand \/ Compute \/ Finish)

\* ---- properties
VisitOnce == \A n \in Nodes : visits[n] <= 1
PushBound == pushes <= 2 * (Edges(kids, root) + 1)
\* a finished walk has memoised its root (unless one-shot) and visited only reachable nodes
VisitsOnlyReachable == \A n \in Nodes : visits[n] > 0 => n \in Reach(kids, root) \/ stale
\* C15: a walk never starts on top of left-over work of an aborted walk
FailureTransparent == ~stale
\* the callback of a node never runs before its children are memoised (otherwise the walk
\* crashes with KeyError): holds in every reachable state of a walk that did not start stale
ChildrenFirst == (pc = "walking" /\ ~stale /\ stack # <<>> /\ stack[Len(stack)][1] /\ stack[Len(stack)][2] \notin memo
                  /\ stack[Len(stack)][2] \notin faulty)
                 => \A j \in 1..Len(kids[stack[Len(stack)][2]]) : kids[stack[Len(stack)][2]][j] \in memo
WalkTerminates == (pc = "walking") ~> (pc \in {"idle", "failed"})
=============================================================================
