------------------------------- MODULE Derived -------------------------------
(***************************************************************************)
(* The mathematical function named by every derived constructor and infix   *)
(* operator of pySMT (C06).  Named(name, vs, ts, p) is the value the        *)
(* construction must denote when its FNode arguments evaluate to vs (of     *)
(* sorts ts) and its Python-level parameters are p.                         *)
(***************************************************************************)
EXTENDS SmtInterps

CountTrue(vs) == Cardinality({j \in 1..Len(vs) : vs[j]})
LeqV(ty, a, b) == CASE ty.k = "Int" -> a <= b [] ty.k = "Real" -> QLe(a, b) [] OTHER -> a <= b
SLeq(w, a, b) == BVSigned(a, w) <= BVSigned(b, w)

MinBy(vs, le(_, _)) == vs[CHOOSE j \in 1..Len(vs) : \A k \in 1..Len(vs) : le(vs[j], vs[k])]
MaxBy(vs, le(_, _)) == vs[CHOOSE j \in 1..Len(vs) : \A k \in 1..Len(vs) : le(vs[k], vs[j])]

RECURSIVE FoldBV(_, _, _)
\* left fold of a binary bit-vector function code over vs
FoldBV(code, vs, w) ==
    IF Len(vs) = 1 THEN vs[1]
    ELSE LET l == FoldBV(code, SubSeq(vs, 1, Len(vs) - 1), w)
             r == vs[Len(vs)]
         IN  CASE code = "and" -> BVBitwise(1, l, r, w)
               [] code = "or" -> BVBitwise(2, l, r, w)
               [] code = "add" -> BVAdd(l, r, w)
               [] OTHER -> BVMul(l, r, w)

RECURSIVE ConcatVals(_, _)
\* concatenation of values vs with widths ws: first is most significant
ConcatVals(vs, ws) ==
    IF Len(vs) = 1 THEN vs[1]
    ELSE BVConcat(ConcatVals(SubSeq(vs, 1, Len(vs) - 1), SubSeq(ws, 1, Len(ws) - 1)), vs[Len(vs)], ws[Len(ws)])

RECURSIVE RepeatVal(_, _, _)
RepeatVal(v, w, n) == IF n <= 1 THEN v ELSE BVConcat(RepeatVal(v, w, n - 1), v, w)

ArithBin(name, ty, a, b) ==
    LET w == ty.w IN
    CASE ty.k = "Int" ->
            (CASE name = "add" -> a + b [] name = "sub" -> a - b [] name = "mul" -> a * b
               [] name = "gt" -> a > b [] name = "ge" -> a >= b [] name = "lt" -> a < b [] name = "le" -> a <= b
               [] name = "div" -> IF b = 0 THEN 0 ELSE IntDiv(a, b))
      [] ty.k = "Real" ->
            (CASE name = "add" -> QAdd(a, b) [] name = "sub" -> QSub(a, b) [] name = "mul" -> QMul(a, b)
               [] name = "gt" -> QLt(b, a) [] name = "ge" -> QLe(b, a) [] name = "lt" -> QLt(a, b) [] name = "le" -> QLe(a, b)
               [] name = "div" -> IF QIsZero(b) THEN <<0, 1>> ELSE QDiv(a, b))
      [] ty.k = "BV" ->
            (CASE name = "add" -> BVAdd(a, b, w) [] name = "sub" -> BVSub(a, b, w) [] name = "mul" -> BVMul(a, b, w)
               [] name = "gt" -> a > b [] name = "ge" -> a >= b [] name = "lt" -> a < b [] name = "le" -> a <= b
               [] name = "div" -> BVUDiv(a, b, w) [] name = "mod" -> BVURem(a, b, w)
               [] name = "and" -> BVBitwise(1, a, b, w) [] name = "or" -> BVBitwise(2, a, b, w)
               [] name = "xor" -> BVBitwise(3, a, b, w)
               [] name = "lshift" -> BVShl(a, b, w) [] name = "rshift" -> BVLShr(a, b, w))
      [] ty.k = "Bool" ->
            (CASE name = "and" -> a /\ b [] name = "or" -> a \/ b [] name = "xor" -> a # b)

Named(name, vs, ts, p) ==
    LET n == Len(vs)
        w == IF n >= 1 /\ ts[1].k = "BV" THEN ts[1].w ELSE 0
    IN
    CASE name = "GE" -> LeqV(ts[1], vs[2], vs[1])
      [] name = "GT" -> LeqV(ts[1], vs[2], vs[1]) /\ vs[1] # vs[2]
      [] name = "NotEquals" -> vs[1] # vs[2]
      [] name = "EqualsOrIff" -> vs[1] = vs[2]
      [] name = "Xor" -> vs[1] # vs[2]
      [] name = "AtMostOne" -> CountTrue(vs) <= 1
      [] name = "ExactlyOne" -> CountTrue(vs) = 1
      [] name = "AllDifferent" -> \A i, j \in 1..n : i # j => vs[i] # vs[j]
      [] name = "Min" -> MinBy(vs, LAMBDA a, b : LeqV(ts[1], a, b))
      [] name = "Max" -> MaxBy(vs, LAMBDA a, b : LeqV(ts[1], a, b))
      [] name = "MinBV" -> IF p[1] = 1 THEN MinBy(vs, LAMBDA a, b : SLeq(w, a, b)) ELSE MinBy(vs, LAMBDA a, b : a <= b)
      [] name = "MaxBV" -> IF p[1] = 1 THEN MaxBy(vs, LAMBDA a, b : SLeq(w, a, b)) ELSE MaxBy(vs, LAMBDA a, b : a <= b)
      [] name = "Abs" -> IF ts[1].k = "Int" THEN Abs(vs[1]) ELSE (IF vs[1][1] < 0 THEN <<-vs[1][1], vs[1][2]>> ELSE vs[1])
      [] name = "SBV" -> BVOfSigned(p[1], p[2])
      [] name = "BVOne" -> 1
      [] name = "BVZero" -> 0
      [] name = "BVSMod" -> BVSModM(vs[1], vs[2], w)
      [] name = "BVNand" -> BVNot(BVBitwise(1, vs[1], vs[2], w), w)
      [] name = "BVNor" -> BVNot(BVBitwise(2, vs[1], vs[2], w), w)
      [] name = "BVXnor" -> BVNot(BVBitwise(3, vs[1], vs[2], w), w)
      [] name = "BVUGT" -> vs[1] > vs[2]
      [] name = "BVUGE" -> vs[1] >= vs[2]
      [] name = "BVSGT" -> BVSigned(vs[1], w) > BVSigned(vs[2], w)
      [] name = "BVSGE" -> BVSigned(vs[1], w) >= BVSigned(vs[2], w)
      [] name = "BVRepeat" -> RepeatVal(vs[1], w, p[1])
      [] name = "BVAndN" -> FoldBV("and", vs, w)
      [] name = "BVOrN" -> FoldBV("or", vs, w)
      [] name = "BVAddN" -> FoldBV("add", vs, w)
      [] name = "BVMulN" -> FoldBV("mul", vs, w)
      [] name = "BVConcatN" -> ConcatVals(vs, [j \in 1..n |-> ts[j].w])
      [] name = "BVLShlInt" -> BVShl(vs[1], p[1], w)
      [] name = "BVLShrInt" -> BVLShr(vs[1], p[1], w)
      [] name = "BVAShrInt" -> BVAShr(vs[1], p[1], w)
      \* ---- Python infix operators and methods; vs = <<self, other>>
      [] name \in {"add", "sub", "mul", "gt", "ge", "lt", "le", "div", "mod", "and", "or", "xor", "lshift", "rshift"} ->
            ArithBin(name, ts[1], vs[1], vs[2])
      [] name \in {"radd", "rmul", "rand", "ror", "rxor"} ->
            ArithBin(CASE name = "radd" -> "add" [] name = "rmul" -> "mul" [] name = "rand" -> "and"
                       [] name = "ror" -> "or" [] OTHER -> "xor", ts[1], vs[2], vs[1])
      [] name = "rsub" -> ArithBin("sub", ts[1], vs[2], vs[1])      \* other - self
      [] name = "neg" -> CASE ts[1].k = "Int" -> -vs[1] [] ts[1].k = "Real" -> <<-vs[1][1], vs[1][2]>> [] OTHER -> BVNeg(vs[1], w)
      [] name = "invert" -> IF ts[1].k = "Bool" THEN ~vs[1] ELSE BVNot(vs[1], w)
      [] name = "getitem" -> BVExtract(vs[1], p[1], p[2])
      [] name = "m_Implies" -> (~vs[1]) \/ vs[2]
      [] name = "m_Iff" -> vs[1] = vs[2]
      [] name = "m_Equals" -> vs[1] = vs[2]
      [] name = "m_NotEquals" -> vs[1] # vs[2]
      [] name = "m_Ite" -> IF vs[1] THEN vs[2] ELSE vs[3]
      [] name = "m_And" -> vs[1] /\ vs[2]
      [] name = "m_Or" -> vs[1] \/ vs[2]
      [] name = "m_BVSMod" -> BVSModM(vs[1], vs[2], w)
      [] name = "m_BVNand" -> BVNot(BVBitwise(1, vs[1], vs[2], w), w)
      [] name = "m_BVSGE" -> BVSigned(vs[1], w) >= BVSigned(vs[2], w)
      [] name = "m_BVUGT" -> vs[1] > vs[2]
      [] name = "m_BVComp" -> IF vs[1] = vs[2] THEN 1 ELSE 0
      [] name = "m_BVConcat" -> BVConcat(vs[1], vs[2], ts[2].w)
      [] name = "m_BVExtract" -> BVExtract(vs[1], p[1], p[2])
      [] name = "m_BVRepeat" -> RepeatVal(vs[1], w, p[1])
      [] name = "m_BVRol" -> BVRol(vs[1], p[1], w)
      [] name = "m_BVRor" -> BVRor(vs[1], p[1], w)
      [] name = "m_BVZExt" -> vs[1]
      [] name = "m_BVSExt" -> BVSExt(vs[1], p[1], w)
      [] name = "m_BVAShr" -> BVAShr(vs[1], vs[2], w)
      [] name = "m_BVSDiv" -> BVSDivT(vs[1], vs[2], w)
      [] name = "m_BVSRem" -> BVSRemT(vs[1], vs[2], w)
      [] name = "m_BVXnor" -> BVNot(BVBitwise(3, vs[1], vs[2], w), w)
      [] name = "m_Select" -> ArrGet(vs[1], vs[2])
      [] name = "m_Store" -> ArrStore(ts[1].a[1], vs[1], vs[2], vs[3])

\* sort of the result
NamedSort(name, ts, p) ==
    CASE name \in {"GE", "GT", "NotEquals", "EqualsOrIff", "Xor", "AtMostOne", "ExactlyOne", "AllDifferent",
                   "BVUGT", "BVUGE", "BVSGT", "BVSGE", "gt", "ge", "lt", "le",
                   "m_Implies", "m_Iff", "m_Equals", "m_NotEquals", "m_And", "m_Or", "m_BVSGE", "m_BVUGT"} -> TBool
      [] name \in {"SBV"} -> TBV(p[2])
      [] name \in {"BVOne", "BVZero"} -> TBV(p[1])
      [] name \in {"BVRepeat", "m_BVRepeat"} -> TBV(ts[1].w * p[1])
      [] name = "BVConcatN" -> TBV(SumInts([j \in 1..Len(ts) |-> ts[j].w]))
      [] name = "m_BVConcat" -> TBV(ts[1].w + ts[2].w)
      [] name \in {"getitem", "m_BVExtract"} -> TBV(p[2] - p[1] + 1)
      [] name \in {"m_BVZExt", "m_BVSExt"} -> TBV(ts[1].w + p[1])
      [] name = "m_BVComp" -> TBV(1)
      [] name = "m_Ite" -> ts[2]
      [] name = "m_Select" -> ts[1].a[2]
      [] OTHER -> ts[1]
=============================================================================
