------------------------------ MODULE Environment ------------------------------
(***************************************************************************)
(* The environment as the user sees it (C14, C15): an object on which calls *)
(* are made one after the other.  ABSTRACT SPECIFICATION: every query or    *)
(* transformation is a pure function of its arguments - the state that the  *)
(* implementation keeps between calls (formula table, value caches, walker  *)
(* memos and stacks, parser caches, fresh-name counter) is unobservable:    *)
(*                                                                         *)
(*     result(history \o <<call>>) = Pure(call)        up to ResultEq       *)
(*                                                                         *)
(* and a failing call is observably a no-op:                                *)
(*     result(h1 \o <<failing>> \o h2 \o <<call>>) = result(h1 \o h2 \o <<call>>) *)
(*                                                                         *)
(* The machine below enumerates the histories (the `calls` are opaque ids   *)
(* interpreted by the harness catalogue): good calls 1..NGood, failing      *)
(* calls NGood+1..NGood+NFail, and a fixed probe suite run afterwards on    *)
(* the environment that saw the history (A) and on its twin that saw the    *)
(* history without the failing calls (B).  ResultEq is equality up to the   *)
(* order of commutative arguments and a bijection of fresh symbol names.    *)
(***************************************************************************)
EXTENDS Integers, Sequences, FiniteSets, TLC

CONSTANTS NGood, NFail, MaxLen, MinFail

VARIABLES hist
Init == hist = <<>>
Next == Len(hist) < MaxLen /\ \E c \in 1..(NGood + NFail) : hist' = Append(hist, c)
Spec == Init /\ [][Next]_hist

IsFail(c) == c > NGood
NFailsIn(h) == Cardinality({i \in 1..Len(h) : IsFail(h[i])})
\* the twin history
RECURSIVE Twin(_)
Twin(h) == IF h = <<>> THEN <<>> ELSE (IF IsFail(Head(h)) THEN <<>> ELSE <<Head(h)>>) \o Twin(Tail(h))

RECURSIVE Hists(_)
Hists(n) == IF n = 0 THEN {<<>>} ELSE {Append(h, c) : h \in Hists(n - 1), c \in 1..(NGood + NFail)}
AllHists_(z) == {h \in UNION {Hists(n) : n \in 0..MaxLen} : NFailsIn(h) >= MinFail}
=============================================================================
