------------------------------- MODULE FMCalls -------------------------------
(* The constructor calls (documented spellings and normalisations) of C04 and their denotations *)
EXTENDS SmtTypes

P == Sym("p", TBool)
Q == Sym("q", TBool)
X == Sym("x", TInt)
R == Sym("r", TReal)
B == Sym("b", TBV(2))
C == Sym("c", TBV(2))
D == Sym("d", TBV(2))
F0 == Sym("k0", TInt)              \* a 0-ary "function"
Half == RealC(<<1, 2>>)
Two == RealC(<<2, 1>>)
Third == RealC(<<1, 3>>)
\* numbers beyond TLC's 32-bit integers are denoted symbolically by their exact decimal spelling (only their
\* identity matters here): "Q:num/den" / "Z:num", as written by harness/term_io.py in SYMBOLIC_BIG mode
RealBig(sp) == Node("real_constant", <<>>, sp, TNone, <<0, 0>>, <<>>, <<>>)
IntBig(sp) == Node("int_constant", <<>>, sp, TNone, <<0>>, <<>>, <<>>)
ThirdAsFloat == RealBig("Q:6004799503160661/18014398509481984")       \* the double nearest to 1/3, exactly
AndPQ == Op("and", <<P, Q>>)
K0 == ArrV(TInt, <<IntC(0)>>)
K0x == ArrV(TInt, <<IntC(0), IntC(1), IntC(5), IntC(2), IntC(7)>>)

\* call name |-> denotation; pykey = key of the Python-level cache the call goes through
\* ("" = none), used by the implementation-shaped model only
Call(name, den, cache, pykey) == [name |-> name, den |-> den, cache |-> cache, pykey |-> pykey]
Calls == <<
  Call("Int(2)", IntC(2), "int", "2"), Call("Int(-1)", IntC(-1), "int", "-1"),
  Call("Real(2)", Two, "real", "2"), Call("Real(Fraction(2))", Two, "real", "2"), Call("Real(2.0)", Two, "real", "2"),
  Call("Real((2,1))", Two, "real", "(2,1)"), Call("Real((4,2))", Two, "real", "(4,2)"),
  Call("Real(Fraction(1,2))", Half, "real", "1/2"), Call("Real(0.5)", Half, "real", "1/2"),
  Call("Real((1,2))", Half, "real", "(1,2)"), Call("Real((2,4))", Half, "real", "(2,4)"),
  Call("BV(2,2)", BVC(2, 2), "", ""), Call("BV('10')", BVC(2, 2), "", ""), Call("BV('#b10')", BVC(2, 2), "", ""),
  Call("SBV(-2,2)", BVC(2, 2), "", ""), Call("SBV(-4,3)", BVC(4, 3), "", ""), Call("SBV(-1,1)", BVC(1, 1), "", ""), Call("SBV(3,3)", BVC(3, 3), "", ""),
  Call("SBV(-128,8)", BVC(128, 8), "", ""), Call("BV(128,8)", BVC(128, 8), "", ""), Call("SBV(-1,8)", BVC(255, 8), "", ""), Call("BV(2,3)", BVC(2, 3), "", ""),
  Call("String('a')", StrC(<<97>>), "str", "a"), Call("Bool(True)", BoolC(TRUE), "", ""), Call("TRUE()", BoolC(TRUE), "", ""),
  Call("Symbol(p)", P, "sym", "p"), Call("Symbol(x,INT)", X, "sym", "x"),
  Call("And(p,q)", AndPQ, "", ""), Call("And([p,q])", AndPQ, "", ""), Call("And((p,q))", AndPQ, "", ""),
  Call("And(generator)", AndPQ, "", ""), Call("And(q,p)", Op("and", <<Q, P>>), "", ""),
  Call("And()", BoolC(TRUE), "", ""), Call("And(p)", P, "", ""), Call("Or()", BoolC(FALSE), "", ""),
  Call("Not(Not(p))", P, "", ""), Call("Not(p)", Op("not", <<P>>), "", ""),
  Call("GE(x,2)", Op("le", <<IntC(2), X>>), "", ""), Call("LE(2,x)", Op("le", <<IntC(2), X>>), "", ""),
  Call("GT(x,2)", Op("lt", <<IntC(2), X>>), "", ""), Call("Plus(x)", X, "", ""), Call("Times([x])", X, "", ""),
  Call("ToReal(Int(2))", Two, "", ""), Call("ToReal(r)", R, "", ""),
  Call("Div(r,Real(2))", Op("times", <<R, Half>>), "", ""), Call("Times(r,Real(1/2))", Op("times", <<R, Half>>), "", ""),
  Call("Function(k0,[])", F0, "", ""), Call("ForAll([],p)", P, "", ""), Call("Exists([],And(p,q))", AndPQ, "", ""),
  Call("Array(INT,0)", K0, "", ""), Call("Array(INT,0,{1:0})", K0, "", ""),
  Call("Array(INT,0,{1:5,2:7})", K0x, "", ""), Call("Array(INT,0,{2:7,1:5,3:0})", K0x, "", ""),
  Call("BVRepeat(b,1)", B, "", ""), Call("BVConcat(b,b)", OpI("bv_concat", <<B, B>>, <<4>>), "", ""),
  Call("BVRepeat(b,2)", OpI("bv_concat", <<B, B>>, <<4>>), "", ""),
  Call("BVAnd(b,c,d)", OpI("bv_and", <<OpI("bv_and", <<B, C>>, <<2>>), D>>, <<2>>), "", ""),
  Call("BVAnd(BVAnd(b,c),d)", OpI("bv_and", <<OpI("bv_and", <<B, C>>, <<2>>), D>>, <<2>>), "", ""),
  Call("Xor(p,q)", Op("not", <<Op("iff", <<P, Q>>)>>), "", ""), Call("Not(Iff(p,q))", Op("not", <<Op("iff", <<P, Q>>)>>), "", ""),
  Call("NotEquals(x,2)", Op("not", <<Op("equals", <<X, IntC(2)>>)>>), "", ""),
  Call("EqualsOrIff(p,q)", Op("iff", <<P, Q>>), "", ""), Call("Iff(p,q)", Op("iff", <<P, Q>>), "", ""),
  Call("Pow(Real(2),Real(2))", RealC(<<4, 1>>), "", ""), Call("Real(4)", RealC(<<4, 1>>), "real", "4"),
  \* a non-dyadic value: the pair, the Fraction and the (inexact) float are three different numbers / keys
  Call("Real((1,3))", Third, "real", "(1,3)"), Call("Real(Fraction(1,3))", Third, "real", "1/3"), Call("Real((2,6))", Third, "real", "(2,6)"),
  Call("Real(1/3.0)", ThirdAsFloat, "real", "float(1/3)"), Call("Real(Fraction(1/3.0))", ThirdAsFloat, "real", "float(1/3)"),
  \* magnitudes beyond the 53-bit mantissa of a double
  Call("Real((2**60+1,1))", RealBig("Q:1152921504606846977/1"), "real", "(2**60+1,1)"),
  Call("Real(2**60)", RealBig("Q:1152921504606846976/1"), "real", "2**60"),
  Call("Real(float(2**60))", RealBig("Q:1152921504606846976/1"), "real", "2**60"),
  Call("Int(2**60+1)", IntBig("Z:1152921504606846977"), "int", "2**60+1"), Call("Int(2**60)", IntBig("Z:1152921504606846976"), "int", "2**60"),
  \* parameters are part of the structure: a rotation / extension by the full width or by zero is another node than the identity
  Call("BVRol(b,2)", OpI("bv_rol", <<B>>, <<2, 2>>), "", ""), Call("BVRol(b,0)", OpI("bv_rol", <<B>>, <<2, 0>>), "", ""),
  Call("BVRor(b,2)", OpI("bv_ror", <<B>>, <<2, 2>>), "", ""), Call("BVRor(b,0)", OpI("bv_ror", <<B>>, <<2, 0>>), "", ""),
  Call("BVRol(b,1)", OpI("bv_rol", <<B>>, <<2, 1>>), "", ""), Call("BVZExt(b,0)", OpI("bv_zext", <<B>>, <<2, 0>>), "", ""),
  Call("BVExtract(b,0,1)", OpI("bv_extract", <<B>>, <<2, 0, 1>>), "", ""),
  \* the Python infix operators and methods are one more route to the same structures (a slice names both ends
  \* inclusively; a missing end is the last / first bit; a bound that is 0 is a bound, not a missing one)
  Call("b[0:1]", OpI("bv_extract", <<B>>, <<2, 0, 1>>), "", ""), Call("b[:]", OpI("bv_extract", <<B>>, <<2, 0, 1>>), "", ""),
  Call("BVExtract(b,0,0)", OpI("bv_extract", <<B>>, <<1, 0, 0>>), "", ""), Call("b[0:0]", OpI("bv_extract", <<B>>, <<1, 0, 0>>), "", ""),
  Call("b[:0]", OpI("bv_extract", <<B>>, <<1, 0, 0>>), "", ""), Call("b[0]", OpI("bv_extract", <<B>>, <<1, 0, 0>>), "", ""),
  Call("BVExtract(b,1,1)", OpI("bv_extract", <<B>>, <<1, 1, 1>>), "", ""), Call("b[1:]", OpI("bv_extract", <<B>>, <<1, 1, 1>>), "", ""),
  Call("b[1]", OpI("bv_extract", <<B>>, <<1, 1, 1>>), "", ""),
  Call("p & q", Op("and", <<P, Q>>), "", ""), Call("p.And(q)", Op("and", <<P, Q>>), "", ""), Call("~p", Op("not", <<P>>), "", ""),
  \* the empty sequence of bound variables in every spelling (a lazy iterable is always "truthy")
  Call("ForAll(iter([]),p)", P, "", ""), Call("Exists(generator of nothing,And(p,q))", Op("and", <<P, Q>>), "", ""),
  Call("ForAll(filter nothing,p)", P, "", ""),
  Call("x >= 2", Op("le", <<IntC(2), X>>), "", ""), Call("b & c & d", OpI("bv_and", <<OpI("bv_and", <<B, C>>, <<2>>), D>>, <<2>>), "", "") >>

NCalls == Len(Calls)
Den(i) == Calls[i].den

=============================================================================
