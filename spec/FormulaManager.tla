--------------------------- MODULE FormulaManager ---------------------------
(***************************************************************************)
(* Hash-consing formula manager (C04).                                      *)
(*                                                                         *)
(* Calls: every documented spelling / constructor normalisation is a named  *)
(* call whose DENOTATION (the structure it must return) is stated here.     *)
(* Abstract property: within one environment two results are the same       *)
(* object exactly when their denotations are equal, and the accessors read  *)
(* back the denotation.                                                     *)
(*                                                                         *)
(* Implementation-shaped state machine: the node table `tab` maps node      *)
(* CONTENT (operator, payload, child ids) to a node id; the constant caches *)
(* `intc`, `realc`, `strc` are keyed by PYTHON VALUE EQUALITY (2 == 2.0 ==  *)
(* Fraction(2), while the pair (2,1) is a different key) and `symtab` by    *)
(* name - these are the mechanisms that are meant to make the property hold.*)
(***************************************************************************)
EXTENDS FMCalls

\* ------------------------------------------------------------------------
\* implementation-shaped machine
CONSTANT MaxLen
VARIABLES tab,        \* content |-> node id        (FormulaManager.formulae)
          store,      \* node id |-> content
          caches,     \* [int, real, str, sym] : python key |-> node id
          nextId,
          hist,       \* sequence of call indices
          rets        \* sequence of returned node ids

vars == <<tab, store, caches, nextId, hist, rets>>

\* content of a node: operator, non-FNode payload, child ids
Content(t, kids) == [op |-> t.op, n |-> t.n, ty |-> t.ty, i |-> t.i, s |-> t.s, bv |-> t.bv, kids |-> kids]

\* create_node over a table: returns <<table, store, nextId, id>>; children are created first
RECURSIVE Mk(_, _, _, _)
RECURSIVE MkAll(_, _, _, _, _)
MkAll(ts, tb, sto, nid, acc) ==
    IF ts = <<>> THEN <<tb, sto, nid, acc>>
    ELSE LET r == Mk(Head(ts), tb, sto, nid) IN MkAll(Tail(ts), r[1], r[2], r[3], Append(acc, r[4]))
Mk(t, tb, sto, nid) ==
    LET ks == MkAll(t.a, tb, sto, nid, <<>>)
        c == Content(t, ks[4])
    IN  IF c \in DOMAIN ks[1] THEN <<ks[1], ks[2], ks[3], ks[1][c]>>
        ELSE << [x \in DOMAIN ks[1] \cup {c} |-> IF x = c THEN ks[3] ELSE ks[1][x]],
                [x \in DOMAIN ks[2] \cup {ks[3]} |-> IF x = ks[3] THEN c ELSE ks[2][x]],
                ks[3] + 1, ks[3] >>

EmptyF == [x \in {} |-> 0]
Init == tab = EmptyF /\ store = EmptyF /\ caches = [int |-> EmptyF, real |-> EmptyF, str |-> EmptyF, sym |-> EmptyF]
        /\ nextId = 1 /\ hist = <<>> /\ rets = <<>>

DoCall(i) ==
    LET cl == Calls[i]
        hit == cl.cache # "" /\ cl.pykey \in DOMAIN caches[cl.cache]
    IN  /\ hist' = Append(hist, i)
        /\ IF hit
           THEN /\ rets' = Append(rets, caches[cl.cache][cl.pykey])
                /\ UNCHANGED <<tab, store, caches, nextId>>
           ELSE LET r == Mk(cl.den, tab, store, nextId)
                IN  /\ tab' = r[1] /\ store' = r[2] /\ nextId' = r[3]
                    /\ rets' = Append(rets, r[4])
                    /\ caches' = IF cl.cache = "" THEN caches
                                 ELSE [caches EXCEPT ![cl.cache] =
                                          [k \in DOMAIN @ \cup {cl.pykey} |-> IF k = cl.pykey THEN r[4] ELSE @[k]]]

Next == Len(hist) < MaxLen /\ \E i \in 1..NCalls : DoCall(i)
Spec == Init /\ [][Next]_vars

\* read a node back from the store
RECURSIVE ReadBack(_)
ReadBack(id) == LET c == store[id]
                IN  Node(c.op, [j \in 1..Len(c.kids) |-> ReadBack(c.kids[j])], c.n, c.ty, c.i, c.s, c.bv)

\* ---- properties
OneObjectPerStructure ==
    \A i, j \in 1..Len(hist) : (rets[i] = rets[j]) <=> (Den(hist[i]) = Den(hist[j]))
AccessorFidelity == \A i \in 1..Len(hist) : ReadBack(rets[i]) = Den(hist[i])
TableInjective == \A c1, c2 \in DOMAIN tab : tab[c1] = tab[c2] => c1 = c2
CachesAgree ==
    \A cn \in {"int", "real", "str", "sym"} : \A k \in DOMAIN caches[cn] :
        \E i \in 1..NCalls : Calls[i].cache = cn /\ Calls[i].pykey = k /\ ReadBack(caches[cn][k]) = Den(i)
=============================================================================
