------------------------------- MODULE Logics --------------------------------
(***************************************************************************)
(* Theories and logics (C13).                                               *)
(*  - a theory is a record of 12 flags, a logic is [name, qf, th]           *)
(*  - Expressible(th, qf): the features a theory / logic enables            *)
(*  - Features(t): the features a formula uses, extracted from its          *)
(*    structure independently of pySMT's TheoryOracle                       *)
(*  - TheoryLE / TheoryCombine: implementation-shaped transcriptions of     *)
(*    Theory.__le__ / Theory.combine, model-checked in mc/MC_Logics         *)
(*  - contracts over RECORDED results of the real code: detection covers    *)
(*    the formula; the recorded order is a partial order that respects      *)
(*    Expressible; combine is an upper bound; closer / most-generic         *)
(*    selection is sound w.r.t. the recorded order.                         *)
(***************************************************************************)
EXTENDS NormalForms

Flags == {"a", "ac", "bv", "fp", "ia", "ra", "idl", "rdl", "lin", "uf", "ct", "st"}

\* ------------------------------------------------------------- expressiveness
Expressible(th, qf) ==
    (IF th.a THEN {"arrays"} ELSE {}) \cup (IF th.ac THEN {"arrays_const"} ELSE {})
    \cup (IF th.bv THEN {"bit_vectors"} ELSE {}) \cup (IF th.fp THEN {"floating_point"} ELSE {})
    \cup (IF th.ia THEN {"integers"} ELSE {}) \cup (IF th.ra THEN {"reals"} ELSE {})
    \cup (IF th.ia /\ ~th.idl THEN {"int_beyond_difference"} ELSE {})
    \cup (IF th.ra /\ ~th.rdl THEN {"real_beyond_difference"} ELSE {})
    \cup (IF ~th.lin THEN {"nonlinear"} ELSE {})
    \cup (IF th.uf THEN {"uninterpreted"} ELSE {}) \cup (IF th.ct THEN {"custom_sorts"} ELSE {})
    \cup (IF th.st THEN {"strings"} ELSE {}) \cup (IF ~qf THEN {"quantifiers"} ELSE {})

\* the features the PROPERTY lists, and - since fix 42 - arithmetic beyond difference logic: a formula "is never
\* labelled with a logic that cannot express it", and x - y - z <= 3 cannot be expressed in QF_IDL
ListedFeatures == {"arrays", "arrays_const", "bit_vectors", "integers", "reals", "nonlinear",
                   "uninterpreted", "custom_sorts", "strings", "quantifiers",
                   "int_beyond_difference", "real_beyond_difference"}

\* linear form of an arithmetic term over its symbols (integer coefficients); ok = FALSE where the term has another shape
LinAdd(m1, m2, k) == [n \in DOMAIN m1 \cup DOMAIN m2 |-> MapGet(m1, 0, n) + k * MapGet(m2, 0, n)]
RECURSIVE LinOf(_)
LinOf(t) ==
    CASE t.op = "symbol" /\ t.ty.k \in {"Int", "Real"} -> [ok |-> TRUE, m |-> MapPut(EmptyMap, t, 1)]
      [] t.op \in {"int_constant", "real_constant"} -> [ok |-> TRUE, m |-> EmptyMap]
      \* an ite / an application / a select is a "variable" of the atom like a symbol (keyed by the term itself)
      [] t.op \in {"ite", "function", "array_select"} /\ FreeSyms(t) # {} -> [ok |-> TRUE, m |-> MapPut(EmptyMap, t, 1)]
      [] t.op \in {"plus", "minus"} ->
            LET ls == [j \in 1..Len(t.a) |-> LinOf(t.a[j])]
                RECURSIVE Acc(_)
                Acc(j) == IF j = 1 THEN ls[1].m ELSE LinAdd(Acc(j - 1), ls[j].m, IF t.op = "plus" THEN 1 ELSE -1)
            IN  [ok |-> \A j \in 1..Len(ls) : ls[j].ok, m |-> IF \A j \in 1..Len(ls) : ls[j].ok THEN Acc(Len(ls)) ELSE EmptyMap]
      [] t.op = "times" /\ Len(t.a) = 2 /\ t.a[1].op = "int_constant" ->
            LET l == LinOf(t.a[2]) IN [ok |-> l.ok, m |-> LinAdd(EmptyMap, l.m, t.a[1].i[1])]
      [] t.op = "times" /\ Len(t.a) = 2 /\ t.a[2].op = "int_constant" ->
            LET l == LinOf(t.a[1]) IN [ok |-> l.ok, m |-> LinAdd(EmptyMap, l.m, t.a[2].i[1])]
      [] OTHER -> [ok |-> FALSE, m |-> EmptyMap]
\* an atom l ~ r that is DEFINITELY not a difference constraint: more than two symbols, or two whose coefficients are not k / -k
BeyondDifference(l, r) ==
    LET a == LinOf(l) b == LinOf(r)
        m == LinAdd(a.m, b.m, -1)
        vs == {n \in DOMAIN m : m[n] # 0}
        Sum2 == LET p == CHOOSE p \in vs : TRUE q == CHOOSE q \in vs \ {p} : TRUE IN m[p] + m[q]
    IN  a.ok /\ b.ok /\ (Cardinality(vs) > 2 \/ (Cardinality(vs) = 2 /\ Sum2 # 0))       \* k*x - k*y ~ c is a difference constraint

\* ------------------------------------------------------------- features of a formula
RECURSIVE SortFeatures(_)
SortFeatures(ty) ==
    CASE ty.k = "Int" -> {"integers"} [] ty.k = "Real" -> {"reals"} [] ty.k = "BV" -> {"bit_vectors"}
      [] ty.k = "String" -> {"strings"}
      [] ty.k = "Array" -> {"arrays"} \cup SortFeatures(ty.a[1]) \cup SortFeatures(ty.a[2])
      [] ty.k = "Fun" -> {"uninterpreted"} \cup UNION {SortFeatures(ty.a[j]) : j \in 1..Len(ty.a)}
      [] ty.k = "Sort" -> {"custom_sorts"}     \* sort arguments of a parametric sort are not "used" by a term
      [] OTHER -> {}

HasFreeSym(t) == FreeSyms(t) # {}

RECURSIVE Features(_)
Features(t) ==
    LET subs == UNION {Features(t.a[j]) : j \in 1..Len(t.a)}
        own == CASE t.op = "symbol" -> SortFeatures(t.ty)
                 [] t.op = "function" -> {"uninterpreted"} \cup SortFeatures(t.ty)
                 [] t.op \in {"forall", "exists"} -> {"quantifiers"} \cup UNION {SortFeatures(t.bv[j].ty) : j \in 1..Len(t.bv)}
                 [] t.op = "array_value" -> {"arrays", "arrays_const"} \cup SortFeatures(t.ty)
                 [] t.op \in {"array_select", "array_store"} -> {"arrays"}
                 [] t.op \in {"int_constant", "bv_tonatural", "str_length", "str_indexof", "str_to_int"} -> {"integers"}
                 [] t.op \in {"real_constant", "toreal"} -> {"reals"}
                 [] t.op = "bv_constant" -> {"bit_vectors"}
                 [] t.op \in BVUnOps \cup BVBinOps \cup BVRelOps \cup
                             {"bv_comp", "bv_concat", "bv_extract", "bv_rol", "bv_ror", "bv_zext", "bv_sext"} -> {"bit_vectors"}
                 [] t.op \in {"str_constant", "str_concat", "str_contains", "str_replace", "str_substr", "str_prefixof",
                              "str_suffixof", "int_to_str", "str_charat"} -> {"strings"}
                 [] t.op = "times" ->
                        IF Cardinality({j \in 1..Len(t.a) : HasFreeSym(t.a[j])}) >= 2 THEN {"nonlinear"} ELSE {}
                 [] t.op = "div" ->
                        \* dividing by a term that is not a non-zero constant is not linear
                        IF HasFreeSym(t.a[2]) \/ (t.a[2].op \in {"int_constant", "real_constant"} /\ t.a[2].i[1] = 0)
                        THEN {"nonlinear"} ELSE {}
                 [] t.op = "pow" -> IF HasFreeSym(t.a[1]) THEN {"nonlinear"} ELSE {}
                 [] t.op \in {"le", "lt", "equals"} /\ TyF(t.a[1]).k \in {"Int", "Real"} ->
                        IF BeyondDifference(t.a[1], t.a[2])
                        THEN {IF TyF(t.a[1]).k = "Int" THEN "int_beyond_difference" ELSE "real_beyond_difference"} ELSE {}
                 [] OTHER -> {}
    IN  own \cup subs

\* ------------------------------------------------------------- implementation-shaped order
TheoryLE(s, o) ==
    LET leid == \/ s.idl = o.idl \/ (s.idl /\ o.ia) \/ (~s.ia /\ o.ia)
        lerd == \/ s.rdl = o.rdl \/ (s.rdl /\ o.ra) \/ (~s.ra /\ o.ra)
        lelin == s.lin = o.lin \/ (s.lin /\ ~o.lin)
        B(x, y) == x => y
    IN  B(s.a, o.a) /\ B(s.ac, o.ac) /\ B(s.bv, o.bv) /\ B(s.fp, o.fp) /\ B(s.uf, o.uf) /\ B(s.ct, o.ct)
        /\ leid /\ B(s.ia, o.ia) /\ lerd /\ B(s.ra, o.ra) /\ lelin /\ B(s.st, o.st)

TheoryCombine(s, o) ==
    LET idl == IF s.ia /\ o.ia THEN s.idl /\ o.idl ELSE IF s.ia THEN s.idl ELSE IF o.ia THEN o.idl ELSE FALSE
        rdl == IF s.ra /\ o.ra THEN s.rdl /\ o.rdl ELSE IF s.ra THEN s.rdl ELSE IF o.ra THEN o.rdl ELSE FALSE
    IN  [a |-> s.a \/ o.a, ac |-> s.ac \/ o.ac, bv |-> s.bv \/ o.bv, fp |-> s.fp \/ o.fp,
         ia |-> s.ia \/ o.ia, ra |-> s.ra \/ o.ra, idl |-> idl, rdl |-> rdl, lin |-> s.lin /\ o.lin,
         uf |-> s.uf \/ o.uf, ct |-> s.ct \/ o.ct, st |-> s.st \/ o.st]

LogicLE(l, m) == TheoryLE(l.th, m.th) /\ (m.qf => l.qf)

\* theories that can arise: difference flags only with the arithmetic, const arrays only with arrays
ValidTheory(th) == (th.idl => th.ia) /\ (th.rdl => th.ra) /\ (th.ac => th.a)

\* ------------------------------------------------------------- contracts on recorded results
(* detection: logic / theory reported for formula f *)
DetectContract(e) ==
    LET need == Features(e.f) \cap ListedFeatures
        gotL == Expressible(e.logic.th, e.logic.qf)
        gotT == Expressible(e.theory, IsQF(e.f))
        missL == need \ gotL
        missT == need \ gotT
    \* res = "nologic": get_logic reported that no named logic can express the formula - allowed
    IN  [fail |-> (IF e.res = "error" THEN <<"raises">> ELSE <<>>) \o
                  (IF e.res = "ok" /\ missL # {} THEN <<"logic_misses_feature">> ELSE <<>>) \o
                  (IF e.res = "ok" /\ missT # {} THEN <<"theory_misses_feature">> ELSE <<>>),
         skip |-> <<>>, wit |-> -1]

(* order: items = logics, le = recorded matrix of l <= m (as 0/1) *)
OrderContract(e) ==
    LET n == Len(e.items)
        LE(i, j) == e.le[i][j] = 1
        SameKey(i, j) == e.items[i].th = e.items[j].th /\ e.items[i].qf = e.items[j].qf
        refl == \A i \in 1..n : LE(i, i)
        antisym == \A i, j \in 1..n : LE(i, j) /\ LE(j, i) => SameKey(i, j)
        trans == \A i, j, k \in 1..n : LE(i, j) /\ LE(j, k) => LE(i, k)
        mono == \A i, j \in 1..n : LE(i, j) =>
                    Expressible(e.items[i].th, e.items[i].qf) \subseteq Expressible(e.items[j].th, e.items[j].qf)
        model == \A i, j \in 1..n : LE(i, j) = LogicLE(e.items[i], e.items[j])
    IN  [fail |-> (IF refl THEN <<>> ELSE <<"reflexive">>) \o (IF antisym THEN <<>> ELSE <<"antisymmetric">>) \o
                  (IF trans THEN <<>> ELSE <<"transitive">>) \o (IF mono THEN <<>> ELSE <<"order_respects_expressiveness">>),
         skip |-> IF model THEN <<>> ELSE <<"MODEL-DRIFT:TheoryLE">>, wit |-> -1]

(* combine: ths = theories, le = recorded <= matrix, comb[i][j] = index of combine(ths[i], ths[j]) *)
CombineContract(e) ==
    LET n == Len(e.ths)
        LE(i, j) == e.le[i][j] = 1
        ub == \A i, j \in 1..n : e.comb[i][j] # 0 => LE(i, e.comb[i][j]) /\ LE(j, e.comb[i][j])
        mono == \A i, j \in 1..n : LE(i, j) => Expressible(e.ths[i], TRUE) \subseteq Expressible(e.ths[j], TRUE)
        trans == \A i, j, k \in 1..n : LE(i, j) /\ LE(j, k) => LE(i, k)
        antisym == \A i, j \in 1..n : LE(i, j) /\ LE(j, i) => e.ths[i] = e.ths[j]
        model == \A i, j \in 1..n : (e.comb[i][j] # 0 => e.ths[e.comb[i][j]] = TheoryCombine(e.ths[i], e.ths[j]))
                                    /\ LE(i, j) = TheoryLE(e.ths[i], e.ths[j])
    IN  [fail |-> (IF ub THEN <<>> ELSE <<"combine_is_upper_bound">>) \o
                  (IF mono THEN <<>> ELSE <<"order_respects_expressiveness">>) \o
                  (IF trans THEN <<>> ELSE <<"transitive">>) \o (IF antisym THEN <<>> ELSE <<"antisymmetric">>),
         skip |-> IF model THEN <<>> ELSE <<"MODEL-DRIFT:TheoryCombine">>, wit |-> -1]

(* closer: e.S = indices of supported logics, t = index of the target, r = index of the result or 0 (error);
   hdr.le = recorded order over hdr.items *)
CloserContract(e, hdr) ==
    LET LE(i, j) == hdr.le[i][j] = 1
        Sup == SeqSet(e.S)
        cands == {k \in Sup : LE(e.t, k)}
        ok == IF e.r = 0 THEN cands = {}
              ELSE /\ e.r \in Sup
                   /\ LE(e.t, e.r)
                   /\ ~\E k \in Sup : LE(e.t, k) /\ LE(k, e.r) /\ ~LE(e.r, k)
    IN  [fail |-> (IF e.r = 0 /\ cands # {} THEN <<"error_although_a_supported_logic_is_above">> ELSE <<>>) \o
                  (IF e.r # 0 /\ e.r \notin Sup THEN <<"result_not_supported">> ELSE <<>>) \o
                  (IF e.r # 0 /\ ~LE(e.t, e.r) THEN <<"result_not_above_target">> ELSE <<>>) \o
                  (IF e.r # 0 /\ \E k \in Sup : LE(e.t, k) /\ LE(k, e.r) /\ ~LE(e.r, k) THEN <<"supported_logic_strictly_between">> ELSE <<>>),
         skip |-> <<>>, wit |-> -1]

(* Factory.get_solver(name, logic): solvers[s] = the logics solver s declares, prefs = the preference list
   (solver indices), name = 0 (none given) / solver index / -1 (unknown name), t = the requested logic (the
   default logic when none was given), rs / rl = the solver instantiated and the logic handed to it
   (0 = NoSolverAvailableError).  Selection refines CloserContract: the solver must support the request, be
   the first supporting one of the preference list when no name is given, and receive its closest logic. *)
FactoryContract(e, hdr) ==
    LET LE(i, j) == hdr.le[i][j] = 1
        n == Len(e.solvers)
        Supports(sv) == \E k \in SeqSet(e.solvers[sv]) : LE(e.t, k)
        cands == IF e.name = 0 THEN {sv \in 1..n : Supports(sv)}
                 ELSE IF e.name \in 1..n /\ Supports(e.name) THEN {e.name} ELSE {}
        usable == IF e.name = 0 THEN {j \in 1..Len(e.prefs) : e.prefs[j] \in cands} ELSE {}
        want == IF e.name # 0 THEN (IF cands = {} THEN 0 ELSE e.name)
                ELSE IF usable = {} THEN 0 ELSE e.prefs[CHOOSE j \in usable : \A k \in usable : j <= k]
        closest == e.rs # 0 /\ e.rl # 0 /\ e.rl \in SeqSet(e.solvers[e.rs]) /\ LE(e.t, e.rl)
                   /\ ~\E k \in SeqSet(e.solvers[e.rs]) : LE(e.t, k) /\ LE(k, e.rl) /\ ~LE(e.rl, k)
    IN  [fail |-> (IF e.rs # 0 /\ (e.rs \notin 1..n \/ ~Supports(e.rs)) THEN <<"selected_solver_cannot_express_the_logic">> ELSE <<>>) \o
                  (IF e.rs = 0 /\ want # 0 THEN <<"error_although_a_solver_supports_the_logic">> ELSE <<>>) \o
                  (IF e.rs # 0 /\ want # 0 /\ e.rs # want THEN <<"not_the_first_preferred_supporting_solver">> ELSE <<>>) \o
                  (IF e.rs # 0 /\ e.rs \in 1..n /\ Supports(e.rs) /\ ~closest THEN <<"solver_not_given_its_closest_logic">> ELSE <<>>),
         skip |-> <<>>, wit |-> -1]

(* most generic: r = index or 0 (error) *)
MostGenericContract(e, hdr) ==
    LET LE(i, j) == hdr.le[i][j] = 1
        Sup == SeqSet(e.S)
        tops == {k \in Sup : \A x \in Sup : LE(x, k)}
    IN  [fail |-> (IF e.r # 0 /\ e.r \notin tops THEN <<"result_not_most_generic">> ELSE <<>>) \o
                  (IF e.r = 0 /\ Cardinality(tops) = 1 THEN <<"error_although_unique_most_generic_exists">> ELSE <<>>),
         skip |-> <<>>, wit |-> -1]
=============================================================================
