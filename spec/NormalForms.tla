----------------------------- MODULE NormalForms -----------------------------
(***************************************************************************)
(* Advertised shapes of the normal-form rewriters (C10, C11).               *)
(***************************************************************************)
EXTENDS Substitution

SeqSet(sq) == {sq[j] : j \in 1..Len(sq)}

BoolConn == BoolOps \cup {"forall", "exists"}
\* a Boolean-sorted ite is a connective, every other Boolean term that is not
\* built by a connective or quantifier is an atom (constants included)
IsConnective(t) == t.op \in BoolConn \/ (t.op = "ite" /\ TyF(t) = TBool)
IsAtomOrConst(t) == ~IsConnective(t)

RECURSIVE IsNNF(_)
\* negations only on atoms; only and / or / quantifiers above them
IsNNF(t) ==
    CASE t.op \in {"and", "or", "forall", "exists"} -> \A j \in 1..Len(t.a) : IsNNF(t.a[j])
      [] t.op = "not" -> IsAtomOrConst(t.a[1])
      [] IsConnective(t) -> FALSE            \* implies, iff, Boolean ite
      [] OTHER -> TRUE

RECURSIVE StripPrefix(_)
StripPrefix(t) == IF t.op \in {"forall", "exists"} THEN StripPrefix(t.a[1]) ELSE t
IsPrenex(t) == IsQF(StripPrefix(t))

RECURSIVE IsAIG(_)
\* only and / not connectives (quantifiers are kept as they are)
IsAIG(t) ==
    CASE t.op \in {"and", "not", "forall", "exists"} -> \A j \in 1..Len(t.a) : IsAIG(t.a[j])
      [] IsConnective(t) -> FALSE
      [] OTHER -> TRUE

\* quantifiers occur in Boolean positions only (never below a theory / UF operator)
RECURSIVE QuantInBoolPositionsOnly(_)
QuantInBoolPositionsOnly(t) ==
    IF IsConnective(t) THEN \A j \in 1..Len(t.a) : QuantInBoolPositionsOnly(t.a[j])
    ELSE IsQF(t)

\* CNF: a conjunction of clauses; a clause is a disjunction of literals; a literal is
\* an atom or the negation of an atom.  (TRUE = empty conjunction, a single clause
\* or literal are degenerate cases.)
IsLiteral(t) == IF t.op = "not" THEN IsAtomOrConst(t.a[1]) ELSE IsAtomOrConst(t)
IsClause(t) == IF t.op = "or" THEN \A j \in 1..Len(t.a) : IsLiteral(t.a[j]) ELSE IsLiteral(t)
IsCNF(t) == IF t.op = "and" THEN \A j \in 1..Len(t.a) : IsClause(t.a[j]) ELSE IsClause(t)

NoUF(t) == ~HasUF(t)

MkAnd(parts) == IF Len(parts) = 0 THEN BoolC(TRUE) ELSE IF Len(parts) = 1 THEN parts[1] ELSE Op("and", parts)
MkOr(parts) == IF Len(parts) = 0 THEN BoolC(FALSE) ELSE IF Len(parts) = 1 THEN parts[1] ELSE Op("or", parts)
=============================================================================
