------------------------------- MODULE Optimizer -------------------------------
(***************************************************************************)
(* Implementation-shaped model of pysmt.optimization.optimizer (C18):       *)
(* OptSearchInterval + ExternalOptimizerMixin._optimize (linear and binary  *)
(* search, minimisation and maximisation, Int / unsigned BV / signed BV      *)
(* objectives), the lexicographic wrapper and the Pareto loop, on top of a   *)
(* NONDETERMINISTIC satisfiability oracle: a check returns ANY model of the  *)
(* live constraints.  The model space is M = 1..NM; Sat \subseteq M are the  *)
(* models of the user's assertions; val[g][m] is the value of objective g    *)
(* in model m (the signed value for signed goals).  TLC explores every Sat,  *)
(* every valuation and every sequence of solver answers.                     *)
(***************************************************************************)
EXTENDS Integers, Sequences, FiniteSets, TLC

CONSTANTS NM,           \* size of the model space
          Vals,         \* objective values range over this finite set of integers
          Kind,         \* "int" | "ubv" | "sbv"
          Width,        \* bit width for the bv kinds
          Goal,         \* "min" | "max"
          Strategy,     \* "linear" | "binary"
          Mode,         \* "single" | "lex" | "pareto"
          CleanupOnLexSuccess   \* models the repaired lexicographic_optimize (TRUE) or the pinned one (FALSE)

M == 1..NM
None == [b |-> FALSE, v |-> 0]
Some(x) == [b |-> TRUE, v |-> x]
Pow2(n) == IF n = 0 THEN 1 ELSE 2 * (IF n = 1 THEN 1 ELSE 2 * (IF n = 2 THEN 1 ELSE 2 * (IF n = 3 THEN 1 ELSE 2)))
AbsV(x) == IF x < 0 THEN -x ELSE x

VARIABLES Sat, val,                 \* the problem (chosen in Init, then constant)
          pc,                       \* program counter of the routine
          lower, upper, pivot,      \* OptSearchInterval
          first, best,              \* _optimize locals: first_step, model (0 = None)
          depth,                    \* push levels of the solver (0 at call time)
          g,                        \* goal being optimised (lexicographic: 1 then 2)
          fixed,                    \* lexicographic client_data: values fixed so far (sequence)
          result,                   \* sequence of returned costs; pareto: sequence of cost pairs
          retNone,                  \* the routine returned None
          pval, plast, blocked,     \* pareto: current objs.val (None or pair), last model, blocking points
          error                     \* a cut could not be cast to the objective's sort

vars == <<Sat, val, pc, lower, upper, pivot, first, best, depth, g, fixed, result, retNone, pval, plast, blocked, error>>

IsLex == Mode \in {"lex", "lex3"}
NG == IF Mode = "single" THEN 1 ELSE IF Mode = "lex3" THEN 3 ELSE 2

\* models the solver may answer with while optimising goal g (lexicographic: earlier goals fixed)
Feasible == {m \in Sat : \A k \in 1..Len(fixed) : val[k][m] = fixed[k]}

InitBounds ==
    CASE Kind = "int" -> <<None, None>>
      [] Kind = "ubv" -> <<Some(IF Goal = "max" THEN -1 ELSE 0), Some(IF Goal = "min" THEN Pow2(Width) + 1 ELSE Pow2(Width))>>
      [] Kind = "sbv" -> <<Some(IF Goal = "max" THEN -Pow2(Width - 1) - 1 ELSE -Pow2(Width - 1)),
                           Some(IF Goal = "min" THEN Pow2(Width - 1) ELSE Pow2(Width - 1) - 1)>>

Representable(x) ==
    CASE Kind = "int" -> TRUE
      [] Kind = "ubv" -> 0 <= x /\ x < Pow2(Width)
      [] Kind = "sbv" -> -Pow2(Width - 1) <= x /\ x < Pow2(Width - 1)

Init == /\ Sat \in SUBSET M
        /\ val \in [1..NG -> [M -> Vals]]
        /\ pc = IF Mode = "pareto" THEN "p_outer" ELSE "setup"
        /\ lower = None /\ upper = None /\ pivot = None /\ first = TRUE /\ best = 0
        /\ depth = 0 /\ g = 1 /\ fixed = <<>> /\ result = <<>>
        /\ pval = None /\ plast = 0 /\ blocked = {} /\ error = FALSE /\ retNone = FALSE

\* ---- _optimize ---------------------------------------------------------------
Setup ==    \* client_data = self._setup(); current = OptSearchInterval(...)
    /\ pc = "setup"
    /\ ~(IsLex /\ g = 1 /\ depth = 0)        \* lexicographic_optimize pushes first (LexSetup)
    /\ depth' = depth + 1
    /\ lower' = InitBounds[1] /\ upper' = InitBounds[2] /\ pivot' = None /\ first' = TRUE /\ best' = 0
    /\ pc' = "loop"
    /\ UNCHANGED <<Sat, val, g, fixed, result, retNone, pval, plast, blocked, error>>

Empty == lower.b /\ upper.b /\ upper.v <= lower.v

ComputePivot ==
    IF ~lower.b /\ ~upper.b THEN 0
    ELSE LET l == IF lower.b THEN lower.v ELSE upper.v - (AbsV(upper.v) + 1)
             u == IF upper.b THEN upper.v ELSE lower.v + AbsV(lower.v) + 1
             p == (l + u) \div 2
         IN  IF Goal = "min" THEN p + 1 ELSE p

\* the bound used by the cut of this iteration (None on the first step)
CutBound == IF first THEN None
            ELSE IF Strategy = "linear" THEN (IF Goal = "min" THEN upper ELSE lower)
            ELSE Some(ComputePivot)

CutOK(m, c) == ~c.b \/ (IF Goal = "min" THEN val[g][m] < c.v ELSE val[g][m] > c.v)

Iterate ==
    /\ pc = "loop" /\ ~Empty
    /\ LET c == CutBound IN
       IF c.b /\ ~Representable(c.v)
       THEN /\ error' = TRUE /\ pc' = "done"
            /\ UNCHANGED <<Sat, val, lower, upper, pivot, first, best, depth, g, fixed, result, retNone, pval, plast, blocked>>
       ELSE
       \/ \* the solver answers sat with some model of the cut
          \E m \in Feasible :
             /\ CutOK(m, c)
             /\ best' = m /\ pivot' = None
             /\ IF Goal = "min"
                THEN upper' = (IF ~upper.b \/ upper.v > val[g][m] THEN Some(val[g][m]) ELSE upper) /\ lower' = lower
                ELSE lower' = (IF ~lower.b \/ lower.v < val[g][m] THEN Some(val[g][m]) ELSE lower) /\ upper' = upper
             /\ first' = FALSE /\ pc' = "loop"
             /\ UNCHANGED <<Sat, val, depth, g, fixed, result, retNone, pval, plast, blocked, error>>
       \/ \* the solver answers unsat
          /\ ~\E m \in Feasible : CutOK(m, c)
          /\ IF first
             THEN \* self._cleanup(client_data); return None
                  /\ depth' = depth - 1 /\ pc' = "ret_none"
                  /\ UNCHANGED <<lower, upper, pivot, first, best>>
             ELSE /\ LET pv == IF Strategy = "binary" THEN c ELSE None IN
                     IF pv.b
                     THEN (IF Goal = "min" THEN lower' = pv /\ upper' = upper ELSE upper' = pv /\ lower' = lower)
                     ELSE (IF Goal = "min" THEN lower' = upper /\ upper' = upper ELSE upper' = lower /\ lower' = lower)
                  /\ pivot' = None /\ first' = FALSE /\ pc' = "loop" /\ UNCHANGED <<best, depth>>
          /\ UNCHANGED <<Sat, val, g, fixed, result, retNone, pval, plast, blocked, error>>

Finish ==   \* while-loop exit: self._cleanup(client_data); return model, value
    /\ pc = "loop" /\ Empty
    /\ depth' = depth - 1
    /\ pc' = "ret_some"
    /\ UNCHANGED <<Sat, val, lower, upper, pivot, first, best, g, fixed, result, retNone, pval, plast, blocked, error>>

\* ---- callers -----------------------------------------------------------------
Return ==
    /\ pc \in {"ret_none", "ret_some"}
    /\ IF Mode = "single"
       THEN /\ result' = IF pc = "ret_none" THEN <<>> ELSE <<val[1][best]>>
            /\ retNone' = (pc = "ret_none")
            /\ pc' = "done" /\ UNCHANGED <<g, fixed, depth>>
       ELSE \* lexicographic_optimize: client_data = self._setup() happened before the first goal (LexSetup)
            IF pc = "ret_none"
            THEN /\ result' = <<>> /\ retNone' = TRUE /\ pc' = "done" /\ depth' = depth - 1 /\ UNCHANGED <<g, fixed>>
            ELSE /\ fixed' = Append(fixed, val[g][best])
                 /\ IF g = NG
                    THEN /\ result' = Append(fixed, val[g][best]) /\ pc' = "done" /\ retNone' = FALSE
                         /\ depth' = IF CleanupOnLexSuccess THEN depth - 1 ELSE depth
                         /\ UNCHANGED g
                    ELSE /\ g' = g + 1 /\ pc' = "setup" /\ UNCHANGED <<result, retNone, depth>>
    /\ UNCHANGED <<Sat, val, lower, upper, pivot, first, best, pval, plast, blocked, error>>

LexSetup ==  \* the extra push of lexicographic_optimize, taken once before goal 1
    /\ IsLex /\ pc = "setup" /\ g = 1 /\ depth = 0
    /\ depth' = 1
    /\ UNCHANGED <<Sat, val, pc, lower, upper, pivot, first, best, g, fixed, result, retNone, pval, plast, blocked, error>>

\* ---- pareto_optimize (both objectives are minimised or maximised according to Goal) ----------
Better(a, b) == IF Goal = "min" THEN a < b ELSE a > b          \* strictly better
BetterEq(a, b) == IF Goal = "min" THEN a <= b ELSE a >= b
Cost(m) == <<val[1][m], val[2][m]>>
NotBlocked(m) == \A p \in blocked : Better(val[1][m], p[1]) \/ Better(val[2][m], p[2])

POuter ==   \* client_data = self._setup() (first time); start a round: objs.val = None; _pareto_setup()
    /\ pc = "p_outer"
    /\ depth' = IF depth = 0 THEN 2 ELSE depth + 1
    /\ pval' = None /\ plast' = 0 /\ pc' = "p_inner"
    /\ UNCHANGED <<Sat, val, lower, upper, pivot, first, best, g, fixed, result, retNone, blocked, error>>

PInner ==   \* _pareto_check_progress: is there a model not worse in every objective and better in one?
    /\ pc = "p_inner"
    /\ LET cand == {m \in Sat : NotBlocked(m) /\
                        (plast = 0 \/ (BetterEq(val[1][m], val[1][plast]) /\ BetterEq(val[2][m], val[2][plast])
                                       /\ (Better(val[1][m], val[1][plast]) \/ Better(val[2][m], val[2][plast]))))}
       IN  \/ \E m \in cand : plast' = m /\ pc' = "p_inner" /\ UNCHANGED <<depth, result, retNone, blocked>>
           \/ /\ cand = {}
              /\ depth' = depth - 1                              \* _pareto_cleanup()
              /\ IF plast # 0
                 THEN result' = Append(result, Cost(plast)) /\ blocked' = blocked \cup {Cost(plast)} /\ pc' = "p_outer"
                 ELSE result' = result /\ blocked' = blocked /\ pc' = "p_end"
              /\ UNCHANGED <<plast, retNone>>
    /\ UNCHANGED <<Sat, val, lower, upper, pivot, first, best, g, fixed, pval, error>>

PEnd ==     \* self._cleanup(client_data)
    /\ pc = "p_end" /\ depth' = depth - 1 /\ pc' = "done"
    /\ UNCHANGED <<Sat, val, lower, upper, pivot, first, best, g, fixed, result, retNone, pval, plast, blocked, error>>

Next == LexSetup \/ Setup \/ Iterate \/ Finish \/ Return \/ POuter \/ PInner \/ PEnd
Spec == Init /\ [][Next]_vars /\ WF_vars(Next)

\* ---- properties --------------------------------------------------------------
Opt(S, k) == IF Goal = "min" THEN CHOOSE v \in {val[k][m] : m \in S} : \A m \in S : v <= val[k][m]
                             ELSE CHOOSE v \in {val[k][m] : m \in S} : \A m \in S : v >= val[k][m]
Termination == <>(pc = "done")
CutsRepresentable == ~error
NoneIffUnsat == pc = "done" /\ Mode # "pareto" /\ ~error => (retNone <=> (Sat = {}))
ResultIsOptimum ==
    pc = "done" /\ ~error /\ Sat # {} =>
        CASE Mode = "single" -> result = <<Opt(Sat, 1)>>
          [] IsLex -> LET RECURSIVE LexSet(_)
                          LexSet(k) == IF k = 0 THEN Sat ELSE LET S == LexSet(k - 1) IN {m \in S : val[k][m] = Opt(S, k)}
                      IN  result = [k \in 1..NG |-> Opt(LexSet(k - 1), k)]
          [] Mode = "pareto" ->
                LET front == {Cost(m) : m \in {m \in Sat : ~\E o \in Sat :
                                  BetterEq(val[1][o], val[1][m]) /\ BetterEq(val[2][o], val[2][m])
                                  /\ (Better(val[1][o], val[1][m]) \/ Better(val[2][o], val[2][m]))}}
                IN  {result[i] : i \in 1..Len(result)} = front /\ Len(result) = Cardinality(front)
StackRestored == pc = "done" => depth = 0
=============================================================================
