------------------------------- MODULE Portfolio -------------------------------
(***************************************************************************)
(* pysmt.solvers.portfolio.Portfolio (C19): the parent process, N member    *)
(* processes, the signalling queue and the SINGLE control pipe whose child  *)
(* end every member inherits.  One action per critical section:             *)
(*   parent: Spawn, QueueGet (blocking), Terminate(p) in list order,        *)
(*           SendCtrl / RecvReply (get_model), PollDead (the repair: a      *)
(*           bounded wait that notices that no member can answer any more)  *)
(*   member: PutResult, PutException, Crash (dies silently), RecvCmd/Reply  *)
(* A member's behaviour is a constant of the run: "sat" | "unsat" answer,   *)
(* "exc" (raises / unknown), "crash_pre" (dies before posting),             *)
(* "crash_post" (posts, then dies).  Answering members agree on Verdict.    *)
(***************************************************************************)
EXTENDS Integers, Sequences, FiniteSets, TLC

CONSTANTS N,                \* number of members
          ExitOnException,  \* PortfolioOptions.exit_on_exception
          DetectAllFailed,  \* TRUE = repaired code (raises when nobody can answer), FALSE = pinned code
          Rounds,           \* consecutive solve() calls on the same Portfolio object
          FreshQueuePerSolve, \* TRUE = the code: every solve() creates its own signalling queue;
                             \* FALSE = one queue for the object's life (a loser's late message survives)
          CacheModelByWinner \* FALSE = the code: get_model() asks the kept process every time;
                             \* TRUE = a design alternative that keeps the model first fetched from a member and
                             \* hands it out again whenever that member wins (stale after the next solve)

Members == 1..N
Behaviours == {"ans", "exc", "crash_pre", "crash_post"}

VARIABLES beh, verdictOf,       \* member behaviour; the common verdict of answering members
          ppc,                  \* parent: "spawn" | "wait" | "kill" | "idle" | "sent" | "done" | "raised"
          cpc,                  \* member: "solving" | "parked" | "dead"
          queue,                \* signalling queue: sequence of <<member, "res" | "exc", verdict>>
          round,                \* number of the current solve() call
          failed,               \* number of exception messages seen by the parent
          winner, returned,     \* chosen member / verdict returned by solve (or "none")
          killIdx,              \* next member of the terminate loop
          ctrl, reply,          \* control pipe (parent -> members) and reply channel
          served,               \* member that consumed the control command (0 = none)
          modelRound,           \* the solve() whose model get_model() handed to the client (0 = none yet in this round)
          cache                 \* member -> round of the model kept for it (0 = none); only used if CacheModelByWinner

vars == <<beh, verdictOf, ppc, cpc, queue, round, failed, winner, returned, killIdx, ctrl, reply, served, modelRound, cache>>

Init == /\ beh \in [Members -> Behaviours]
        /\ verdictOf \in {"sat", "unsat"}
        /\ ppc = "spawn" /\ cpc = [i \in Members |-> "solving"]
        /\ queue = <<>> /\ round = 1 /\ failed = 0 /\ winner = 0 /\ returned = "none" /\ killIdx = 1
        /\ ctrl = <<>> /\ reply = <<>> /\ served = 0
        /\ modelRound = 0 /\ cache = [i \in Members |-> 0]

\* ---- parent
Spawn == ppc = "spawn" /\ ppc' = "wait"
         /\ UNCHANGED <<round, beh, verdictOf, cpc, queue, failed, winner, returned, killIdx, ctrl, reply, served, modelRound, cache>>

QueueGet ==
    /\ ppc = "wait" /\ queue # <<>>
    /\ LET msg == Head(queue) IN
       /\ queue' = Tail(queue)
       /\ IF msg[2] = "exc"
          THEN IF ExitOnException \/ (DetectAllFailed /\ failed + 1 = N)
               THEN /\ ppc' = "raised" /\ failed' = failed + 1
                    /\ cpc' = [i \in Members |-> "dead"]          \* terminates every process, raises
                    /\ UNCHANGED <<winner, returned>>
               ELSE /\ ppc' = "wait" /\ failed' = failed + 1       \* `continue`
                    /\ UNCHANGED <<cpc, winner, returned>>
          ELSE /\ winner' = msg[1] /\ returned' = msg[3] /\ ppc' = "kill"
               /\ UNCHANGED <<cpc, failed>>
    /\ UNCHANGED <<round, beh, verdictOf, killIdx, ctrl, reply, served, modelRound, cache>>

\* the repair: the blocking get has a timeout; when it expires with an empty queue and no live
\* member, nobody can answer any more
PollDead ==
    /\ DetectAllFailed /\ ppc = "wait" /\ queue = <<>>
    /\ \A i \in Members : cpc[i] = "dead"
    /\ ppc' = "raised"
    /\ UNCHANGED <<round, beh, verdictOf, cpc, queue, failed, winner, returned, killIdx, ctrl, reply, served, modelRound, cache>>

Terminate ==    \* for p in processes: winner is kept, every other process is terminated
    /\ ppc = "kill"
    /\ IF killIdx > N THEN ppc' = "idle" /\ UNCHANGED <<cpc, killIdx>>
       ELSE /\ killIdx' = killIdx + 1 /\ ppc' = "kill"
            /\ cpc' = IF killIdx = winner THEN cpc ELSE [cpc EXCEPT ![killIdx] = "dead"]
    /\ UNCHANGED <<round, beh, verdictOf, queue, failed, winner, returned, ctrl, reply, served, modelRound, cache>>

SendCtrl ==     \* get_model() / get_value() after solve returned
    /\ ppc = "idle" /\ returned = "sat"
    /\ IF CacheModelByWinner /\ cache[winner] # 0
       THEN \* the alternative: the kept model of this member is handed out without asking
            /\ modelRound' = cache[winner] /\ ppc' = "done" /\ UNCHANGED ctrl
       ELSE /\ ctrl' = Append(ctrl, "get_model") /\ ppc' = "sent" /\ UNCHANGED modelRound
    /\ UNCHANGED <<round, beh, verdictOf, cpc, queue, failed, winner, returned, killIdx, reply, served, cache>>

RecvReply ==
    /\ ppc = "sent" /\ reply # <<>>
    /\ reply' = Tail(reply) /\ ppc' = "done"
    /\ modelRound' = Head(reply)[2]
    /\ cache' = IF CacheModelByWinner /\ cache[Head(reply)[1]] = 0 THEN [cache EXCEPT ![Head(reply)[1]] = Head(reply)[2]] ELSE cache
    /\ UNCHANGED <<round, beh, verdictOf, cpc, queue, failed, winner, returned, killIdx, ctrl, served>>

NoModelWanted == ppc = "idle" /\ returned # "sat" /\ ppc' = "done"
                 /\ UNCHANGED <<round, beh, verdictOf, cpc, queue, failed, winner, returned, killIdx, ctrl, reply, served, modelRound, cache>>

\* the next solve() on the same object: _close_existing() terminates the kept process, the assertions
\* may have changed (the verdict is chosen afresh), new member processes are started
Resolve ==
    /\ ppc = "done" /\ round < Rounds
    /\ round' = round + 1 /\ ppc' = "spawn"
    /\ verdictOf' \in {"sat", "unsat"}
    /\ cpc' = [i \in Members |-> "solving"]
    /\ queue' = IF FreshQueuePerSolve THEN <<>> ELSE queue
    /\ failed' = 0 /\ winner' = 0 /\ returned' = "none" /\ killIdx' = 1
    /\ ctrl' = <<>> /\ reply' = <<>> /\ served' = 0 /\ modelRound' = 0
    /\ UNCHANGED <<beh, cache>>

\* ---- members
PutResult(i) ==
    /\ cpc[i] = "solving" /\ beh[i] \in {"ans", "crash_post"}
    /\ queue' = Append(queue, <<i, "res", verdictOf>>)
    /\ cpc' = [cpc EXCEPT ![i] = IF beh[i] = "ans" THEN "parked" ELSE "dead"]
    /\ UNCHANGED <<round, beh, verdictOf, ppc, failed, winner, returned, killIdx, ctrl, reply, served, modelRound, cache>>

PutException(i) ==
    /\ cpc[i] = "solving" /\ beh[i] = "exc"
    /\ queue' = Append(queue, <<i, "exc", verdictOf>>)
    /\ cpc' = [cpc EXCEPT ![i] = "dead"]
    /\ UNCHANGED <<round, beh, verdictOf, ppc, failed, winner, returned, killIdx, ctrl, reply, served, modelRound, cache>>

Crash(i) ==
    /\ cpc[i] = "solving" /\ beh[i] = "crash_pre"
    /\ cpc' = [cpc EXCEPT ![i] = "dead"]
    /\ UNCHANGED <<round, beh, verdictOf, ppc, queue, failed, winner, returned, killIdx, ctrl, reply, served, modelRound, cache>>

RecvCmd(i) ==   \* any parked member may read the shared pipe
    /\ cpc[i] = "parked" /\ ctrl # <<>>
    /\ ctrl' = Tail(ctrl) /\ served' = i
    /\ reply' = Append(reply, <<i, round>>)        \* the member's model is the one of the solve it answered
    /\ UNCHANGED <<round, beh, verdictOf, ppc, cpc, queue, failed, winner, returned, killIdx, modelRound, cache>>

Next == Spawn \/ QueueGet \/ PollDead \/ Terminate \/ SendCtrl \/ RecvReply \/ NoModelWanted \/ Resolve
        \/ \E i \in Members : PutResult(i) \/ PutException(i) \/ Crash(i) \/ RecvCmd(i)

Spec == Init /\ [][Next]_vars /\ WF_vars(Next)

\* ---- properties
SomeoneAnswers == \E i \in Members : beh[i] \in {"ans", "crash_post"}
Agreement == returned # "none" => returned = verdictOf
RaisesOnlyIfNobodyAnswered == (ppc = "raised" /\ ~ExitOnException) => ~SomeoneAnswers
NoLoserConsumesCtrl == served # 0 => served = winner
\* the model the client is handed belongs to the solve() it was asked after
ModelIsCurrent == modelRound # 0 => modelRound = round
SolveReturns == \A r \in 1..Rounds : (round = r /\ ppc = "spawn") ~> (round = r /\ ppc \in {"idle", "sent", "done", "raised"})
\* as long as one member answers, failing members never change the verdict
AnswerIfSomeoneAnswers == \A r \in 1..Rounds :
    (round = r /\ ppc = "spawn" /\ SomeoneAnswers /\ ~ExitOnException) ~> (round = r /\ returned = verdictOf)
=============================================================================
