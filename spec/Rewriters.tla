------------------------------ MODULE Rewriters ------------------------------
(***************************************************************************)
(* Rule models of pysmt.rewritings.NNFizer and AIGer (C10), transcribed     *)
(* from the code the way Simplifier.tla transcribes the simplifier: one     *)
(* case per walk_* callback, the constructor normalisations of the formula  *)
(* manager included (Not(Not(x)) = x, And() = true, And(x) = x; nothing is  *)
(* flattened or de-duplicated).  The NNFizer pushes negations down through  *)
(* _get_children (the children of a negated node are the negated children)  *)
(* and rebuilds in walk_not / walk_<op>.                                    *)
(* Used two ways: MC_Rewriters checks the MODEL against the abstract        *)
(* contract (advertised shape, same type, no new free symbol, equivalent    *)
(* under every enumerated interpretation) on whole TLC-generated layers;    *)
(* Trace_Rewr checks that the CODE's outputs are the model's outputs up to  *)
(* the order of commutative arguments (MODEL-DRIFT otherwise).              *)
(***************************************************************************)
EXTENDS Simplifier          \* (which extends Contracts) - the CNFizer calls simplify() on negated literals

RNot(a) == IF a.op = "not" THEN a.a[1] ELSE Op("not", <<a>>)          \* FormulaManager.Not
RAnd(args) == IF Len(args) = 0 THEN BoolC(TRUE) ELSE IF Len(args) = 1 THEN args[1] ELSE Op("and", args)
ROr(args) == IF Len(args) = 0 THEN BoolC(FALSE) ELSE IF Len(args) = 1 THEN args[1] ELSE Op("or", args)
RQuant(q, t, body) == Quant(q, t.bv, body)
Dual(q) == IF q = "forall" THEN "exists" ELSE "forall"
IsBoolIte(t) == t.op = "ite" /\ TyF(t.a[2]) = TBool

RECURSIVE NnfM(_)
NnfM(t) ==
    LET N(x) == NnfM(x)
        NN(x) == NnfM(RNot(x))
    IN
    CASE t.op = "not" ->
            LET s == t.a[1] IN
            CASE s.op = "symbol" -> Op("not", <<s>>)
              [] s.op = "not" -> N(s.a[1])
              [] s.op = "and" -> ROr([j \in 1..Len(s.a) |-> NN(s.a[j])])
              [] s.op = "or" -> RAnd([j \in 1..Len(s.a) |-> NN(s.a[j])])
              [] s.op = "implies" -> RAnd(<<N(s.a[1]), NN(s.a[2])>>)
              [] s.op = "iff" -> ROr(<<RAnd(<<N(s.a[1]), NN(s.a[2])>>), RAnd(<<N(s.a[2]), NN(s.a[1])>>)>>)
              [] s.op \in {"forall", "exists"} -> RQuant(Dual(s.op), s, NN(s.a[1]))
              [] IsBoolIte(s) -> RAnd(<<ROr(<<NN(s.a[1]), NN(s.a[2])>>), ROr(<<N(s.a[1]), NN(s.a[3])>>)>>)
              [] OTHER -> RNot(N(s))
      [] t.op = "implies" -> ROr(<<NN(t.a[1]), N(t.a[2])>>)
      [] t.op = "iff" -> RAnd(<<ROr(<<NN(t.a[1]), N(t.a[2])>>), ROr(<<NN(t.a[2]), N(t.a[1])>>)>>)
      [] t.op = "and" -> RAnd([j \in 1..Len(t.a) |-> N(t.a[j])])
      [] t.op = "or" -> ROr([j \in 1..Len(t.a) |-> N(t.a[j])])
      [] t.op \in {"forall", "exists"} -> RQuant(t.op, t, N(t.a[1]))
      [] IsBoolIte(t) -> RAnd(<<ROr(<<NN(t.a[1]), N(t.a[2])>>), ROr(<<N(t.a[1]), N(t.a[3])>>)>>)
      [] OTHER -> t                   \* atoms, constants, applications: no recursion into theory terms

\* the AIGer walks the whole DAG but rebuilds only Boolean connectives; theory atoms are returned as they are
RECURSIVE AigM(_)
AigM(t) ==
    LET A(x) == AigM(x) IN
    CASE t.op = "and" -> RAnd([j \in 1..Len(t.a) |-> A(t.a[j])])
      [] t.op = "or" -> RNot(RAnd([j \in 1..Len(t.a) |-> RNot(A(t.a[j]))]))
      [] t.op = "not" -> RNot(A(t.a[1]))
      [] t.op = "implies" -> RNot(RAnd(<<A(t.a[1]), RNot(A(t.a[2]))>>))
      [] t.op = "iff" -> LET l == A(t.a[1]) r == A(t.a[2])
                         IN  RAnd(<<RNot(RAnd(<<l, RNot(r)>>)), RNot(RAnd(<<r, RNot(l)>>))>>)
      [] IsBoolIte(t) -> LET i == A(t.a[1]) th == A(t.a[2]) el == A(t.a[3])
                         IN  RAnd(<<RNot(RAnd(<<i, RNot(th)>>)), RNot(RAnd(<<RNot(i), RNot(el)>>))>>)
      [] t.op \in {"forall", "exists"} -> RQuant(t.op, t, A(t.a[1]))
      [] OTHER -> t

\* ---------------------------------------------------------------------------------------------------------
\* PrenexNormalizer.  The walk returns (L, m): m a quantifier-free matrix and L the quantifier list, INNERMOST
\* first, each entry [q, vs] with vs a SET of variables; the result is m wrapped by L in that order.  Merging the
\* lists of the arguments of and / or renames a quantified variable that is already "reserved" (free in the whole
\* formula, or quantified by an earlier entry) to a FRESH symbol.  Fresh symbols are numbered by a counter k that
\* is threaded through the recursion ("@1", "@2", ...): the code's names differ, conformance is up to a bijection.
\* Defined for formulas whose quantifiers are in Boolean positions only (elsewhere the code leaves them alone).
PFresh(k, ty) == BVar("@" \o ToString(k), ty)
NamesOf(vs) == {v.n : v \in vs}
PR(qs, m, k) == [qs |-> qs, m |-> m, k |-> k]
PInvert(qs) == [j \in 1..Len(qs) |-> [q |-> Dual(qs[j].q), vs |-> qs[j].vs]]

\* one quantifier entry merged into the accumulated state st = [qs, m (current sub-matrix), res (reserved names), k]
PMergeQ(st, e) ==
    LET needs == {v \in e.vs : v.n \in st.res}
        ord == SetToSeqBy(needs)
        fresh == [j \in 1..Len(ord) |-> PFresh(st.k + j, ord[j].ty)]
        ren == [nm \in NamesOf(needs) |-> fresh[CHOOSE j \in 1..Len(ord) : ord[j].n = nm].n]
        nvs == (e.vs \ needs) \cup {fresh[j] : j \in 1..Len(ord)}
    IN  [qs |-> Append(st.qs, [q |-> e.q, vs |-> nvs]),
         m |-> IF needs = {} THEN st.m ELSE RenameSyms(st.m, ren),
         res |-> st.res \cup NamesOf(nvs), k |-> st.k + Len(ord)]
RECURSIVE PMergeQs(_, _)
PMergeQs(st, qs) == IF qs = <<>> THEN st ELSE PMergeQs(PMergeQ(st, Head(qs)), Tail(qs))

\* walk_conj_disj: op in {"and", "or"}, free = free symbols of the (possibly synthetic) formula, rs = results of the arguments
RECURSIVE PConjFrom(_, _, _, _, _, _)
PConjFrom(op, rs, j, qs, ms, resk) ==      \* resk = <<reserved names, k>>
    IF j > Len(rs) THEN PR(qs, IF op = "and" THEN RAnd(ms) ELSE ROr(ms), resk[2])
    ELSE LET st == PMergeQs([qs |-> qs, m |-> rs[j].m, res |-> resk[1], k |-> resk[2]], rs[j].qs)
         IN  PConjFrom(op, rs, j + 1, st.qs, Append(ms, st.m), <<st.res, st.k>>)
PConj(op, free, rs, k) == PConjFrom(op, rs, 1, <<>>, <<>>, <<NamesOf(free), k>>)

PNot(r) == PR(PInvert(r.qs), RNot(r.m), r.k)
\* walk_implies(a -> b) = walk_conj_disj(Or(Not a, b)) on (walk_not(ra), rb)
PImplies(a, b, ra, rb, k) == PConj("or", FreeSyms(a) \cup FreeSyms(b), <<PNot(ra), rb>>, k)

RECURSIVE PrenexW(_, _)
PrenexW(t, k) ==
    CASE t.op \in {"and", "or"} ->
            LET RECURSIVE Args(_, _)
                Args(j, kk) == IF j > Len(t.a) THEN <<>>
                               ELSE LET r == PrenexW(t.a[j], kk) IN <<r>> \o Args(j + 1, r.k)
                rs == Args(1, k)
            IN  PConj(t.op, FreeSyms(t), rs, IF rs = <<>> THEN k ELSE rs[Len(rs)].k)
      [] t.op = "not" -> PNot(PrenexW(t.a[1], k))
      [] t.op = "implies" ->
            LET ra == PrenexW(t.a[1], k) rb == PrenexW(t.a[2], ra.k)
            IN  PImplies(t.a[1], t.a[2], ra, rb, rb.k)
      [] t.op = "iff" ->
            LET ra == PrenexW(t.a[1], k) rb == PrenexW(t.a[2], ra.k)
                i1 == PImplies(t.a[1], t.a[2], ra, rb, rb.k)
                i2 == PImplies(t.a[2], t.a[1], rb, ra, i1.k)
            IN  PConj("and", FreeSyms(t), <<i1, i2>>, i2.k)
      [] IsBoolIte(t) ->
            LET ri == PrenexW(t.a[1], k) rt == PrenexW(t.a[2], ri.k) re == PrenexW(t.a[3], rt.k)
                rni == PNot(ri)
                i1 == PImplies(t.a[1], t.a[2], ri, rt, re.k)
                \* Implies(Not i, e): its negated antecedent Not(Not i) is i again, with the quantifiers of Not i inverted
                i2 == PConj("or", FreeSyms(t.a[1]) \cup FreeSyms(t.a[3]), <<PNot(rni), re>>, i1.k)
            IN  PConj("and", FreeSyms(t), <<i1, i2>>, i2.k)
      [] t.op \in {"forall", "exists"} ->
            LET r == PrenexW(t.a[1], k)
                inner == UNION {NamesOf(r.qs[j].vs) : j \in 1..Len(r.qs)}
                nq == {v \in SeqSet(t.bv) : v.n \notin inner}
            IN  IF nq = {} THEN r ELSE PR(Append(r.qs, [q |-> t.op, vs |-> nq]), r.m, r.k)
      [] OTHER -> PR(<<>>, t, k)

RECURSIVE PWrap(_, _, _)
PWrap(qs, j, m) == IF j > Len(qs) THEN m ELSE PWrap(qs, j + 1, Quant(qs[j].q, SetToSeqBy(qs[j].vs), m))
PrenexM(t) == LET r == PrenexW(t, 0) IN PWrap(r.qs, 1, r.m)

\* ---------------------------------------------------------------------------------------------------------
\* CNFizer (Tseitin with one definitional variable per connective node).  The walk returns (literal, clauses);
\* the key variable of a node is FreshSymbol(): the model names it by the position of the node in the post-order
\* enumeration of the connective sub-formulas of the input ("@c1", "@c2", ...) - the DAG walker memoises by node,
\* so equal sub-formulas share their variable.  Negated literals go through simplify() (NotS), except in walk_or.
IsKeyed(t) == (t.op \in {"and", "or"} /\ Len(t.a) >= 2) \/ t.op \in {"implies", "iff"} \/ IsBoolIte(t)
IsCnfConn(t) == t.op \in {"and", "or", "not", "implies", "iff"} \/ IsBoolIte(t)
RECURSIVE KeyedSeq(_, _)
KeyedSeq(t, acc) ==            \* post-order, without repetitions
    IF ~IsCnfConn(t) THEN acc
    ELSE LET RECURSIVE Kids(_, _)
             Kids(j, a) == IF j > Len(t.a) THEN a ELSE Kids(j + 1, KeyedSeq(t.a[j], a))
             a1 == Kids(1, acc)
         IN  IF IsKeyed(t) /\ ~\E j \in 1..Len(a1) : a1[j] = t THEN Append(a1, t) ELSE a1
CKey(t, ks) == Sym("@c" \o ToString(CHOOSE j \in 1..Len(ks) : ks[j] = t), TBool)
NotS(a) == Simp(RNot(a))
CRes(l, cs) == [l |-> l, cs |-> cs]
RECURSIVE CnfW(_, _)
CnfW(t, ks) ==
    LET W(x) == CnfW(x, ks)
        k == CKey(t, ks)
        nk == Op("not", <<k>>)
    IN
    CASE t.op = "and" /\ Len(t.a) >= 2 ->
            LET rs == [j \in 1..Len(t.a) |-> W(t.a[j])]
            IN  CRes(k, {{k} \cup {NotS(rs[j].l) : j \in 1..Len(rs)}} \cup {{rs[j].l, nk} : j \in 1..Len(rs)}
                        \cup UNION {rs[j].cs : j \in 1..Len(rs)})
      [] t.op = "or" /\ Len(t.a) >= 2 ->
            LET rs == [j \in 1..Len(t.a) |-> W(t.a[j])]
            IN  CRes(k, {{nk} \cup {rs[j].l : j \in 1..Len(rs)}} \cup {{k, RNot(rs[j].l)} : j \in 1..Len(rs)}
                        \cup UNION {rs[j].cs : j \in 1..Len(rs)})
      [] t.op = "not" ->
            LET r == W(t.a[1])
            IN  IF r.l = BoolC(TRUE) THEN CRes(BoolC(FALSE), {}) ELSE IF r.l = BoolC(FALSE) THEN CRes(BoolC(TRUE), {})
                ELSE CRes(NotS(r.l), r.cs)
      [] t.op = "implies" ->
            LET a == W(t.a[1]) b == W(t.a[2])
            IN  CRes(k, a.cs \cup b.cs \cup {{NotS(a.l), b.l, nk}, {a.l, k}, {NotS(b.l), k}})
      [] t.op = "iff" ->
            LET a == W(t.a[1]) b == W(t.a[2])
            IN  CRes(k, a.cs \cup b.cs \cup {{NotS(a.l), NotS(b.l), k}, {NotS(a.l), b.l, nk}, {a.l, NotS(b.l), nk}, {a.l, b.l, k}})
      [] IsBoolIte(t) ->
            LET i == W(t.a[1]) th == W(t.a[2]) el == W(t.a[3])
            IN  CRes(k, i.cs \cup th.cs \cup el.cs \cup
                        {{NotS(i.l), NotS(th.l), k}, {NotS(i.l), th.l, nk}, {i.l, NotS(el.l), k}, {i.l, el.l, nk}})
      [] OTHER -> CRes(t, {})
\* CNFizer.convert + convert_as_formula
CnfM(t) ==
    LET ks == KeyedSeq(t, <<>>)
        r == CnfW(t, ks)
        ntl == NotS(r.l)
        Keep(c) == ~(BoolC(TRUE) \in c) /\ ~(r.l \in c)
        Strip(c) == {x \in c : x # ntl /\ x # BoolC(FALSE)}
        kept == {Strip(c) : c \in {c \in r.cs : Keep(c)}}
        clauses == IF r.cs = {} THEN {{r.l}}
                   ELSE IF ({} \in r.cs) \/ ({} \in kept) THEN {{}} ELSE kept
    IN  RAnd(SetToSeqBy({ROr(SetToSeqBy(c)) : c \in clauses}))

RewrModel(proc, t) == CASE proc = "cnf" -> CnfM(t) [] proc = "nnf" -> NnfM(t) [] proc = "prenex" -> PrenexM(t) [] OTHER -> AigM(t)
=============================================================================
