------------------------------ MODULE Rewriters ------------------------------
(***************************************************************************)
(* Rule models of pysmt.rewritings.NNFizer and AIGer (C10), transcribed     *)
(* from the code the way Simplifier.tla transcribes the simplifier: one     *)
(* case per walk_* callback, the constructor normalisations of the formula  *)
(* manager included (Not(Not(x)) = x, And() = true, And(x) = x; nothing is  *)
(* flattened or de-duplicated).  The NNFizer pushes negations down through  *)
(* _get_children (the children of a negated node are the negated children)  *)
(* and rebuilds in walk_not / walk_<op>.                                    *)
(* Used two ways: MC_Rewriters checks the MODEL against the abstract        *)
(* contract (advertised shape, same type, no new free symbol, equivalent    *)
(* under every enumerated interpretation) on whole TLC-generated layers;    *)
(* Trace_Rewr checks that the CODE's outputs are the model's outputs up to  *)
(* the order of commutative arguments (MODEL-DRIFT otherwise).              *)
(***************************************************************************)
EXTENDS Contracts

RNot(a) == IF a.op = "not" THEN a.a[1] ELSE Op("not", <<a>>)          \* FormulaManager.Not
RAnd(args) == IF Len(args) = 0 THEN BoolC(TRUE) ELSE IF Len(args) = 1 THEN args[1] ELSE Op("and", args)
ROr(args) == IF Len(args) = 0 THEN BoolC(FALSE) ELSE IF Len(args) = 1 THEN args[1] ELSE Op("or", args)
RQuant(q, t, body) == Quant(q, t.bv, body)
Dual(q) == IF q = "forall" THEN "exists" ELSE "forall"
IsBoolIte(t) == t.op = "ite" /\ TyF(t.a[2]) = TBool

RECURSIVE NnfM(_)
NnfM(t) ==
    LET N(x) == NnfM(x)
        NN(x) == NnfM(RNot(x))
    IN
    CASE t.op = "not" ->
            LET s == t.a[1] IN
            CASE s.op = "symbol" -> Op("not", <<s>>)
              [] s.op = "not" -> N(s.a[1])
              [] s.op = "and" -> ROr([j \in 1..Len(s.a) |-> NN(s.a[j])])
              [] s.op = "or" -> RAnd([j \in 1..Len(s.a) |-> NN(s.a[j])])
              [] s.op = "implies" -> RAnd(<<N(s.a[1]), NN(s.a[2])>>)
              [] s.op = "iff" -> ROr(<<RAnd(<<N(s.a[1]), NN(s.a[2])>>), RAnd(<<N(s.a[2]), NN(s.a[1])>>)>>)
              [] s.op \in {"forall", "exists"} -> RQuant(Dual(s.op), s, NN(s.a[1]))
              [] IsBoolIte(s) -> RAnd(<<ROr(<<NN(s.a[1]), NN(s.a[2])>>), ROr(<<N(s.a[1]), NN(s.a[3])>>)>>)
              [] OTHER -> RNot(N(s))
      [] t.op = "implies" -> ROr(<<NN(t.a[1]), N(t.a[2])>>)
      [] t.op = "iff" -> RAnd(<<ROr(<<NN(t.a[1]), N(t.a[2])>>), ROr(<<NN(t.a[2]), N(t.a[1])>>)>>)
      [] t.op = "and" -> RAnd([j \in 1..Len(t.a) |-> N(t.a[j])])
      [] t.op = "or" -> ROr([j \in 1..Len(t.a) |-> N(t.a[j])])
      [] t.op \in {"forall", "exists"} -> RQuant(t.op, t, N(t.a[1]))
      [] IsBoolIte(t) -> RAnd(<<ROr(<<NN(t.a[1]), N(t.a[2])>>), ROr(<<N(t.a[1]), N(t.a[3])>>)>>)
      [] OTHER -> t                   \* atoms, constants, applications: no recursion into theory terms

\* the AIGer walks the whole DAG but rebuilds only Boolean connectives; theory atoms are returned as they are
RECURSIVE AigM(_)
AigM(t) ==
    LET A(x) == AigM(x) IN
    CASE t.op = "and" -> RAnd([j \in 1..Len(t.a) |-> A(t.a[j])])
      [] t.op = "or" -> RNot(RAnd([j \in 1..Len(t.a) |-> RNot(A(t.a[j]))]))
      [] t.op = "not" -> RNot(A(t.a[1]))
      [] t.op = "implies" -> RNot(RAnd(<<A(t.a[1]), RNot(A(t.a[2]))>>))
      [] t.op = "iff" -> LET l == A(t.a[1]) r == A(t.a[2])
                         IN  RAnd(<<RNot(RAnd(<<l, RNot(r)>>)), RNot(RAnd(<<r, RNot(l)>>))>>)
      [] IsBoolIte(t) -> LET i == A(t.a[1]) th == A(t.a[2]) el == A(t.a[3])
                         IN  RAnd(<<RNot(RAnd(<<i, RNot(th)>>)), RNot(RAnd(<<RNot(i), RNot(el)>>))>>)
      [] t.op \in {"forall", "exists"} -> RQuant(t.op, t, A(t.a[1]))
      [] OTHER -> t

RewrModel(proc, t) == IF proc = "nnf" THEN NnfM(t) ELSE AigM(t)
=============================================================================
