------------------------------ MODULE Simplifier ------------------------------
(***************************************************************************)
(* Implementation-shaped model of pysmt.simplifier.Simplifier: one rule per *)
(* walk_* method, applied bottom-up to already simplified arguments         *)
(* (Simp).  Used by the design check MC_Simplify (the RULES preserve sort   *)
(* and meaning on every term of the enumerated layers) and for MODEL-DRIFT  *)
(* detection (the real output is compared with Simp(in) up to the order of  *)
(* commutative arguments, which in the code comes from Python sets).        *)
(* Constructor normalisations used by the rules are modelled by the Mk*     *)
(* operators (Not(Not a) = a, And() = TRUE, And(a) = a, Plus(a) = a).        *)
(***************************************************************************)
EXTENDS Contracts

IsC(t) == t.op \in ConstOps
IsBoolC(t, b) == t.op = "bool_constant" /\ t.i[1] = (IF b THEN 1 ELSE 0)
IsBVC(t) == t.op = "bv_constant"
IsIntC(t) == t.op = "int_constant"
IsRealC(t) == t.op = "real_constant"
IsStrC(t) == t.op = "str_constant"
IsZero(t) == (IsIntC(t) /\ t.i[1] = 0) \/ (IsRealC(t) /\ t.i[1] = 0)
IsOne(t) == (IsIntC(t) /\ t.i[1] = 1) \/ (IsRealC(t) /\ t.i[1] = 1 /\ t.i[2] = 1)
ConstVal(t) == Eval(t, EmptyMap, QDefault)         \* the Python value of a constant node

MkNot(a) == IF a.op = "not" THEN a.a[1] ELSE Op("not", <<a>>)
MkNary(op, args, unit) == IF Len(args) = 0 THEN unit ELSE IF Len(args) = 1 THEN args[1] ELSE Op(op, args)
SeqOfSet(S) == SetToSeqBy(S)
NumC(ty, q) == IF ty = TInt THEN IntC(q[1]) ELSE RealC(q)       \* q = <<n, d>>
QOf(t) == IF IsIntC(t) THEN <<t.i[1], 1>> ELSE <<t.i[1], t.i[2]>>

\* ---- Boolean rules
SimpNotArg(arg) == IF arg.op = "bool_constant" THEN BoolC(arg.i[1] = 0)
                   ELSE IF arg.op = "not" THEN arg.a[1] ELSE Op("not", <<arg>>)

RECURSIVE Flat(_, _)
Flat(op, args) == IF args = <<>> THEN <<>>
                  ELSE (IF Head(args).op = op THEN Head(args).a ELSE <<Head(args)>>) \o Flat(op, Tail(args))

SimpAndOr(op, args) ==
    LET unit == BoolC(op = "and")          \* neutral element
        zero == BoolC(op # "and")          \* absorbing element
        fl == Flat(op, SelectSeq(args, LAMBDA a : a # unit))
        S == {fl[j] : j \in 1..Len(fl)}
    IN  IF Len(args) = 2 /\ args[1] = args[2] THEN args[1]
        ELSE IF \E j \in 1..Len(args) : args[j] = zero THEN zero
        ELSE IF \E x \in S : SimpNotArg(x) \in S THEN zero
        ELSE MkNary(op, SeqOfSet(S), unit)

SimpIff(l, r) ==
    CASE l.op = "bool_constant" /\ r.op = "bool_constant" -> BoolC(l.i[1] = r.i[1])
      [] l.op = "bool_constant" -> IF l.i[1] = 1 THEN r ELSE MkNot(r)
      [] r.op = "bool_constant" -> IF r.i[1] = 1 THEN l ELSE MkNot(l)
      [] l = r -> BoolC(TRUE)
      [] OTHER -> Op("iff", <<l, r>>)

SimpImplies(l, r) ==
    CASE l.op = "bool_constant" -> IF l.i[1] = 1 THEN r ELSE BoolC(TRUE)
      [] r.op = "bool_constant" -> IF r.i[1] = 1 THEN BoolC(TRUE) ELSE MkNot(l)
      [] l = r -> BoolC(TRUE)
      [] OTHER -> Op("implies", <<l, r>>)

IsConstArr(t) == t.op = "array_value" /\ \A j \in 1..Len(t.a) : IsC(t.a[j]) \/ t.a[j].op = "array_value"
SimpEquals(l, r) ==
    CASE IsC(l) /\ IsC(r) -> BoolC(ConstVal(l) = ConstVal(r))
      [] l = r -> BoolC(TRUE)
      [] IsConstArr(l) /\ IsConstArr(r) /\ TyF(l).a[1].k \in {"Int", "Real", "String", "Bool", "BV"} ->
            BoolC(ConstVal(l) = ConstVal(r))          \* decided by comparing the denoted arrays
      [] OTHER -> Op("equals", <<l, r>>)

SimpIte(c, t, e) == IF t = e THEN t
                    ELSE IF c.op = "bool_constant" THEN (IF c.i[1] = 1 THEN t ELSE e)
                    ELSE Op("ite", <<c, t, e>>)

SimpLe(l, r) ==
    CASE IsC(l) /\ IsC(r) -> BoolC(QLe(QOf(l), QOf(r)))
      [] IsZero(l) /\ r.op = "minus" -> Op("le", <<r.a[2], r.a[1]>>)
      [] OTHER -> Op("le", <<l, r>>)
SimpLt(l, r) == IF IsC(l) /\ IsC(r) THEN BoolC(QLt(QOf(l), QOf(r))) ELSE Op("lt", <<l, r>>)

\* ---- arithmetic
LastConst(fs) == CHOOSE j \in 1..Len(fs) : IsC(fs[j]) /\ \A k \in (j + 1)..Len(fs) : ~IsC(fs[k])
RECURSIVE PlusParts(_)
\* flattens nested sums; result [sum, sub, c]: terms to add, terms to subtract, constant
PlusParts(args) ==
    IF args = <<>> THEN [sum |-> <<>>, sub |-> <<>>, c |-> <<0, 1>>]
    ELSE LET x == args[Len(args)]                 \* the code pops from the end of a stack
             rest == SubSeq(args, 1, Len(args) - 1)
         IN  IF IsC(x) THEN LET p == PlusParts(rest) IN [p EXCEPT !.c = QAdd(@, QOf(x))]
             ELSE IF x.op = "plus" THEN PlusParts(rest \o x.a)
             ELSE IF x.op = "minus" THEN LET p == PlusParts(rest) IN [p EXCEPT !.sum = <<x.a[1]>> \o @, !.sub = <<x.a[2]>> \o @]
             ELSE IF x.op = "times" /\ (\E j \in 1..Len(x.a) : IsC(x.a[j])) /\ QLt(QOf(x.a[LastConst(x.a)]), <<0, 1>>)
                  THEN LET jc == LastConst(x.a)         \* since fix 41 the constant factor is found at any position
                           k == QOf(x.a[jc])
                           others == SubSeq(x.a, 1, jc - 1) \o SubSeq(x.a, jc + 1, Len(x.a))
                           newargs == IF k = <<-1, 1>> THEN others ELSE Append(others, NumC(TyF(x), <<-k[1], k[2]>>))
                           p == PlusParts(rest)
                       IN  [p EXCEPT !.sub = <<MkNary("times", newargs, IntC(1))>> \o @]
             ELSE LET p == PlusParts(rest) IN [p EXCEPT !.sum = <<x>> \o @]

SimpPlus(args) ==
    LET ty == TyF(args[1])
        p == PlusParts(args)
        k == NumC(ty, p.c)
        sum2 == IF IsZero(k) THEN p.sum ELSE Append(p.sum, k)
    IN  IF p.sum = <<>> /\ p.sub = <<>> THEN k
        ELSE IF p.sub = <<>> THEN MkNary("plus", sum2, k)
        ELSE IF sum2 = <<>> THEN Op("times", <<NumC(ty, <<-1, 1>>), MkNary("plus", p.sub, k)>>)
        ELSE Op("minus", <<MkNary("plus", sum2, k), MkNary("plus", p.sub, k)>>)

RECURSIVE TimesParts(_)
TimesParts(args) ==
    IF args = <<>> THEN [fs |-> <<>>, c |-> <<1, 1>>, zero |-> FALSE]
    ELSE LET x == args[Len(args)]
             rest == SubSeq(args, 1, Len(args) - 1)
         IN  IF IsC(x) THEN (IF IsZero(x) THEN [fs |-> <<>>, c |-> <<0, 1>>, zero |-> TRUE]
                             ELSE LET p == TimesParts(rest) IN [p EXCEPT !.c = QMul(@, QOf(x))])
             ELSE IF x.op = "times" THEN TimesParts(rest \o x.a)
             ELSE LET p == TimesParts(rest) IN [p EXCEPT !.fs = <<x>> \o @]

\* The code sorts the factors by node id, so where the collected constant ends up depends on what was
\* created first in the environment: constLast = TRUE puts it last (symbols older than constants), FALSE
\* first.  The position used to matter to walk_plus, which only looked at the LAST factor of a product (a
\* history dependence beyond argument order, C14; repaired by fix 41 - both orders are still explored).
SimpTimes(args, constLast) ==
    LET ty == TyF(args[1])
        p == TimesParts(args)
        k == NumC(ty, p.c)
    IN  IF p.zero \/ IsZero(k) THEN NumC(ty, <<0, 1>>)
        ELSE IF p.fs = <<>> THEN k
        ELSE MkNary("times", IF IsOne(k) THEN p.fs ELSE IF constLast THEN Append(p.fs, k) ELSE <<k>> \o p.fs, k)

SimpMinus(l, r) ==
    CASE IsC(l) /\ IsC(r) -> NumC(TyF(l), QSub(QOf(l), QOf(r)))
      [] IsC(r) /\ IsZero(r) -> l
      [] l = r -> NumC(TyF(l), <<0, 1>>)
      [] OTHER -> Op("minus", <<l, r>>)

SimpDiv(l, r) ==
    CASE IsC(l) /\ IsC(r) /\ ~IsZero(r) ->
            IF IsRealC(l) THEN RealC(QDiv(QOf(l), QOf(r))) ELSE IntC(IntDiv(l.i[1], r.i[1]))
      [] IsC(l) /\ IsZero(l) -> l
      [] IsC(r) /\ IsOne(r) -> l
      \* FormulaManager.Div rewrites a division by a non-zero Real constant as a product with its inverse
      [] IsRealC(r) /\ ~IsZero(r) -> Op("times", <<l, RealC(QDiv(<<1, 1>>, QOf(r)))>>)
      [] OTHER -> Op("div", <<l, r>>)

SimpPow(b, e) == IF IsC(b) /\ ~(IsZero(b) /\ e.i[1] < 0) THEN RealC(QPow(QOf(b), e.i[1])) ELSE Op("pow", <<b, e>>)
SimpToReal(a) == IF IsC(a) THEN RealC(<<a.i[1], 1>>) ELSE Op("toreal", <<a>>)

\* ---- bit-vectors (w = result width)
BVV(t) == t.i[1]
SimpBV(t, args) ==
    LET op == t.op
        w == IF Len(t.i) >= 1 THEN t.i[1] ELSE 0
        a1 == args[1]
        a2 == IF Len(args) >= 2 THEN args[2] ELSE args[1]
        both == IsBVC(a1) /\ IsBVC(a2)
        keep == [t EXCEPT !.a = args]
        full == Pow2(w) - 1
        fold == BVC(Eval(keep, EmptyMap, QDefault), TyF(keep).w)         \* constant folding = the operator's meaning
    IN
    CASE op \in {"bv_not", "bv_neg", "bv_extract", "bv_rol", "bv_ror", "bv_zext", "bv_sext"} -> IF IsBVC(a1) THEN fold ELSE keep
      [] op = "bv_and" -> IF IsBVC(a1) THEN (IF BVV(a1) = 0 THEN BVC(0, w) ELSE IF BVV(a1) = full THEN a2 ELSE IF IsBVC(a2) THEN fold ELSE keep)
                          ELSE IF IsBVC(a2) THEN (IF BVV(a2) = 0 THEN BVC(0, w) ELSE IF BVV(a2) = full THEN a1 ELSE keep) ELSE keep
      [] op = "bv_or" -> IF IsBVC(a1) THEN (IF BVV(a1) = 0 THEN a2 ELSE IF BVV(a1) = full THEN BVC(full, w) ELSE IF IsBVC(a2) THEN fold ELSE keep)
                         ELSE IF IsBVC(a2) THEN (IF BVV(a2) = 0 THEN a1 ELSE IF BVV(a2) = full THEN BVC(full, w) ELSE keep) ELSE keep
      [] op \in {"bv_xor", "bv_concat", "bv_sdiv", "bv_srem", "bv_ashr"} -> IF both THEN fold ELSE keep
      [] op = "bv_add" -> IF IsBVC(a1) THEN (IF BVV(a1) = 0 THEN a2 ELSE IF IsBVC(a2) THEN fold ELSE keep)
                          ELSE IF IsBVC(a2) /\ BVV(a2) = 0 THEN a1 ELSE keep
      [] op = "bv_mul" -> IF IsBVC(a1) THEN (IF BVV(a1) = 0 THEN BVC(0, w) ELSE IF BVV(a1) = 1 THEN a2 ELSE IF IsBVC(a2) THEN fold ELSE keep)
                          ELSE IF IsBVC(a2) THEN (IF BVV(a2) = 0 THEN BVC(0, w) ELSE IF BVV(a2) = 1 THEN a1 ELSE keep) ELSE keep
      [] op = "bv_udiv" -> IF IsBVC(a2) THEN (IF BVV(a2) = 0 THEN BVC(full, w) ELSE IF BVV(a2) = 1 THEN a1 ELSE IF IsBVC(a1) THEN fold ELSE keep) ELSE keep
      [] op = "bv_urem" -> IF IsBVC(a2) THEN (IF BVV(a2) = 0 THEN a1 ELSE IF BVV(a2) = 1 THEN BVC(0, w) ELSE IF IsBVC(a1) THEN fold ELSE keep)
                           ELSE IF IsBVC(a1) /\ BVV(a1) = 0 THEN BVC(0, w) ELSE keep
      [] op \in {"bv_lshl", "bv_lshr"} ->
            IF IsBVC(a2) THEN (IF BVV(a2) = 0 THEN a1 ELSE IF BVV(a2) >= w THEN BVC(0, w) ELSE IF IsBVC(a1) THEN fold ELSE keep)
            ELSE IF IsBVC(a1) /\ BVV(a1) = 0 THEN a1 ELSE keep
      [] op = "bv_sub" -> IF IsBVC(a2) /\ BVV(a2) = 0 THEN a1
                          ELSE IF both THEN fold ELSE IF a1 = a2 THEN BVC(0, w) ELSE keep
      [] op = "bv_ult" -> IF a1 = a2 THEN BoolC(FALSE)
                          ELSE IF IsBVC(a2) THEN (IF BVV(a2) = 0 THEN BoolC(FALSE) ELSE IF IsBVC(a1) THEN BoolC(BVV(a1) < BVV(a2)) ELSE keep) ELSE keep
      [] op = "bv_ule" -> IF a1 = a2 THEN BoolC(TRUE)
                          ELSE IF IsBVC(a1) THEN (IF BVV(a1) = 0 THEN BoolC(TRUE) ELSE IF IsBVC(a2) THEN BoolC(BVV(a1) <= BVV(a2)) ELSE keep) ELSE keep
      [] op \in {"bv_slt", "bv_sle"} -> IF both THEN BoolC(Eval(keep, EmptyMap, QDefault))
                                        ELSE IF a1 = a2 THEN BoolC(op = "bv_sle") ELSE keep
      [] op = "bv_comp" -> IF a1 = a2 THEN BVC(1, 1) ELSE IF both THEN BVC(0, 1) ELSE keep
      [] op = "bv_tonatural" -> IF IsBVC(a1) THEN IntC(BVV(a1)) ELSE keep
      [] OTHER -> keep

\* ---- strings and arrays: fold when every argument is a constant
SimpStr(t, args) ==
    LET keep == [t EXCEPT !.a = args]
        allc == \A j \in 1..Len(args) : IsC(args[j])
        v == Eval(keep, EmptyMap, QDefault)
        ty == TyF(keep)
    IN  IF ~allc THEN keep
        ELSE IF ty = TInt THEN IntC(v) ELSE IF ty = TBool THEN BoolC(v) ELSE StrC(v)

SimpSelect(a, i) == IF a.op = "array_value" /\ IsC(i)
                    THEN LET ks == {j \in 1..((Len(a.a) - 1) \div 2) : a.a[2 * j] = i}
                         IN  IF ks = {} THEN a.a[1] ELSE a.a[2 * (CHOOSE j \in ks : TRUE) + 1]
                    ELSE Op("array_select", <<a, i>>)

\* FormulaManager.Array: assignments equal to the default are dropped (the order, by object address, is not modelled)
MkArray(ity, d, pairs) ==
    LET kept == SelectSeq(pairs, LAMBDA pr : pr[2] # d)
        RECURSIVE Cat(_)
        Cat(ps) == IF ps = <<>> THEN <<>> ELSE <<Head(ps)[1], Head(ps)[2]>> \o Cat(Tail(ps))
    IN  ArrV(ity, <<d>> \o Cat(kept))
PairsOf(a) == [j \in 1..((Len(a.a) - 1) \div 2) |-> <<a.a[2 * j], a.a[2 * j + 1]>>]
SimpStore(a, i, v) ==
    IF a.op = "array_value" /\ IsC(i)
    THEN MkArray(a.ty, a.a[1], Append(SelectSeq(PairsOf(a), LAMBDA pr : pr[1] # i), <<i, v>>))
    ELSE Op("array_store", <<a, i, v>>)

\* ---- quantifiers: keep only the bound variables that are free in the simplified body
SimpQuant(t, body) ==
    LET fv == FreeNames(body)
        vs == SelectSeq(t.bv, LAMBDA v : v.n \in fv)
    IN  IF vs = <<>> THEN body ELSE Quant(t.op, vs, body)

StringOps == {"str_length", "str_concat", "str_contains", "str_indexof", "str_replace", "str_substr",
              "str_prefixof", "str_suffixof", "str_to_int", "int_to_str", "str_charat"}

RECURSIVE SimpM(_, _)
SimpM(t, constLast) ==
    LET args == [j \in 1..Len(t.a) |-> SimpM(t.a[j], constLast)]
        op == t.op
    IN
    CASE op \in {"symbol"} \cup ConstOps -> t
      [] op \in {"and", "or"} -> SimpAndOr(op, args)
      [] op = "not" -> SimpNotArg(args[1])
      [] op = "iff" -> SimpIff(args[1], args[2])
      [] op = "implies" -> SimpImplies(args[1], args[2])
      [] op = "equals" -> SimpEquals(args[1], args[2])
      [] op = "ite" -> SimpIte(args[1], args[2], args[3])
      [] op = "le" -> SimpLe(args[1], args[2])
      [] op = "lt" -> SimpLt(args[1], args[2])
      [] op = "plus" -> SimpPlus(args)
      [] op = "times" -> SimpTimes(args, constLast)
      [] op = "minus" -> SimpMinus(args[1], args[2])
      [] op = "div" -> SimpDiv(args[1], args[2])
      [] op = "pow" -> SimpPow(args[1], args[2])
      [] op = "toreal" -> SimpToReal(args[1])
      [] op \in {"forall", "exists"} -> SimpQuant(t, args[1])
      [] op = "function" -> [t EXCEPT !.a = args]
      [] op \in StringOps -> SimpStr(t, args)
      [] op = "array_select" -> SimpSelect(args[1], args[2])
      [] op = "array_store" -> SimpStore(args[1], args[2], args[3])
      [] op = "array_value" -> MkArray(t.ty, args[1], [j \in 1..((Len(args) - 1) \div 2) |-> <<args[2 * j], args[2 * j + 1]>>])
      [] OTHER -> SimpBV(t, args)

Simp(t) == SimpM(t, TRUE)
SimpAlt(t) == SimpM(t, FALSE)

=============================================================================
