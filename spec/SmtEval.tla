------------------------------ MODULE SmtEval -------------------------------
(***************************************************************************)
(* The meaning of pySMT terms: Eval(t, I, Q) is the value of the well-typed *)
(* term t under the interpretation I (a function from symbol names to       *)
(* values) with Int/Real/String binders ranging over the finite non-empty   *)
(* domains Q.int / Q.real / Q.str (Bool and bit-vector binders range over   *)
(* the whole sort).  Operator meanings follow the SMT-LIB theory            *)
(* definitions (Core, Ints, Reals, Reals_Ints, FixedSizeBitVectors,         *)
(* ArraysEx, Strings 2.6).                                                  *)
(*                                                                         *)
(* Division by zero: Eval is total (x/0 = 0) and DivZero(t, I, Q) says      *)
(* whether evaluating t under I evaluates a division by zero (only the      *)
(* taken branch of an ite counts).  Contracts do not constrain such I.      *)
(***************************************************************************)
EXTENDS SmtTypes

\* --------------------------------------------------------------- arrays
\* number of elements of an index sort; 0 stands for "infinite"
RECURSIVE SortCard(_)
SortCard(ty) ==
    CASE ty.k = "Bool" -> 2
      [] ty.k = "BV" -> IF ty.w <= 12 THEN Pow2(ty.w) ELSE 0   \* "large": never exhausted by a few stores
      [] OTHER -> 0

\* the elements of a finite sort, as a sequence
SortElems(ty) ==
    IF ty.k = "Bool" THEN <<FALSE, TRUE>> ELSE [j \in 1..Pow2(ty.w) |-> j - 1]

ArrGet(arr, k) == MapGet(arr.m, arr.d, k)

\* canonical representative of an array value (extensional equality = equality)
ArrCanon(ity, arr) ==
    LET m1 == MapDropDefault(arr.m, arr.d)
        c  == SortCard(ity)
    IN  IF c = 0 \/ Cardinality(DOMAIN m1) < c
        THEN [d |-> arr.d, m |-> m1]
        ELSE \* every index is an exception: pick the value at the first element as default
             LET es == SortElems(ity)
                 d2 == m1[es[1]]
             IN  [d |-> d2, m |-> MapDropDefault(m1, d2)]

ArrStore(ity, arr, k, v) == ArrCanon(ity, [d |-> arr.d, m |-> MapPut(arr.m, k, v)])
ArrConst(v) == [d |-> v, m |-> EmptyMap]

\* --------------------------------------------------------------- helpers
BoolOf(i) == i = 1
RealOf(t) == QNorm(t.i[1], t.i[2])

SeqAll(s, P(_)) == \A j \in 1..Len(s) : P(s[j])
RECURSIVE SumInts(_)
SumInts(s) == IF s = <<>> THEN 0 ELSE Head(s) + SumInts(Tail(s))
RECURSIVE ProdInts(_)
ProdInts(s) == IF s = <<>> THEN 1 ELSE Head(s) * ProdInts(Tail(s))
RECURSIVE SumQ(_)
SumQ(s) == IF s = <<>> THEN <<0, 1>> ELSE QAdd(Head(s), SumQ(Tail(s)))
RECURSIVE ProdQ(_)
ProdQ(s) == IF s = <<>> THEN <<1, 1>> ELSE QMul(Head(s), ProdQ(Tail(s)))
RECURSIVE ConcatAll(_)
ConcatAll(s) == IF s = <<>> THEN <<>> ELSE Head(s) \o ConcatAll(Tail(s))

\* all assignments of the bound variables vs (sequence of [n, ty]) as a set of
\* functions name -> value; Q gives the finite domains of the infinite sorts
BinderDomain(ty, Q) ==
    CASE ty.k = "Bool" -> {FALSE, TRUE}
      [] ty.k = "BV" -> 0..(Pow2(ty.w) - 1)
      [] ty.k = "Int" -> Q.int
      [] ty.k = "Real" -> Q.real
      [] ty.k = "String" -> Q.str
      [] OTHER -> {}     \* binders of other sorts are outside the evaluated fragment

RECURSIVE BinderAssignments(_, _)
BinderAssignments(vs, Q) ==
    IF vs = <<>> THEN { EmptyMap }
    ELSE LET rest == BinderAssignments(Tail(vs), Q)
             v == Head(vs)
         IN  \* a later binder of the same name wins inside `rest`; the first
             \* occurrence is then irrelevant, exactly as in SMT-LIB
             { IF v.n \in DOMAIN r THEN r ELSE MapPut(r, v.n, x) :
                   r \in rest, x \in BinderDomain(v.ty, Q) }

Override(I, J) == [n \in DOMAIN I \cup DOMAIN J |-> IF n \in DOMAIN J THEN J[n] ELSE I[n]]

\* can the binders of t be evaluated (their sorts have a domain)?
BindersEvaluable(vs) == \A j \in 1..Len(vs) : vs[j].ty.k \in {"Bool", "BV", "Int", "Real", "String"}

\* --------------------------------------------------------------- Eval
RECURSIVE Eval(_, _, _)
Eval(t, I, Q) ==
    LET op == t.op
        A(j) == Eval(t.a[j], I, Q)
        n == Len(t.a)
        args == [j \in 1..n |-> Eval(t.a[j], I, Q)]
    IN
    CASE op = "symbol" -> I[t.n]
      [] op = "bool_constant" -> BoolOf(t.i[1])
      [] op = "int_constant" -> t.i[1]
      [] op = "real_constant" -> RealOf(t)
      [] op = "bv_constant" -> t.i[1]
      [] op = "str_constant" -> t.s
      [] op = "and" -> \A j \in 1..n : A(j)
      [] op = "or" -> \E j \in 1..n : A(j)
      [] op = "not" -> ~A(1)
      [] op = "implies" -> (~A(1)) \/ A(2)
      [] op = "iff" -> A(1) = A(2)
      [] op = "ite" -> IF A(1) THEN A(2) ELSE A(3)
      [] op = "equals" -> A(1) = A(2)
      [] op = "forall" -> \A J \in BinderAssignments(t.bv, Q) : Eval(t.a[1], Override(I, J), Q)
      [] op = "exists" -> \E J \in BinderAssignments(t.bv, Q) : Eval(t.a[1], Override(I, J), Q)
      [] op = "function" ->
            LET f == I[t.n]
            IN  IF "body" \in DOMAIN f
                THEN \* the symbol is interpreted by a definition [params, body]
                     Eval(f.body, [nm \in {f.params[j].n : j \in 1..Len(f.params)} |->
                                      args[CHOOSE j \in 1..Len(f.params) : f.params[j].n = nm]], Q)
                ELSE MapGet(f.m, f.d, args)
      \* ---- arithmetic
      [] op = "plus" -> IF TyF(t.a[1]) = TInt THEN SumInts(args) ELSE SumQ(args)
      [] op = "times" -> IF TyF(t.a[1]) = TInt THEN ProdInts(args) ELSE ProdQ(args)
      [] op = "minus" -> IF TyF(t.a[1]) = TInt THEN A(1) - A(2) ELSE QSub(A(1), A(2))
      [] op = "div" ->
            IF TyF(t.a[1]) = TInt
            THEN (IF A(2) = 0 THEN 0 ELSE IntDiv(A(1), A(2)))
            ELSE (IF QIsZero(A(2)) THEN <<0, 1>> ELSE QDiv(A(1), A(2)))
      [] op = "pow" ->
            \* the exponent is an integer-valued constant (others are outside the fragment)
            LET e == IF t.a[2].op = "int_constant" THEN t.a[2].i[1] ELSE t.a[2].i[1]
                b == IF TyF(t.a[1]) = TInt THEN QOfInt(A(1)) ELSE A(1)
            IN  IF QIsZero(b) /\ e < 0 THEN <<0, 1>> ELSE QPow(b, e)
      [] op = "le" -> IF TyF(t.a[1]) = TInt THEN A(1) <= A(2) ELSE QLe(A(1), A(2))
      [] op = "lt" -> IF TyF(t.a[1]) = TInt THEN A(1) < A(2) ELSE QLt(A(1), A(2))
      [] op = "toreal" -> QOfInt(A(1))
      \* ---- bit-vectors
      [] op = "bv_not" -> BVNot(A(1), t.i[1])
      [] op = "bv_neg" -> BVNeg(A(1), t.i[1])
      [] op = "bv_and" -> BVBitwise(1, A(1), A(2), t.i[1])
      [] op = "bv_or" -> BVBitwise(2, A(1), A(2), t.i[1])
      [] op = "bv_xor" -> BVBitwise(3, A(1), A(2), t.i[1])
      [] op = "bv_add" -> BVAdd(A(1), A(2), t.i[1])
      [] op = "bv_sub" -> BVSub(A(1), A(2), t.i[1])
      [] op = "bv_mul" -> BVMul(A(1), A(2), t.i[1])
      [] op = "bv_udiv" -> BVUDiv(A(1), A(2), t.i[1])
      [] op = "bv_urem" -> BVURem(A(1), A(2), t.i[1])
      [] op = "bv_sdiv" -> BVSDiv(A(1), A(2), t.i[1])
      [] op = "bv_srem" -> BVSRem(A(1), A(2), t.i[1])
      [] op = "bv_lshl" -> BVShl(A(1), A(2), t.i[1])
      [] op = "bv_lshr" -> BVLShr(A(1), A(2), t.i[1])
      [] op = "bv_ashr" -> BVAShr(A(1), A(2), t.i[1])
      [] op = "bv_concat" -> BVConcat(A(1), A(2), TyF(t.a[2]).w)
      [] op = "bv_extract" -> BVExtract(A(1), t.i[2], t.i[3])
      [] op = "bv_rol" -> BVRol(A(1), t.i[2], t.i[1])
      [] op = "bv_ror" -> BVRor(A(1), t.i[2], t.i[1])
      [] op = "bv_zext" -> A(1)
      [] op = "bv_sext" -> BVSExt(A(1), t.i[2], t.i[1] - t.i[2])
      [] op = "bv_ult" -> A(1) < A(2)
      [] op = "bv_ule" -> A(1) <= A(2)
      [] op = "bv_slt" -> LET w == TyF(t.a[1]).w IN BVSigned(A(1), w) < BVSigned(A(2), w)
      [] op = "bv_sle" -> LET w == TyF(t.a[1]).w IN BVSigned(A(1), w) <= BVSigned(A(2), w)
      [] op = "bv_comp" -> IF A(1) = A(2) THEN 1 ELSE 0
      [] op = "bv_tonatural" -> A(1)
      \* ---- strings
      [] op = "str_length" -> Len(A(1))
      [] op = "str_concat" -> ConcatAll(args)
      [] op = "str_contains" -> StrContains(A(1), A(2))
      [] op = "str_indexof" -> StrIndexOf(A(1), A(2), A(3))
      [] op = "str_replace" -> StrReplace(A(1), A(2), A(3))
      [] op = "str_substr" -> StrSubstr(A(1), A(2), A(3))
      [] op = "str_prefixof" -> IsPrefixS(A(1), A(2))
      [] op = "str_suffixof" -> IsSuffixS(A(1), A(2))
      [] op = "str_to_int" -> StrToInt(A(1))
      [] op = "int_to_str" -> StrFromInt(A(1))
      [] op = "str_charat" -> StrAt(A(1), A(2))
      \* ---- arrays
      [] op = "array_select" -> ArrGet(A(1), A(2))
      [] op = "array_store" -> ArrStore(TyF(t.a[1]).a[1], A(1), A(2), A(3))
      [] op = "array_value" ->
            LET ks == {j \in 1..((n - 1) \div 2) : TRUE}
                \* later assignments to an equal key cannot occur: keys are distinct constants
                m == [k \in {args[2 * j] : j \in ks} |->
                        args[(CHOOSE j \in ks : args[2 * j] = k) * 2 + 1]]
            IN  ArrCanon(t.ty, [d |-> args[1], m |-> m])

\* --------------------------------------------------------------- DivZero
RECURSIVE HasOp(_, _)
HasOp(t, ops) == t.op \in ops \/ \E j \in 1..Len(t.a) : HasOp(t.a[j], ops)

RECURSIVE DivZeroR(_, _, _)
DivZeroR(t, I, Q) ==
    LET op == t.op
        sub(j) == DivZeroR(t.a[j], I, Q)
    IN
    CASE op = "div" ->
            sub(1) \/ sub(2)
            \/ (IF TyF(t.a[1]) = TInt THEN Eval(t.a[2], I, Q) = 0 ELSE QIsZero(Eval(t.a[2], I, Q)))
      [] op = "pow" ->
            sub(1) \/ (t.a[2].i[1] < 0 /\
                       (IF TyF(t.a[1]) = TInt THEN Eval(t.a[1], I, Q) = 0
                                              ELSE QIsZero(Eval(t.a[1], I, Q))))
      [] op = "ite" -> sub(1) \/ (IF Eval(t.a[1], I, Q) THEN sub(2) ELSE sub(3))
      [] op \in {"forall", "exists"} ->
            \E J \in BinderAssignments(t.bv, Q) : DivZeroR(t.a[1], Override(I, J), Q)
      [] OTHER -> \E j \in 1..Len(t.a) : sub(j)

DivZero(t, I, Q) == HasOp(t, {"div", "pow"}) /\ DivZeroR(t, I, Q)

\* terms whose meaning this module defines
RECURSIVE Evaluable(_)
Evaluable(t) ==
    /\ t.op # "algebraic_constant"
    /\ t.op \in {"forall", "exists"} => BindersEvaluable(t.bv)
    /\ t.op = "pow" => (t.a[2].op = "int_constant" \/ (t.a[2].op = "real_constant" /\ t.a[2].i[2] = 1))
    /\ \A j \in 1..Len(t.a) : Evaluable(t.a[j])

=============================================================================
