----------------------------- MODULE SmtInterps -----------------------------
(***************************************************************************)
(* Bounded spaces of interpretations.  Carrier(ty) is a finite sequence of  *)
(* values of sort ty (all of them for Bool and narrow bit-vectors, boundary *)
(* and mixed values otherwise); InterpN(syms, k, cap) is the k-th           *)
(* interpretation of the symbols `syms`: exhaustive (mixed-radix counting)  *)
(* when the product of the carriers is at most `cap`, a fixed pseudo-random *)
(* sample of `cap` points of the product otherwise.  Every point is a       *)
(* genuine SMT interpretation, so a contract refuted at one of them is a    *)
(* real counterexample.                                                     *)
(***************************************************************************)
EXTENDS SmtSyntaxFns

CONSTANT Seed            \* natural number; varies the sampled points

SEmpty == <<>>
Sa == <<97>>
Sab == <<97, 98>>
Sba == <<98, 97>>
S0 == <<48>>
S10 == <<49, 48>>
Sm1 == <<45, 49>>

BVCarrier(w) ==
    IF w <= 3 THEN [j \in 1..Pow2(w) |-> j - 1]
    ELSE <<0, 1, Pow2(w) - 1, Pow2(w - 1), Pow2(w - 1) - 1, 2, Pow2(w) - 2, 5 % Pow2(w)>>

RECURSIVE Carrier(_)
Carrier(ty) ==
    CASE ty.k = "Bool" -> <<FALSE, TRUE>>
      [] ty.k = "Int" -> <<0, 1, -1, 2, -2, 7>>
      [] ty.k = "Real" -> <<<<0, 1>>, <<1, 1>>, <<-1, 1>>, <<1, 2>>, <<2, 1>>, <<-3, 2>>>>
      [] ty.k = "BV" -> BVCarrier(ty.w)
      [] ty.k = "String" -> <<SEmpty, Sa, Sab, Sba, S0, S10, Sm1>>
      [] ty.k = "Sort" -> <<0, 1, 2>>
      [] ty.k = "Array" ->
            LET ks == Carrier(ty.a[1])
                vs == Carrier(ty.a[2])
                v(j) == vs[((j - 1) % Len(vs)) + 1]
                k(j) == ks[((j - 1) % Len(ks)) + 1]
                mk(d, m) == ArrCanon(ty.a[1], [d |-> d, m |-> m])
            IN  << mk(v(1), EmptyMap),
                   mk(v(2), EmptyMap),
                   mk(v(1), MapPut(EmptyMap, k(1), v(2))),
                   mk(v(1), MapPut(EmptyMap, k(2), v(2))),
                   mk(v(2), MapPut(MapPut(EmptyMap, k(1), v(1)), k(2), v(3))) >>
      [] ty.k = "Fun" ->
            LET vs == Carrier(ty.a[1])
                v(j) == vs[((j - 1) % Len(vs)) + 1]
                ps == Tail(ty.a)
                arg(j) == [p \in 1..Len(ps) |->
                              LET c == Carrier(ps[p]) IN c[((j + p - 2) % Len(c)) + 1]]
            IN  << [d |-> v(1), m |-> EmptyMap],
                   [d |-> v(2), m |-> EmptyMap],
                   [d |-> v(1), m |-> MapPut(EmptyMap, arg(1), v(2))],
                   [d |-> v(2), m |-> MapPut(MapPut(EmptyMap, arg(1), v(1)), arg(2), v(3))],
                   [d |-> v(3), m |-> MapPut(MapPut(EmptyMap, arg(2), v(1)), arg(3), v(2))] >>
      [] OTHER -> <<>>

\* sorts for which a carrier exists
RECURSIVE HasCarrier(_)
HasCarrier(ty) ==
    CASE ty.k \in {"Bool", "Int", "Real", "String", "Sort"} -> TRUE
      [] ty.k = "BV" -> ty.w >= 1 /\ ty.w <= 15
      [] ty.k \in {"Array", "Fun"} -> \A j \in 1..Len(ty.a) : HasCarrier(ty.a[j])
      [] OTHER -> FALSE

\* symbols in a fixed order
RECURSIVE SetToSeqBy(_)
SetToSeqBy(Sx) == IF Sx = {} THEN <<>>
                  ELSE LET x == CHOOSE x \in Sx : TRUE IN <<x>> \o SetToSeqBy(Sx \ {x})

RECURSIVE ProdCapped(_, _)
\* product of the carrier sizes, saturating at cap + 1
ProdCapped(sizes, cap) ==
    IF sizes = <<>> THEN 1
    ELSE LET r == ProdCapped(Tail(sizes), cap)
         IN  IF r > cap THEN r ELSE Min2(Head(sizes) * r, cap + 1)

\* number of interpretations that will be enumerated
NumInterps(symseq, cap) ==
    Min2(ProdCapped([j \in 1..Len(symseq) |-> Len(Carrier(symseq[j].ty))], cap), cap)

\* digit of symbol j in the k-th point (k from 0)
RECURSIVE MixedRadix(_, _, _)
MixedRadix(sizes, k, j) ==
    IF j = 1 THEN k % sizes[1] ELSE MixedRadix(Tail(sizes), k \div sizes[1], j - 1)

PseudoDigit(k, j, radix) == ((k * 7919 + j * 104729 + Seed * 31 + (k * j) * 13) % 65521) % radix

InterpAt(symseq, k, cap) ==
    LET sizes == [j \in 1..Len(symseq) |-> Len(Carrier(symseq[j].ty))]
        exhaustive == ProdCapped(sizes, cap) <= cap
        dig(j) == IF exhaustive THEN MixedRadix(sizes, k, j) ELSE
                  \* the first two sample points are all-first and all-second carrier elements
                  IF k = 0 THEN 0 ELSE IF k = 1 THEN 1 % sizes[j] ELSE PseudoDigit(k, j, sizes[j])
        names == {symseq[j].n : j \in 1..Len(symseq)}
    IN  [nm \in names |->
            LET j == CHOOSE j \in 1..Len(symseq) : symseq[j].n = nm
            IN  Carrier(symseq[j].ty)[dig(j) + 1]]

\* the interpretations of a set of symbols, as a set of indices 0..N-1 to be fed to InterpAt
InterpIdx(symseq, cap) == 0..(NumInterps(symseq, cap) - 1)

\* quantification domains tried for Int/Real/String binders
QDomains ==
    << [int |-> {0}, real |-> {<<0, 1>>}, str |-> {SEmpty}],
       [int |-> {-1, 0, 1, 2}, real |-> {<<-1, 1>>, <<0, 1>>, <<1, 2>>, <<2, 1>>}, str |-> {SEmpty, Sa, Sab}],
       [int |-> {1, 7}, real |-> {<<1, 1>>, <<-3, 2>>}, str |-> {Sba, S0}] >>
QDefault == QDomains[2]

=============================================================================
