--------------------------- MODULE SmtLibContracts ---------------------------
(***************************************************************************)
(* Contracts of the SMT-LIB printers and parsers (C07, C08, C09), stated    *)
(* with the meaning of SMT-LIB text defined in SmtLibSyntax.tla.            *)
(***************************************************************************)
EXTENDS SmtLibSyntax
SqX == INSTANCE SequencesExt

SigOf(scope) == [nm \in {scope[j].n : j \in 1..Len(scope)} |-> scope[CHOOSE j \in 1..Len(scope) : scope[j].n = nm].ty]

SameMeaning(a, b) == IF ~(CanEval(a) /\ CanEval(b)) THEN -2 ELSE EquivWitness(a, b)

\* ------------------------------------------------------------------ C07
(* to_smtlib(f): the printed term sx read in the scope of f's own symbols *)
PrintTermContract(e) ==
    LET env == [EmptyEnv EXCEPT !.sig = SigOf(e.scope), !.sorts = [nm \in {e.sortnames[j].n : j \in 1..Len(e.sortnames)} |->
                                                                        e.sortnames[CHOOSE j \in 1..Len(e.sortnames) : e.sortnames[j].n = nm].ar]]
        t == Elab(e.sx, env)
        tt == IF IsErr(t) THEN Ill ELSE TypeOf(t)
        tf == TypeOf(e.f)
    IN  IF e.res # "ok" THEN Verdict(<<"printer_raised">>, <<>>, -1)
        ELSE IF IsErr(t) THEN Verdict(<<"well_formed_smtlib", t.n>>, <<>>, -1)
        ELSE IF tt = Ill THEN Verdict(<<"well_formed_smtlib", "ill-sorted">>, <<>>, -1)
        ELSE IF tt # tf THEN Verdict(<<"same_sort">>, <<>>, -1)
        ELSE LET w == SameMeaning(e.f, t)
             IN  IF w = -2 THEN Verdict(<<>>, <<"same_meaning">>, -1) ELSE Verdict(Fl("same_meaning", w = -1), <<>>, w)

(* a whole script produced for f (smtlibscript_from_formula / write_smtlib / SmtLibScript.serialize) *)
PrintScriptContract(e) ==
    LET st == RunScript(e.sxs, InitScript)
        env == CurEnv(st)
        asserts == SelectSeq(st.cmds, LAMBDA c : c.name = "assert")
        declared == \A sy \in FreeSyms(e.f) : sy.n \in DOMAIN env.sig /\ env.sig[sy.n] = sy.ty
    IN  IF e.res # "ok" THEN Verdict(<<"printer_raised">>, <<>>, -1)
        ELSE IF st.illegal # <<>> THEN Verdict(<<"legal_script_declared_before_use">> \o st.illegal, <<>>, -1)
        ELSE IF ~declared THEN Verdict(<<"declares_symbols_with_their_sorts">>, <<>>, -1)
        ELSE IF Len(asserts) = 0 THEN Verdict(<<"formula_is_asserted">>, <<>>, -1)
        ELSE LET t == asserts[Len(asserts)].terms[1]
                 w == SameMeaning(e.f, t)
             IN  IF TypeOf(t) # TypeOf(e.f) THEN Verdict(<<"same_sort">>, <<>>, -1)
                 ELSE IF w = -2 THEN Verdict(<<>>, <<"same_meaning">>, -1) ELSE Verdict(Fl("same_meaning", w = -1), <<>>, w)

\* ------------------------------------------------------------------ C08
(* get_script(text): sxs = the commands of the text, parsed[k] = [name, terms, formals, params] *)
ParseContract(e) ==
    LET st == RunScript(e.sxs, InitScript)
        n == Len(st.cmds)
        \* definitions: pySMT names the formal parameters with fresh symbols; map them back positionally
        Back(k, t) == IF Len(e.parsed[k].formals) = 0 THEN t
                      ELSE RenameSyms(t, [nm \in SeqSet(e.parsed[k].formals) |->
                               e.parsed[k].params[CHOOSE j \in 1..Len(e.parsed[k].formals) : e.parsed[k].formals[j] = nm]])
        Cmp(k, j) == \* 0 ok, 1 sort differs, 2 meaning differs, 3 cannot evaluate
            LET want == st.cmds[k].terms[j]
                got == Back(k, e.parsed[k].terms[j])
            IN  IF want.op = "symbol" /\ want.ty.k = "Fun" THEN (IF got = want THEN 0 ELSE 2)     \* declared function symbol
                ELSE IF TypeOf(got) = Ill \/ TypeOf(got) # TypeOf(want) THEN 1
                ELSE LET w == SameMeaning(want, got) IN IF w = -2 THEN 3 ELSE IF w = -1 THEN 0 ELSE 2
        aligned == Len(e.parsed) = n /\ \A k \in 1..n : e.parsed[k].name = st.cmds[k].name
                                                         /\ Len(e.parsed[k].terms) = Len(st.cmds[k].terms)
        pairs == UNION {{<<k, j>> : j \in 1..Len(st.cmds[k].terms)} : k \in 1..n}
        results == {<<pr[1], pr[2], Cmp(pr[1], pr[2])>> : pr \in pairs}
    IN  IF e.res # "ok"
        THEN \* rejecting is allowed, unless the text is in the accepted-today baseline
             Verdict(Fl("accepted_today_keeps_being_accepted", ~e.in_baseline), <<>>, -1)
        ELSE IF e.expect = "reject" THEN Verdict(<<"text_it_cannot_handle_is_rejected">>, <<>>, -1)
        ELSE IF st.illegal # <<>> THEN Verdict(<<>>, <<"spec_cannot_elaborate">>, -1)
        ELSE IF ~aligned THEN Verdict(<<"commands_map_one_to_one">>, <<>>, -1)
        ELSE Verdict(Fl("same_sort", ~\E r \in results : r[3] = 1) \o
                     Fl("same_meaning", ~\E r \in results : r[3] = 2),
                     IF \E r \in results : r[3] = 3 THEN <<"same_meaning">> ELSE <<>>,
                     IF \E r \in results : r[3] \in {1, 2} THEN (CHOOSE r \in results : r[3] \in {1, 2})[1] ELSE -1)

\* ------------------------------------------------------------------ C09
\* a constant-array literal comes back as the equivalent chain of stores over the constant array
RECURSIVE AsStores(_)
AsStores(t) ==
    LET args == [j \in 1..Len(t.a) |-> AsStores(t.a[j])]
        RECURSIVE Chain2(_, _)
        Chain2(base, j) == IF j + 1 > Len(args) THEN base
                           ELSE Chain2(Op("array_store", <<base, args[j], args[j + 1]>>), j + 2)
    IN  IF t.op = "array_value" THEN Chain2(ArrV(t.ty, <<args[1]>>), 2)
        ELSE [t EXCEPT !.a = args]

(* The literal keeps its assignments in an unspecified order (FormulaManager.Array sorts them by object
   identity) and the printer emits the stores sorted by the text of the index, so "the equivalent chain of
   stores" is a chain over the same constant array with the same set of (distinct constant index, value)
   assignments, in any order: chains of that form are compared as sets. *)
RECURSIVE ChainBase(_), ChainPairs(_), CanonStores(_)
ChainBase(t)  == IF t.op = "array_store" THEN ChainBase(t.a[1]) ELSE t
ChainPairs(t) == IF t.op = "array_store" THEN ChainPairs(t.a[1]) \o << <<t.a[2], t.a[3]>> >> ELSE <<>>
CanonStores(t) ==
    LET b  == ChainBase(t)
        ps == ChainPairs(t)
        keys == {ps[j][1] : j \in 1..Len(ps)}
        cps == SqX!SetToSeq({<<CanonStores(ps[j][1]), CanonStores(ps[j][2])>> : j \in 1..Len(ps)})
        RECURSIVE Flat(_)
        Flat(j) == IF j > Len(cps) THEN <<>> ELSE <<cps[j][1], cps[j][2]>> \o Flat(j + 1)
    IN  IF t.op = "array_store" /\ b.op = "array_value" /\ Len(b.a) = 1
           /\ Cardinality(keys) = Len(ps) /\ \A k \in keys : k.op \in ConstOps
        THEN Op("array_stores", <<CanonStores(b)>> \o Flat(1))
        ELSE [t EXCEPT !.a = [j \in 1..Len(t.a) |-> CanonStores(t.a[j])]]

(* parse(print(f)): same = the parser returned the very same object *)
SmtRoundTripContract(e) ==
    LET asStores == CanonStores(e.parsed) = CanonStores(AsStores(e.f))
    IN  IF e.res # "ok" THEN Verdict(<<"print_or_parse_raised">>, <<>>, -1)
        ELSE Verdict(Fl("returns_the_same_formula_object", e.same \/ (HasOp(e.f, {"array_value"}) /\ asStores)) \o
                     Fl("reparsed_structure", e.same \/ asStores), <<>>, -1)

(* serialize(parse(text)) re-parsed: cmds1 / cmds2 = [name, terms, formals] per command *)
ScriptRoundTripContract(e) ==
    LET n == Len(e.cmds1)
        Norm(c) == IF Len(c.formals) = 0 THEN c.terms
                   ELSE LET m == [nm \in SeqSet(c.formals) |->
                                     "$param" \o ToString(CHOOSE j \in 1..Len(c.formals) : c.formals[j] = nm)]
                        IN  [j \in 1..Len(c.terms) |-> RenameSyms(c.terms[j], m)]
    IN  IF e.res # "ok" THEN Verdict(<<"serialize_or_reparse_raised">>, <<>>, -1)
        ELSE Verdict(Fl("same_number_of_commands", Len(e.cmds2) = n) \o
                     Fl("same_commands", Len(e.cmds2) # n \/ \A k \in 1..n :
                            e.cmds1[k].name = e.cmds2[k].name /\ e.cmds1[k].text = e.cmds2[k].text
                            /\ Norm(e.cmds1[k]) = Norm(e.cmds2[k])), <<>>, -1)

(* human-readable: parse(serialize(f)); toks1 / toks2 = serialisations of f and of the parsed formula
   without parentheses *)
HRRoundTripContract(e) ==
    IF e.res # "ok" THEN Verdict(<<"serialize_or_parse_raised">>, <<>>, -1)
    ELSE LET tp == TypeOf(e.parsed)
             w == SameMeaning(e.f, e.parsed)
         IN  Verdict(Fl("output_well_typed", tp # Ill) \o Fl("same_type", tp = TypeOf(e.f)) \o
                     Fl("serialisation_differs_only_in_grouping", e.toks1 = e.toks2) \o
                     (IF w = -2 THEN <<>> ELSE Fl("same_meaning", w = -1)),
                     IF w = -2 THEN <<"same_meaning">> ELSE <<>>, w)
\* ------------------------------------------------------------------ C17
(***************************************************************************)
(* A history of API calls on a solver driven through the textual SMT-LIB    *)
(* interface.  The STRICT REFERENCE SOLVER is the script semantics of       *)
(* SmtLibSyntax.tla (declarations scoped by assertion level; redeclaration, *)
(* use before declaration or after the declaring level was popped, pop      *)
(* below level 0 are Illegal).                                              *)
(*   sxs        every command the wrapper sent, in order                    *)
(*   calls[k]   [api (command record c, x, n), ncmds (commands sent during  *)
(*              the call), res ("true" | "false" | "none" | "error"),       *)
(*              checksat (the solver's replies to the check-sat commands of *)
(*              the call), model (assignment returned by get_model),        *)
(*              value / asked (get_value: returned constant / symbol)]      *)
(*   terms[x]   the formula with id x;  m0 = the solver's model             *)
(***************************************************************************)
RECURSIVE CallStart(_, _)
CallStart(calls, k) == IF k = 1 THEN 1 ELSE CallStart(calls, k - 1) + calls[k - 1].ncmds

SolverStreamContract(e) ==
    LET n == Len(e.calls)
        \* the strict machine after the commands of calls 1..k (the prologue commands come first)
        StAfter(k) == RunScript(SubSeq(e.sxs, 1, e.prologue + CallStart(e.calls, k) - 1 + e.calls[k].ncmds), InitScript)
        final == RunScript(e.sxs, InitScript)
        \* abstract assertion stack of the API history
        apicmds == [k \in 1..n |-> e.calls[k].api]
        Want(k) == LET la == LiveAsserts(StateAfter(apicmds, k)) IN [j \in 1..Len(la) |-> e.terms[la[j].x]]
        LiveOK(k) == LET got == LiveAsserted(StAfter(k))
                         want == Want(k)
                         \* a one-shot query leaves its level (with the query asserted) pending until the next call
                         \* that clears it; get_value / get_model do not clear it
                         extra == \E j \in 1..k : e.calls[j].api.c \in {"is_sat", "is_valid", "is_unsat"}
                                                  /\ \A i \in (j + 1)..k : e.calls[i].api.c \in {"get_value", "get_model"}
                     IN  IF extra THEN Len(got) = Len(want) + 1 /\ \A j \in 1..Len(want) : SameMeaning(got[j], want[j]) = -1
                         ELSE Len(got) = Len(want) /\ \A j \in 1..Len(want) : SameMeaning(got[j], want[j]) = -1
        badlive == {k \in 1..n : e.calls[k].res # "error" /\ ~LiveOK(k)}
        failed == {k \in 1..n : e.calls[k].res = "error"}
        \* verdict = the solver's reply to the check-sat sent during that call
        VerdictOK(k) ==
            LET cl == e.calls[k] IN
            CASE cl.api.c = "solve" -> Len(cl.checksat) = 1 /\ cl.res = (IF cl.checksat[1] = "sat" THEN "true" ELSE "false")
              [] cl.api.c = "is_sat" -> Len(cl.checksat) = 1 /\ cl.res = (IF cl.checksat[1] = "sat" THEN "true" ELSE "false")
              [] cl.api.c \in {"is_valid", "is_unsat"} -> Len(cl.checksat) = 1 /\ cl.res = (IF cl.checksat[1] = "sat" THEN "false" ELSE "true")
              [] OTHER -> Len(cl.checksat) = 0
        badverdict == {k \in 1..n : e.calls[k].res # "error" /\ ~VerdictOK(k)}
        M0 == ModelOf(e.m0)
        \* get_model after sat: every free symbol of the live assertions gets the value the solver reports, so it satisfies them
        ModelOK(k) ==
            LET cl == e.calls[k]
                live == Want(k)
                need == UNION {FreeNames(live[j]) : j \in 1..Len(live)}
                got == ModelOf(cl.model)
            IN  /\ \A nm \in need : nm \in DOMAIN got /\ got[nm] = M0[nm]
                /\ \A nm \in DOMAIN got : got[nm] = M0[nm]
        badmodel == {k \in 1..n : e.calls[k].api.c = "get_model" /\ e.calls[k].res = "none" /\ ~ModelOK(k)}
        badvalue == {k \in 1..n : e.calls[k].api.c = "get_value" /\ e.calls[k].res = "none"
                                  /\ Eval(e.calls[k].value, EmptyMap, QDefault) # M0[e.calls[k].asked]}
    IN  Verdict(Fl("legal_command_stream", final.illegal = <<>>) \o
                (IF final.illegal # <<>> THEN <<final.illegal[1]>> ELSE <<>>) \o
                Fl("api_call_succeeds_on_legal_history", failed = {}) \o
                Fl("solver_holds_exactly_the_live_assertions", final.illegal # <<>> \/ badlive = {}) \o
                Fl("verdict_is_the_solvers_reply", badverdict = {}) \o
                Fl("model_assigns_every_live_symbol_the_solvers_value", badmodel = {}) \o
                Fl("value_is_the_solvers_reply", badvalue = {}), <<>>,
                IF final.illegal # <<>> THEN -1           \* (the terms of an illegal stream cannot be evaluated)
                ELSE IF failed # {} THEN CHOOSE k \in failed : TRUE
                ELSE IF badlive # {} THEN CHOOSE k \in badlive : TRUE
                ELSE IF badmodel # {} THEN CHOOSE k \in badmodel : TRUE ELSE -1)
=============================================================================
