---------------------------- MODULE SmtLibScript ----------------------------
(***************************************************************************)
(* The SMT-LIB assertion stack (AssertionStack.tla) as a specification:     *)
(* all legal command histories over the alphabet Cmds up to length MaxLen.  *)
(***************************************************************************)
EXTENDS AssertionStack

\* ------------------------------------------------------------------------
\* the machine as a specification (used for design checks and generation)
CONSTANTS Cmds, MaxLen
VARIABLES levels, hist

Init == levels = InitLevels /\ hist = <<>>
Do(cmd) == Legal(levels, cmd) /\ levels' = Step(levels, cmd) /\ hist' = Append(hist, cmd)
Next == Len(hist) < MaxLen /\ \E cmd \in Cmds : Do(cmd)
Spec == Init /\ [][Next]_<<levels, hist>>

TypeOK == Len(levels) >= 1
\* popping never resurrects anything: live entries are a prefix-closed selection of what was asserted
NoResurrection == Cardinality({j \in 1..Len(hist) : hist[j].c \in {"assert", "soft", "maximize", "minimize", "minmax", "maxmin"}})
                  >= Len(Live(levels))
=============================================================================
