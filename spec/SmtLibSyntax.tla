----------------------------- MODULE SmtLibSyntax -----------------------------
(***************************************************************************)
(* The meaning of SMT-LIB text (C07, C08, C09, C17).                        *)
(*                                                                         *)
(* An S-expression is the record [k, s, n, cs, l] produced by the           *)
(* independent reader harness/sexpr.py.  Elab(sx, env) elaborates a term    *)
(* S-expression into the term representation of SmtTypes.tla ACCORDING TO   *)
(* THE SMT-LIB STANDARD (theory declarations Core, Ints, Reals, Reals_Ints, *)
(* FixedSizeBitVectors + the QF_BV extensions, ArraysEx, Strings; operator  *)
(* attributes :left-assoc / :right-assoc / :chainable / :pairwise; indexed  *)
(* identifiers; literals in every notation; numerals typed by the logic;    *)
(* PARALLEL let; static scoping of binders and definitions with capture     *)
(* avoidance).  The meaning of the text is then Eval(Elab(sx, env), I).     *)
(*                                                                         *)
(* env = [sig, lets, defs, numReal, sorts]:                                 *)
(*   sig     declared symbol |-> sort (function sorts for arity > 0)        *)
(*   lets    name |-> elaborated term (let-bound names, binder variables,   *)
(*           actual parameters of an expanded definition)                   *)
(*   defs    defined name |-> [ps (seq of [n, ty]), body (sx), env]         *)
(*   numReal numerals denote Reals (logics without Ints)                    *)
(*   sorts   declared sort name |-> arity ; sdefs: alias |-> [ps, body]     *)
(* Failure is the term ErrT(msg), whose sort is Ill.                        *)
(***************************************************************************)
EXTENDS Contracts

ErrT(msg) == Node("error", <<>>, msg, TNone, <<>>, <<>>, <<>>)
IsErr(t) == t.op = "error"

EmptyEnv == [sig |-> EmptyMap, lets |-> EmptyMap, defs |-> EmptyMap, numReal |-> FALSE,
             sorts |-> EmptyMap, sdefs |-> EmptyMap]

IsSym(sx, name) == sx.k = "sym" /\ sx.s = name

\* ------------------------------------------------------------------ sorts
RECURSIVE SortOfSx(_, _, _)
\* bind: sort parameter name |-> sort (inside a define-sort body)
SortOfSx(sx, env, bind) ==
    IF sx.k = "sym" THEN
        CASE sx.s \in DOMAIN bind -> bind[sx.s]
          [] sx.s = "Bool" -> TBool [] sx.s = "Int" -> TInt [] sx.s = "Real" -> TReal [] sx.s = "String" -> TString
          [] sx.s \in DOMAIN env.sdefs /\ Len(env.sdefs[sx.s].ps) = 0 -> SortOfSx(env.sdefs[sx.s].body, env, EmptyMap)
          [] sx.s \in DOMAIN env.sorts /\ env.sorts[sx.s] = 0 -> TSort(sx.s)
          [] OTHER -> Ill
    ELSE IF sx.k # "list" \/ Len(sx.l) = 0 THEN Ill
    ELSE LET h == sx.l[1]
             args == [j \in 1..(Len(sx.l) - 1) |-> SortOfSx(sx.l[j + 1], env, bind)]
         IN  CASE IsSym(h, "_") /\ Len(sx.l) = 3 /\ IsSym(sx.l[2], "BitVec") /\ sx.l[3].k = "num" /\ sx.l[3].n[1] > 0
                    -> TBV(sx.l[3].n[1])
               [] IsSym(h, "Array") /\ Len(sx.l) = 3 /\ args[1] # Ill /\ args[2] # Ill -> TArray(args[1], args[2])
               [] h.k = "sym" /\ h.s \in DOMAIN env.sdefs /\ Len(env.sdefs[h.s].ps) = Len(args) /\ \A j \in 1..Len(args) : args[j] # Ill
                    -> SortOfSx(env.sdefs[h.s].body, env,
                                [nm \in SeqSet(env.sdefs[h.s].ps) |-> args[CHOOSE j \in 1..Len(args) : env.sdefs[h.s].ps[j] = nm]])
               [] h.k = "sym" /\ h.s \in DOMAIN env.sorts /\ env.sorts[h.s] = Len(args) /\ Len(args) > 0
                  /\ \A j \in 1..Len(args) : args[j] # Ill
                    -> Ty("Sort", 0, h.s, args)
               [] OTHER -> Ill

\* ------------------------------------------------------------------ helpers on elaborated terms
SortE(t) == IF IsErr(t) THEN Ill ELSE TypeOf(t)
AnyErr(ts) == \E j \in 1..Len(ts) : IsErr(ts[j])
FirstErr(ts) == ts[CHOOSE j \in 1..Len(ts) : IsErr(ts[j])]

RECURSIVE FoldLeft(_, _)     \* ((a op b) op c) ...
FoldLeft(mk(_, _), ts) == IF Len(ts) = 1 THEN ts[1]
                          ELSE mk(FoldLeft(mk, SubSeq(ts, 1, Len(ts) - 1)), ts[Len(ts)])
RECURSIVE FoldRight(_, _)    \* a op (b op c)
FoldRight(mk(_, _), ts) == IF Len(ts) = 1 THEN ts[1] ELSE mk(ts[1], FoldRight(mk, Tail(ts)))
Chain(mk(_, _), ts) ==       \* (a op b) and (b op c) ...
    IF Len(ts) = 2 THEN mk(ts[1], ts[2])
    ELSE Op("and", [j \in 1..(Len(ts) - 1) |-> mk(ts[j], ts[j + 1])])
Pairwise(mk(_, _), ts) ==
    LET prs == {p \in (1..Len(ts)) \X (1..Len(ts)) : p[1] < p[2]}
        sq == SetToSeqBy(prs)
    IN  IF Len(sq) = 1 THEN mk(ts[sq[1][1]], ts[sq[1][2]])
        ELSE Op("and", [j \in 1..Len(sq) |-> mk(ts[sq[j][1]], ts[sq[j][2]])])

EqT(a, b) == IF SortE(a) = TBool THEN Op("iff", <<a, b>>) ELSE Op("equals", <<a, b>>)
BV2op(op, a, b) == OpI(op, <<a, b>>, <<SortE(a).w>>)
NegT(x) == IF SortE(x) = TReal THEN Op("times", <<RealC(<<-1, 1>>), x>>) ELSE Op("times", <<IntC(-1), x>>)
IsNumConst(t) == t.op \in {"int_constant", "real_constant"}
QOfConst(t) == IF t.op = "int_constant" THEN <<t.i[1], 1>> ELSE <<t.i[1], t.i[2]>>

\* the sort-correct application of a theory operator to already elaborated arguments
BVLeftAssoc == {"bvand", "bvor", "bvadd", "bvmul", "bvxor", "bvxnor"}
BVBinName == [bvand |-> "bv_and", bvor |-> "bv_or", bvxor |-> "bv_xor", bvadd |-> "bv_add", bvsub |-> "bv_sub",
              bvmul |-> "bv_mul", bvudiv |-> "bv_udiv", bvurem |-> "bv_urem", bvshl |-> "bv_lshl", bvlshr |-> "bv_lshr",
              bvsdiv |-> "bv_sdiv", bvsrem |-> "bv_srem", bvashr |-> "bv_ashr"]
BVRelName == [bvult |-> "bv_ult", bvule |-> "bv_ule", bvslt |-> "bv_slt", bvsle |-> "bv_sle"]
BVRelSwap == [bvugt |-> "bv_ult", bvuge |-> "bv_ule", bvsgt |-> "bv_slt", bvsge |-> "bv_sle"]
StrOpPairs == { <<"str.len", "str_length">>, <<"str.++", "str_concat">>, <<"str.at", "str_charat">>,
                <<"str.contains", "str_contains">>, <<"str.indexof", "str_indexof">>, <<"str.replace", "str_replace">>,
                <<"str.substr", "str_substr">>, <<"str.prefixof", "str_prefixof">>, <<"str.suffixof", "str_suffixof">>,
                <<"str.to.int", "str_to_int">>, <<"str.to_int", "str_to_int">>, <<"int.to.str", "int_to_str">>,
                <<"str.from_int", "int_to_str">> }
StrOpName == [nm \in {p[1] : p \in StrOpPairs} |-> (CHOOSE p \in StrOpPairs : p[1] = nm)[2]]

\* bvsmod by its SMT-LIB definition
BVSModT(s, t) ==
    LET m == SortE(s).w
        E(x) == OpI("bv_extract", <<x>>, <<1, m - 1, m - 1>>)
        Z1 == BVC(0, 1)
        O1 == BVC(1, 1)
        abs(x) == Op("ite", <<Op("equals", <<E(x), Z1>>), x, OpI("bv_neg", <<x>>, <<m>>)>>)
        u == OpI("bv_urem", <<abs(s), abs(t)>>, <<m>>)
        nu == OpI("bv_neg", <<u>>, <<m>>)
    IN  Op("ite", <<Op("equals", <<u, BVC(0, m)>>), u,
        Op("ite", <<Op("and", <<Op("equals", <<E(s), Z1>>), Op("equals", <<E(t), Z1>>)>>), u,
        Op("ite", <<Op("and", <<Op("equals", <<E(s), O1>>), Op("equals", <<E(t), Z1>>)>>), OpI("bv_add", <<nu, t>>, <<m>>),
        Op("ite", <<Op("and", <<Op("equals", <<E(s), Z1>>), Op("equals", <<E(t), O1>>)>>), OpI("bv_add", <<u, t>>, <<m>>), nu>>)>>)>>)>>)

RECURSIVE RepeatT(_, _)
RepeatT(x, k) == IF k = 1 THEN x
                 ELSE LET r == RepeatT(x, k - 1) IN OpI("bv_concat", <<r, x>>, <<SortE(r).w + SortE(x).w>>)

ApplyOp(name, ts) ==
    LET n == Len(ts)
        s1 == IF n >= 1 THEN SortE(ts[1]) ELSE Ill
        bad == ErrT("ill-formed application of " \o name)
    IN
    IF AnyErr(ts) THEN FirstErr(ts) ELSE
    CASE name = "not" /\ n = 1 -> Op("not", ts)
      [] name \in {"and", "or"} /\ n >= 2 -> Op(name, ts)
      [] name \in {"and", "or"} /\ n = 1 -> ts[1]
      [] name = "=>" /\ n >= 2 -> FoldRight(LAMBDA a, b : Op("implies", <<a, b>>), ts)
      [] name = "xor" /\ n >= 2 -> FoldLeft(LAMBDA a, b : Op("not", <<Op("iff", <<a, b>>)>>), ts)
      [] name = "=" /\ n >= 2 -> Chain(EqT, ts)
      [] name = "distinct" /\ n >= 2 -> Pairwise(LAMBDA a, b : Op("not", <<EqT(a, b)>>), ts)
      [] name = "ite" /\ n = 3 -> Op("ite", ts)
      [] name = "+" /\ n >= 2 -> Op("plus", ts)
      [] name = "*" /\ n >= 2 -> Op("times", ts)
      [] name = "-" /\ n = 1 -> (IF IsNumConst(ts[1]) THEN (IF ts[1].op = "int_constant" THEN IntC(-ts[1].i[1]) ELSE RealC(<<-ts[1].i[1], ts[1].i[2]>>))
                                 ELSE NegT(ts[1]))
      [] name = "-" /\ n >= 2 -> FoldLeft(LAMBDA a, b : Op("minus", <<a, b>>), ts)
      [] name = "/" /\ n = 2 ->
            IF IsNumConst(ts[1]) /\ IsNumConst(ts[2]) /\ QOfConst(ts[2])[1] # 0
            THEN RealC(QDiv(QOfConst(ts[1]), QOfConst(ts[2])))          \* the notation of rational constants
            ELSE IF s1 = TReal THEN Op("div", ts)
            ELSE ErrT("'/' is the division of Reals")
      [] name = "div" /\ n = 2 /\ s1 = TInt -> Op("div", ts)
      [] name \in {"<=", "<"} /\ n >= 2 -> Chain(LAMBDA a, b : Op(IF name = "<=" THEN "le" ELSE "lt", <<a, b>>), ts)
      [] name \in {">=", ">"} /\ n >= 2 -> Chain(LAMBDA a, b : Op(IF name = ">=" THEN "le" ELSE "lt", <<b, a>>), ts)
      [] name = "to_real" /\ n = 1 -> (IF ts[1].op = "int_constant" THEN RealC(<<ts[1].i[1], 1>>) ELSE Op("toreal", ts))
      [] name = "pow" /\ n = 2 -> Op("pow", ts)
      \* ---- bit-vectors
      [] name = "bvnot" /\ n = 1 -> OpI("bv_not", ts, <<s1.w>>)
      [] name = "bvneg" /\ n = 1 -> OpI("bv_neg", ts, <<s1.w>>)
      [] name \in BVLeftAssoc /\ n >= 2 /\ name # "bvxnor" -> FoldLeft(LAMBDA a, b : BV2op(BVBinName[name], a, b), ts)
      [] name \in DOMAIN BVBinName /\ n = 2 -> OpI(BVBinName[name], ts, <<s1.w>>)
      [] name = "bvnand" /\ n = 2 -> OpI("bv_not", <<OpI("bv_and", ts, <<s1.w>>)>>, <<s1.w>>)
      [] name = "bvnor" /\ n = 2 -> OpI("bv_not", <<OpI("bv_or", ts, <<s1.w>>)>>, <<s1.w>>)
      [] name = "bvxnor" /\ n = 2 -> OpI("bv_not", <<OpI("bv_xor", ts, <<s1.w>>)>>, <<s1.w>>)
      [] name = "bvcomp" /\ n = 2 -> OpI("bv_comp", ts, <<1>>)
      [] name = "bvsmod" /\ n = 2 /\ s1.k = "BV" /\ SortE(ts[2]) = s1 -> BVSModT(ts[1], ts[2])
      [] name \in DOMAIN BVRelName /\ n = 2 -> Op(BVRelName[name], ts)
      [] name \in DOMAIN BVRelSwap /\ n = 2 -> Op(BVRelSwap[name], <<ts[2], ts[1]>>)
      [] name = "concat" /\ n >= 2 -> FoldLeft(LAMBDA a, b : OpI("bv_concat", <<a, b>>, <<SortE(a).w + SortE(b).w>>), ts)
      [] name = "bv2nat" /\ n = 1 -> Op("bv_tonatural", ts)
      \* ---- arrays, strings
      [] name = "select" /\ n = 2 -> Op("array_select", ts)
      [] name = "store" /\ n = 3 -> Op("array_store", ts)
      [] name \in DOMAIN StrOpName -> Op(StrOpName[name], ts)
      [] OTHER -> bad

\* indexed operators ((_ name i j ...) args)
ApplyIndexed(name, idx, ts) ==
    LET s1 == IF Len(ts) >= 1 THEN SortE(ts[1]) ELSE Ill
        w == s1.w
    IN
    IF AnyErr(ts) THEN FirstErr(ts) ELSE
    CASE name = "extract" /\ Len(idx) = 2 /\ Len(ts) = 1 ->
            \* (_ extract i j): bits j .. i, i >= j
            OpI("bv_extract", ts, <<idx[1] - idx[2] + 1, idx[2], idx[1]>>)
      [] name = "zero_extend" /\ Len(idx) = 1 /\ Len(ts) = 1 -> OpI("bv_zext", ts, <<w + idx[1], idx[1]>>)
      [] name = "sign_extend" /\ Len(idx) = 1 /\ Len(ts) = 1 -> OpI("bv_sext", ts, <<w + idx[1], idx[1]>>)
      [] name = "rotate_left" /\ Len(idx) = 1 /\ Len(ts) = 1 /\ w > 0 -> OpI("bv_rol", ts, <<w, idx[1] % w>>)
      [] name = "rotate_right" /\ Len(idx) = 1 /\ Len(ts) = 1 /\ w > 0 -> OpI("bv_ror", ts, <<w, idx[1] % w>>)
      [] name = "repeat" /\ Len(idx) = 1 /\ Len(ts) = 1 /\ idx[1] >= 1 -> RepeatT(ts[1], idx[1])
      [] OTHER -> ErrT("unknown indexed operator " \o name)

\* ------------------------------------------------------------------ elaboration
RECURSIVE Elab(_, _)
RECURSIVE ElabSeq(_, _)
ElabSeq(sxs, env) == [j \in 1..Len(sxs) |-> Elab(sxs[j], env)]

\* names occurring free in the terms bound in env.lets (a binder of such a name must be renamed)
LetFreeNames(env) == UNION {FreeNames(env.lets[nm]) : nm \in DOMAIN env.lets}

RECURSIVE FreshFor(_, _)
FreshFor(nm, avoid) == IF nm \in avoid THEN FreshFor(nm \o "'", avoid) ELSE nm

\* expand a defined function: static scoping = the body is elaborated in the definition's environment,
\* extended with the actual parameters as parallel bindings
ExpandDef(d, args, env) ==
    IF Len(args) # Len(d.ps) THEN ErrT("wrong number of arguments of a defined function")
    ELSE IF \E j \in 1..Len(args) : SortE(args[j]) # d.ps[j].ty THEN ErrT("ill-sorted argument of a defined function")
    ELSE Elab(d.body, [d.env EXCEPT !.lets = Override(d.env.lets,
                          [nm \in {d.ps[j].n : j \in 1..Len(d.ps)} |-> args[CHOOSE j \in 1..Len(d.ps) : d.ps[j].n = nm]])])

(* String literals (theory of Unicode Strings, SMT-LIB 2.6): inside a literal the escape sequences
   \ud3d2d1d0 (exactly four hexadecimal digits) and \u{d0} ... \u{d4d3d2d1d0} (one to five digits, the first
   of five in 0..2) denote the character with that code; every other character denotes itself.  (The
   doubled quote is lexical and already resolved by the reader.) *)
HexVal(c) == IF 48 <= c /\ c <= 57 THEN c - 48
             ELSE IF 97 <= c /\ c <= 102 THEN c - 87
             ELSE IF 65 <= c /\ c <= 70 THEN c - 55 ELSE -1
RECURSIVE HexNum(_, _)
HexNum(ds, acc) == IF ds = <<>> THEN acc ELSE HexNum(Tail(ds), 16 * acc + HexVal(Head(ds)))
RECURSIVE Unescape(_)
Unescape(cs) ==
    IF cs = <<>> THEN <<>>
    ELSE LET n == Len(cs)
             plain == <<cs[1]>> \o Unescape(Tail(cs))
         IN  IF ~(n >= 2 /\ cs[1] = 92 /\ cs[2] = 117) THEN plain
             ELSE IF n >= 6 /\ \A k \in 3..6 : HexVal(cs[k]) >= 0
                  THEN <<HexNum(SubSeq(cs, 3, 6), 0)>> \o Unescape(SubSeq(cs, 7, n))
             ELSE IF n >= 5 /\ cs[3] = 123 /\ \E j \in 5..n : cs[j] = 125
                  THEN LET j == CHOOSE j \in 5..n : cs[j] = 125 /\ \A k \in 5..(j - 1) : cs[k] # 125
                           ds == SubSeq(cs, 4, j - 1)
                       IN  IF Len(ds) >= 1 /\ Len(ds) <= 5 /\ (\A k \in 1..Len(ds) : HexVal(ds[k]) >= 0)
                              /\ (Len(ds) = 5 => HexVal(ds[1]) <= 2)
                           THEN <<HexNum(ds, 0)>> \o Unescape(SubSeq(cs, j + 1, n))
                           ELSE plain
             ELSE plain

ElabAtomSym(nm, env) ==
    CASE nm \in DOMAIN env.lets -> env.lets[nm]
      [] nm = "true" -> BoolC(TRUE)
      [] nm = "false" -> BoolC(FALSE)
      [] nm \in DOMAIN env.defs -> ExpandDef(env.defs[nm], <<>>, env)
      [] nm \in DOMAIN env.sig -> Sym(nm, env.sig[nm])
      [] OTHER -> ErrT("undeclared symbol " \o nm)

Elab(sx, env) ==
    CASE sx.k = "sym" -> ElabAtomSym(sx.s, env)
      [] sx.k = "num" -> IF env.numReal THEN RealC(<<sx.n[1], 1>>) ELSE IntC(sx.n[1])
      [] sx.k = "dec" -> RealC(QNorm(sx.n[1], sx.n[2]))
      [] sx.k \in {"hex", "bin"} -> BVC(sx.n[1], sx.n[2])
      [] sx.k = "str" -> StrC(Unescape(sx.cs))
      [] sx.k = "bvlit" ->   \* (_ bvN w), decoded by the reader
            IF sx.n[2] >= 1 /\ sx.n[1] >= 0 /\ (sx.n[2] > 30 \/ sx.n[1] < Pow2(sx.n[2])) THEN BVC(sx.n[1], sx.n[2])
            ELSE ErrT("bit-vector literal out of range")
      [] sx.k = "kw" -> ErrT("keyword in term position")
      [] OTHER ->   \* list
        IF Len(sx.l) = 0 THEN ErrT("empty application") ELSE
        LET h == sx.l[1]
            rest == Tail(sx.l)
        IN
        IF h.k = "sym" THEN
            CASE h.s = "let" /\ Len(sx.l) = 3 /\ sx.l[2].k = "list" ->
                    \* PARALLEL let: every bound term is elaborated in the OUTER environment
                    LET bs == sx.l[2].l
                        okb == \A j \in 1..Len(bs) : bs[j].k = "list" /\ Len(bs[j].l) = 2 /\ bs[j].l[1].k = "sym"
                    IN  IF ~okb THEN ErrT("malformed let")
                        ELSE LET names == {bs[j].l[1].s : j \in 1..Len(bs)}
                                 vals == [nm \in names |-> Elab(bs[CHOOSE j \in 1..Len(bs) : bs[j].l[1].s = nm].l[2], env)]
                             IN  IF Cardinality(names) # Len(bs) THEN ErrT("duplicate let binder")
                                 ELSE IF \E nm \in names : IsErr(vals[nm]) THEN vals[CHOOSE nm \in names : IsErr(vals[nm])]
                                 ELSE Elab(sx.l[3], [env EXCEPT !.lets = Override(env.lets, vals)])
              [] h.s \in {"forall", "exists"} /\ Len(sx.l) = 3 /\ sx.l[2].k = "list" /\ Len(sx.l[2].l) >= 1 ->
                    LET vs == sx.l[2].l
                        okv == \A j \in 1..Len(vs) : vs[j].k = "list" /\ Len(vs[j].l) = 2 /\ vs[j].l[1].k = "sym"
                    IN  IF ~okv THEN ErrT("malformed binder")
                        ELSE LET srt == [j \in 1..Len(vs) |-> SortOfSx(vs[j].l[2], env, EmptyMap)]
                                 \* a bound variable must not capture a free symbol of a term substituted in its scope
                                 avoid == LetFreeNames([env EXCEPT !.lets =
                                              [nm \in DOMAIN env.lets \ {vs[j].l[1].s : j \in 1..Len(vs)} |-> env.lets[nm]]])
                                 nm2 == [j \in 1..Len(vs) |-> FreshFor(vs[j].l[1].s, avoid)]
                                 bind == [nm \in {vs[j].l[1].s : j \in 1..Len(vs)} |->
                                            LET j == CHOOSE j \in 1..Len(vs) : vs[j].l[1].s = nm /\ \A k \in (j + 1)..Len(vs) : vs[k].l[1].s # nm
                                            IN  Sym(nm2[j], srt[j])]
                                 body == Elab(sx.l[3], [env EXCEPT !.lets = Override(env.lets, bind)])
                             IN  IF \E j \in 1..Len(vs) : srt[j] = Ill THEN ErrT("unknown sort in binder")
                                 ELSE IF IsErr(body) THEN body
                                 ELSE Quant(h.s, [j \in 1..Len(vs) |-> BVar(nm2[j], srt[j])], body)
              [] h.s = "!" /\ Len(sx.l) >= 2 -> Elab(sx.l[2], env)
              [] h.s \in DOMAIN env.lets -> ErrT("application of a bound name")
              [] h.s \in DOMAIN env.defs -> ExpandDef(env.defs[h.s], ElabSeq(rest, env), env)
              [] h.s \in DOMAIN env.sig ->
                    LET ts == ElabSeq(rest, env) IN
                    IF AnyErr(ts) THEN FirstErr(ts)
                    ELSE IF env.sig[h.s].k # "Fun" THEN ErrT("application of a constant") ELSE App(h.s, env.sig[h.s], ts)
              [] OTHER -> ApplyOp(h.s, ElabSeq(rest, env))
        ELSE IF h.k = "list" /\ Len(h.l) >= 2 /\ IsSym(h.l[1], "_") /\ h.l[2].k = "sym"
                /\ \A j \in 3..Len(h.l) : h.l[j].k = "num" THEN
            ApplyIndexed(h.l[2].s, [j \in 1..(Len(h.l) - 2) |-> h.l[j + 2].n[1]], ElabSeq(rest, env))
        ELSE IF h.k = "list" /\ Len(h.l) = 3 /\ IsSym(h.l[1], "as") /\ IsSym(h.l[2], "const") /\ Len(rest) = 1 THEN
            LET srt == SortOfSx(h.l[3], env, EmptyMap)
                v == Elab(rest[1], env)
            IN  IF srt.k # "Array" THEN ErrT("as const needs an array sort")
                ELSE IF IsErr(v) THEN v ELSE ArrV(srt.a[1], <<v>>)
        ELSE ErrT("unknown term form")

\* ------------------------------------------------------------------ scripts
(***************************************************************************)
(* The command level: a script state is [envs, cmds, illegal].  envs is the *)
(* stack of environments (one per assertion level: declarations and         *)
(* definitions are scoped by push / pop as the standard prescribes with     *)
(* :global-declarations false); cmds records, per command, its name and the *)
(* elaborated terms it carries; illegal collects violations of well-        *)
(* formedness (use before declaration, redeclaration in scope, unknown      *)
(* sort, ill-sorted term, pop below level 0).                               *)
(***************************************************************************)
RealOnlyLogics == {"QF_LRA", "LRA", "QF_RDL", "QF_UFLRA", "UFLRA", "QF_NRA", "NRA", "QF_UFNRA", "UFNRA", "QF_LRAt"}

InitScript == [envs |-> <<EmptyEnv>>, cmds |-> <<>>, illegal |-> <<>>, alev |-> <<<<>>>>]
\* alev: the asserted terms, one sequence per assertion level (parallel to envs)
CurEnv(st) == st.envs[Len(st.envs)]
SetEnv(st, e) == [st EXCEPT !.envs[Len(st.envs)] = e]
Note(st, name, terms) == [st EXCEPT !.cmds = Append(@, [name |-> name, terms |-> terms])]
Bad(st, msg) == [st EXCEPT !.illegal = Append(@, msg)]
NameTaken(env, nm) == nm \in DOMAIN env.sig \/ nm \in DOMAIN env.defs

RECURSIVE CopyTop(_, _)
CopyTop(envs, n) == IF n = 0 THEN envs ELSE CopyTop(Append(envs, envs[Len(envs)]), n - 1)

TermCmd(st, name, sxs, wantBool) ==
    LET ts == ElabSeq(sxs, CurEnv(st))
        st1 == Note(st, name, ts)
    IN  IF AnyErr(ts) THEN Bad(st1, FirstErr(ts).n)
        ELSE IF \E j \in 1..Len(ts) : TypeOf(ts[j]) = Ill THEN Bad(st1, "ill-sorted term")
        ELSE IF wantBool /\ \E j \in 1..Len(ts) : TypeOf(ts[j]) # TBool THEN Bad(st1, "Boolean term expected")
        ELSE st1

RunCmd(st, sx) ==
    IF sx.k # "list" \/ Len(sx.l) = 0 \/ sx.l[1].k # "sym" THEN Bad(Note(st, "?", <<>>), "not a command")
    ELSE
    LET c == sx.l[1].s
        env == CurEnv(st)
        a == sx.l
        n == Len(a)
    IN
    CASE c = "set-logic" /\ n = 2 /\ a[2].k = "sym" ->
            Note(SetEnv(st, [env EXCEPT !.numReal = a[2].s \in RealOnlyLogics]), c, <<>>)
      [] c \in {"declare-fun", "declare-const"} ->
            LET okshape == IF c = "declare-fun" THEN n = 4 /\ a[2].k = "sym" /\ a[3].k = "list" ELSE n = 3 /\ a[2].k = "sym"
            IN  IF ~okshape THEN Bad(Note(st, c, <<>>), "malformed declaration")
                ELSE LET ps == IF c = "declare-fun" THEN [j \in 1..Len(a[3].l) |-> SortOfSx(a[3].l[j], env, EmptyMap)] ELSE <<>>
                         rs == SortOfSx(a[n], env, EmptyMap)
                         ty == IF Len(ps) = 0 THEN rs ELSE TFun(rs, ps)
                         st1 == Note(st, c, <<Sym(a[2].s, ty)>>)
                     IN  IF rs = Ill \/ \E j \in 1..Len(ps) : ps[j] = Ill THEN Bad(st1, "unknown sort")
                         ELSE IF NameTaken(env, a[2].s) THEN Bad(st1, "redeclaration of " \o a[2].s)
                         ELSE SetEnv(st1, [env EXCEPT !.sig = MapPut(env.sig, a[2].s, ty)])
      [] c = "define-fun" /\ n = 5 /\ a[2].k = "sym" /\ a[3].k = "list" ->
            LET okp == \A j \in 1..Len(a[3].l) : a[3].l[j].k = "list" /\ Len(a[3].l[j].l) = 2 /\ a[3].l[j].l[1].k = "sym"
            IN  IF ~okp THEN Bad(Note(st, c, <<>>), "malformed definition")
                ELSE LET ps == [j \in 1..Len(a[3].l) |-> BVar(a[3].l[j].l[1].s, SortOfSx(a[3].l[j].l[2], env, EmptyMap))]
                         rs == SortOfSx(a[4], env, EmptyMap)
                         \* check the body with the parameters as fresh constants
                         benv == [env EXCEPT !.lets = Override(env.lets, [nm \in {ps[j].n : j \in 1..Len(ps)} |->
                                                    Sym(nm, ps[CHOOSE j \in 1..Len(ps) : ps[j].n = nm].ty)])]
                         body == Elab(a[5], benv)
                         d == [ps |-> ps, body |-> a[5], env |-> env]
                         st1 == Note(st, c, <<body>>)
                     IN  IF rs = Ill \/ \E j \in 1..Len(ps) : ps[j].ty = Ill THEN Bad(st1, "unknown sort")
                         ELSE IF IsErr(body) THEN Bad(st1, body.n)
                         ELSE IF TypeOf(body) # rs THEN Bad(st1, "definition body has the wrong sort")
                         ELSE IF NameTaken(env, a[2].s) THEN Bad(st1, "redeclaration of " \o a[2].s)
                         ELSE SetEnv(st1, [env EXCEPT !.defs = MapPut(env.defs, a[2].s, d)])
      [] c = "declare-sort" /\ n >= 2 /\ a[2].k = "sym" ->
            LET ar == IF n >= 3 /\ a[3].k = "num" THEN a[3].n[1] ELSE 0
            IN  IF a[2].s \in DOMAIN env.sorts \/ a[2].s \in DOMAIN env.sdefs THEN Bad(Note(st, c, <<>>), "sort redeclared")
                ELSE SetEnv(Note(st, c, <<>>), [env EXCEPT !.sorts = MapPut(env.sorts, a[2].s, ar)])
      [] c = "define-sort" /\ n = 4 /\ a[2].k = "sym" /\ a[3].k = "list" ->
            SetEnv(Note(st, c, <<>>), [env EXCEPT !.sdefs = MapPut(env.sdefs, a[2].s,
                        [ps |-> [j \in 1..Len(a[3].l) |-> a[3].l[j].s], body |-> a[4]])])
      [] c = "assert" /\ n = 2 ->
            LET st1 == TermCmd(st, c, <<a[2]>>, TRUE)
            IN  [st1 EXCEPT !.alev[Len(st1.alev)] = Append(@, st1.cmds[Len(st1.cmds)].terms[1])]
      [] c = "assert-soft" /\ n >= 2 -> TermCmd(st, c, <<a[2]>>, TRUE)
      [] c \in {"maximize", "minimize"} /\ n >= 2 -> TermCmd(st, c, <<a[2]>>, FALSE)
      [] c = "check-sat-assuming" /\ n = 2 /\ a[2].k = "list" -> TermCmd(st, c, a[2].l, TRUE)
      [] c = "get-value" /\ n = 2 /\ a[2].k = "list" -> TermCmd(st, c, a[2].l, FALSE)
      [] c = "push" -> LET k == IF n >= 2 /\ a[2].k = "num" THEN a[2].n[1] ELSE 1
                       IN  Note([st EXCEPT !.envs = CopyTop(st.envs, k), !.alev = st.alev \o [j \in 1..k |-> <<>>]], c, <<>>)
      [] c = "pop" -> LET k == IF n >= 2 /\ a[2].k = "num" THEN a[2].n[1] ELSE 1
                      IN  IF k >= Len(st.envs) THEN Bad(Note(st, c, <<>>), "pop below the first level")
                          ELSE Note([st EXCEPT !.envs = SubSeq(st.envs, 1, Len(st.envs) - k),
                                               !.alev = SubSeq(st.alev, 1, Len(st.alev) - k)], c, <<>>)
      [] c = "reset-assertions" -> Note([st EXCEPT !.envs = <<[EmptyEnv EXCEPT !.numReal = st.envs[1].numReal]>>,
                                                   !.alev = <<<<>>>>], c, <<>>)
      [] c \in {"check-sat", "exit", "set-option", "set-info", "get-model", "get-info", "get-option", "get-assertions",
                "get-unsat-core", "get-proof", "echo", "get-objectives", "check-allsat", "reset", "get-assignment",
                "get-unsat-assumptions", "minmax", "maxmin"} -> Note(st, c, <<>>)
      [] OTHER -> Bad(Note(st, c, <<>>), "unknown or malformed command " \o c)

RECURSIVE RunScript(_, _)
RunScript(sxs, st) == IF sxs = <<>> THEN st ELSE RunScript(Tail(sxs), RunCmd(st, Head(sxs)))

RECURSIVE FlattenSeqs(_)
FlattenSeqs(ss) == IF ss = <<>> THEN <<>> ELSE Head(ss) \o FlattenSeqs(Tail(ss))
LiveAsserted(st) == FlattenSeqs(st.alev)
=============================================================================
