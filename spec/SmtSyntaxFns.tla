---------------------------- MODULE SmtSyntaxFns ----------------------------
(***************************************************************************)
(* Syntactic analyses of terms, defined on the structure: free symbols,     *)
(* atoms, quantifier-freeness, sorts, size measures, sub-terms.             *)
(***************************************************************************)
EXTENDS SmtEval

RECURSIVE UnionAll(_)
UnionAll(S) == IF S = {} THEN {} ELSE LET x == CHOOSE x \in S : TRUE IN x \cup UnionAll(S \ {x})

BoundNames(t) == {t.bv[j].n : j \in 1..Len(t.bv)}

\* free symbols, as records [n, ty]; the name of an applied function is a free symbol
RECURSIVE FreeSyms(_)
FreeSyms(t) ==
    LET subs == UNION {FreeSyms(t.a[j]) : j \in 1..Len(t.a)} IN
    CASE t.op = "symbol" -> {BVar(t.n, t.ty)}
      [] t.op = "function" -> {BVar(t.n, t.ty)} \cup subs
      [] t.op \in {"forall", "exists"} -> {s \in subs : s.n \notin BoundNames(t)}
      [] OTHER -> subs
FreeNames(t) == {s.n : s \in FreeSyms(t)}

\* all symbols, bound ones included
RECURSIVE AllSyms(_)
AllSyms(t) ==
    LET subs == UNION {AllSyms(t.a[j]) : j \in 1..Len(t.a)} IN
    CASE t.op = "symbol" -> {BVar(t.n, t.ty)}
      [] t.op = "function" -> {BVar(t.n, t.ty)} \cup subs
      [] t.op \in {"forall", "exists"} -> subs \cup {t.bv[j] : j \in 1..Len(t.bv)}
      [] OTHER -> subs

RECURSIVE SubTerms(_)
SubTerms(t) == {t} \cup UNION {SubTerms(t.a[j]) : j \in 1..Len(t.a)}

RECURSIVE IsQF(_)
IsQF(t) == t.op \notin {"forall", "exists"} /\ \A j \in 1..Len(t.a) : IsQF(t.a[j])

RECURSIVE HasUF(_)
HasUF(t) == t.op = "function" \/ \E j \in 1..Len(t.a) : HasUF(t.a[j])

Relations == {"le", "lt", "equals", "bv_ult", "bv_ule", "bv_slt", "bv_sle",
              "str_contains", "str_prefixof", "str_suffixof"}
TheoryOps == {"plus", "minus", "times", "toreal", "div", "pow", "bv_tonatural",
              "bv_not", "bv_and", "bv_or", "bv_xor", "bv_concat", "bv_extract", "bv_neg",
              "bv_add", "bv_sub", "bv_mul", "bv_udiv", "bv_urem", "bv_lshl", "bv_lshr",
              "bv_rol", "bv_ror", "bv_zext", "bv_sext", "bv_comp", "bv_sdiv", "bv_srem",
              "bv_ashr", "array_select", "array_store", "array_value",
              "str_length", "str_concat", "str_indexof", "str_replace", "str_substr",
              "str_charat", "str_to_int", "int_to_str"}

(***************************************************************************)
(* Atoms (documented definition: "a boolean atom is either a boolean        *)
(* variable or a theory atom"): descend through Boolean connectives,        *)
(* quantifiers and Boolean-sorted ite; the atoms are the theory relations,  *)
(* Boolean symbols, Boolean-valued function applications and Boolean-valued *)
(* array selects met there.  Boolean constants are not atoms.               *)
(***************************************************************************)
RECURSIVE Atoms(_)
Atoms(t) ==
    LET subs == UNION {Atoms(t.a[j]) : j \in 1..Len(t.a)} IN
    CASE t.op \in BoolOps \cup {"forall", "exists"} -> subs
      [] t.op = "ite" -> subs                  \* only reached for Boolean-sorted ite
      [] t.op \in Relations -> {t}
      [] t.op \in {"symbol", "function", "array_select"} -> {t}
      [] OTHER -> {}                           \* Boolean constants

\* custom sorts occurring in a sort
RECURSIVE SortsIn(_)
SortsIn(ty) ==
    (IF ty.k = "Sort" THEN {ty} ELSE {}) \cup UNION {SortsIn(ty.a[j]) : j \in 1..Len(ty.a)}

\* closure of a set of sorts under component sorts
RECURSIVE SortClosure(_)
SortClosure(ty) == {ty} \cup UNION {SortClosure(ty.a[j]) : j \in 1..Len(ty.a)}

\* sorts occurring in a term: sorts of symbols (bound ones too), of the result and
\* parameters of applied functions, of constants and of array-value indices are
\* those of its leaves; composite sorts contribute their components
RECURSIVE LeafSorts(_)
LeafSorts(t) ==
    LET subs == UNION {LeafSorts(t.a[j]) : j \in 1..Len(t.a)} IN
    CASE t.op = "symbol" -> {t.ty}
      [] t.op = "function" -> {t.ty.a[j] : j \in 1..Len(t.ty.a)} \cup subs
      [] t.op \in {"forall", "exists"} -> {t.bv[j].ty : j \in 1..Len(t.bv)} \cup subs
      [] t.op \in ConstOps -> {TyF(t)}
      [] t.op = "array_value" -> {TyF(t)} \cup subs          \* the literal's array sort: its index sort occurs nowhere else
      [] OTHER -> subs
SortsOf(t) == UNION {SortClosure(ty) : ty \in LeafSorts(t)}
CustomSortsOf(t) == {ty \in SortsOf(t) : ty.k = "Sort"}

\* --- size measures (pysmt.oracles.SizeOracle)
RECURSIVE TreeNodes(_)
TreeNodes(t) == 1 + SumInts([j \in 1..Len(t.a) |-> TreeNodes(t.a[j])])
DagNodes(t) == Cardinality(SubTerms(t))
RECURSIVE Leaves(_)
Leaves(t) == IF Len(t.a) = 0 THEN 1 ELSE SumInts([j \in 1..Len(t.a) |-> Leaves(t.a[j])])
RECURSIVE MaxSeq(_)
MaxSeq(s) == IF s = <<>> THEN 0 ELSE Max2(Head(s), MaxSeq(Tail(s)))
RECURSIVE Depth(_)
Depth(t) == 1 + MaxSeq([j \in 1..Len(t.a) |-> Depth(t.a[j])])
SymbolsCount(t) == Cardinality({s \in SubTerms(t) : s.op = "symbol"})
BoolDagNodes(t) ==
    \* DAG size "considering theory atoms (relations) as leaves"
    LET RECURSIVE B(_)
        B(u) == IF u.op \in Relations THEN {u}
                ELSE {u} \cup UNION {B(u.a[j]) : j \in 1..Len(u.a)}
    IN  Cardinality(B(t))

=============================================================================
