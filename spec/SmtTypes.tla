------------------------------ MODULE SmtTypes ------------------------------
(***************************************************************************)
(* Sorts, the term representation shared with the harness, and the typing   *)
(* rules of the 65 pySMT operators (ALGEBRAIC_CONSTANT is outside the       *)
(* modelled fragment).                                                      *)
(*                                                                         *)
(* A sort is a record [k, w, n, a]:                                         *)
(*   k \in {"Bool","Int","Real","String","BV","Array","Fun","Sort"}         *)
(*   w = width (BV), n = name (custom sort),                                *)
(*   a = <<index, elem>> (Array) / <<ret, p1 .. pn>> (Fun) / sort args      *)
(*                                                                         *)
(* A term is a record [op, a, n, ty, i, s, bv]:                             *)
(*   op  operator name            a   sequence of sub-terms                 *)
(*   n   symbol / function name   ty  symbol sort / function sort /         *)
(*                                    index sort of an array value          *)
(*   i   integer payload          s   character codes of a string constant  *)
(*   bv  bound variables of a quantifier, records [n, ty]                   *)
(* Integer payloads:  bool_constant <<0|1>>, int_constant <<v>>,            *)
(*   real_constant <<num,den>>, bv_constant <<value,width>>,                *)
(*   bv operators <<width>>, bv_extract <<width,lo,hi>>,                    *)
(*   bv_rol/ror <<width,step>>, bv_zext/sext <<width,increase>>.            *)
(***************************************************************************)
EXTENDS SmtValues

Ty(k, w, n, a) == [k |-> k, w |-> w, n |-> n, a |-> a]
TBool   == Ty("Bool", 0, "", <<>>)
TInt    == Ty("Int", 0, "", <<>>)
TReal   == Ty("Real", 0, "", <<>>)
TString == Ty("String", 0, "", <<>>)
TBV(w)  == Ty("BV", w, "", <<>>)
TArray(i, e) == Ty("Array", 0, "", <<i, e>>)
TFun(r, ps)  == Ty("Fun", 0, "", <<r>> \o ps)
TSort(n)     == Ty("Sort", 0, n, <<>>)
TNone   == Ty("None", 0, "", <<>>)
Ill     == Ty("Ill", 0, "", <<>>)          \* result of an ill-typed application

IsBV(t) == t.k = "BV"
IsArith(t) == t.k = "Int" \/ t.k = "Real"
FunRet(t) == t.a[1]
FunParams(t) == Tail(t.a)

\* A sort that can be the sort of a term (function sorts cannot)
RECURSIVE IsTermSort(_)
IsTermSort(t) ==
    CASE t.k \in {"Bool", "Int", "Real", "String"} -> TRUE
      [] t.k = "BV" -> t.w >= 0         \* pySMT lets one declare BV{0}; it is a width like any other for the typing rules
      [] t.k = "Array" -> Len(t.a) = 2 /\ IsTermSort(t.a[1]) /\ IsTermSort(t.a[2])
      [] t.k = "Sort" -> \A j \in 1..Len(t.a) : IsTermSort(t.a[j])
      [] OTHER -> FALSE

\* -------------------------------------------------------------------------
\* term constructors (used by the generators and the rule models)
Node(op, a, n, ty, i, s, bv) ==
    [op |-> op, a |-> a, n |-> n, ty |-> ty, i |-> i, s |-> s, bv |-> bv]
Op(op, a)        == Node(op, a, "", TNone, <<>>, <<>>, <<>>)
OpI(op, a, i)    == Node(op, a, "", TNone, i, <<>>, <<>>)
Sym(n, ty)       == Node("symbol", <<>>, n, ty, <<>>, <<>>, <<>>)
BoolC(b)         == Node("bool_constant", <<>>, "", TNone, <<IF b THEN 1 ELSE 0>>, <<>>, <<>>)
IntC(v)          == Node("int_constant", <<>>, "", TNone, <<v>>, <<>>, <<>>)
RealC(q)         == Node("real_constant", <<>>, "", TNone, <<q[1], q[2]>>, <<>>, <<>>)
BVC(v, w)        == Node("bv_constant", <<>>, "", TNone, <<v, w>>, <<>>, <<>>)
StrC(s)          == Node("str_constant", <<>>, "", TNone, <<>>, s, <<>>)
App(fn, fty, a)  == Node("function", a, fn, fty, <<>>, <<>>, <<>>)
Quant(q, vs, b)  == Node(q, <<b>>, "", TNone, <<>>, <<>>, vs)
ArrV(ity, a)     == Node("array_value", a, "", ity, <<>>, <<>>, <<>>)
BVar(n, ty)      == [n |-> n, ty |-> ty]

\* -------------------------------------------------------------------------
BVBinOps == {"bv_and", "bv_or", "bv_xor", "bv_add", "bv_sub", "bv_mul", "bv_udiv",
             "bv_urem", "bv_lshl", "bv_lshr", "bv_sdiv", "bv_srem", "bv_ashr"}
BVUnOps  == {"bv_not", "bv_neg"}
BVRelOps == {"bv_ult", "bv_ule", "bv_slt", "bv_sle"}
BoolOps  == {"and", "or", "not", "implies", "iff"}
ConstOps == {"bool_constant", "int_constant", "real_constant", "bv_constant", "str_constant"}

AllSame(ts, t) == \A j \in 1..Len(ts) : ts[j] = t

(***************************************************************************)
(* TypeRule(op, t, ts): sort of the application of node t's operator to     *)
(* arguments of sorts ts, or Ill.  Written from the SMT-LIB theory          *)
(* declarations plus pySMT's documented specifics: Equals is not defined on *)
(* Bool (Iff is), Pow has sort Real and a constant exponent, ToReal takes   *)
(* an Int, relations and arithmetic never mix Int and Real, and/or/plus/    *)
(* times are n-ary (n >= 2), str.++ is n-ary.                               *)
(***************************************************************************)
TypeRule(t, ts) ==
    LET op == t.op
        n  == Len(ts)
    IN
    IF \E j \in 1..n : ts[j] = Ill THEN Ill ELSE
    CASE op \in {"and", "or"} -> IF n >= 2 /\ AllSame(ts, TBool) THEN TBool ELSE Ill
      [] op = "not" -> IF n = 1 /\ ts[1] = TBool THEN TBool ELSE Ill
      [] op \in {"implies", "iff"} -> IF n = 2 /\ AllSame(ts, TBool) THEN TBool ELSE Ill
      [] op \in {"forall", "exists"} ->
            IF n = 1 /\ ts[1] = TBool /\ Len(t.bv) >= 1
               /\ \A j \in 1..Len(t.bv) : IsTermSort(t.bv[j].ty)
            THEN TBool ELSE Ill
      [] op = "symbol" -> IF n = 0 /\ (IsTermSort(t.ty) \/ t.ty.k = "Fun") THEN t.ty ELSE Ill
      [] op = "function" ->
            IF t.ty.k = "Fun" /\ n >= 1 /\ n = Len(t.ty.a) - 1
               /\ \A j \in 1..n : ts[j] = t.ty.a[j + 1]
            THEN FunRet(t.ty) ELSE Ill
      [] op = "bool_constant" -> IF n = 0 /\ Len(t.i) = 1 /\ t.i[1] \in {0, 1} THEN TBool ELSE Ill
      [] op = "int_constant" -> IF n = 0 /\ Len(t.i) = 1 THEN TInt ELSE Ill
      [] op = "real_constant" -> IF n = 0 /\ Len(t.i) = 2 /\ t.i[2] > 0 THEN TReal ELSE Ill
      [] op = "str_constant" -> IF n = 0 THEN TString ELSE Ill
      [] op = "bv_constant" ->
            IF n = 0 /\ Len(t.i) = 2 /\ t.i[2] > 0 /\ t.i[1] >= 0
               /\ (t.i[2] >= 31 \/ t.i[1] < Pow2(t.i[2]))
            THEN TBV(t.i[2]) ELSE Ill
      [] op \in {"plus", "times"} ->
            IF n >= 2 /\ IsArith(ts[1]) /\ AllSame(ts, ts[1]) THEN ts[1] ELSE Ill
      [] op \in {"minus", "div"} ->
            IF n = 2 /\ IsArith(ts[1]) /\ ts[2] = ts[1] THEN ts[1] ELSE Ill
      [] op = "pow" ->
            IF n = 2 /\ IsArith(ts[1]) /\ ts[2] = ts[1]
               /\ t.a[2].op \in {"int_constant", "real_constant"}
            THEN TReal ELSE Ill
      [] op \in {"le", "lt"} ->
            IF n = 2 /\ IsArith(ts[1]) /\ ts[2] = ts[1] THEN TBool ELSE Ill
      [] op = "equals" ->
            IF n = 2 /\ ts[1] = ts[2] /\ IsTermSort(ts[1]) /\ ts[1] # TBool THEN TBool ELSE Ill
      [] op = "ite" ->
            IF n = 3 /\ ts[1] = TBool /\ ts[2] = ts[3] /\ IsTermSort(ts[2]) THEN ts[2] ELSE Ill
      [] op = "toreal" -> IF n = 1 /\ ts[1] = TInt THEN TReal ELSE Ill
      [] op \in BVUnOps ->
            IF n = 1 /\ IsBV(ts[1]) /\ Len(t.i) = 1 /\ t.i[1] = ts[1].w THEN ts[1] ELSE Ill
      [] op \in BVBinOps ->
            IF n = 2 /\ IsBV(ts[1]) /\ ts[2] = ts[1] /\ Len(t.i) = 1 /\ t.i[1] = ts[1].w
            THEN ts[1] ELSE Ill
      [] op \in BVRelOps ->
            IF n = 2 /\ IsBV(ts[1]) /\ ts[2] = ts[1] THEN TBool ELSE Ill
      [] op = "bv_comp" -> IF n = 2 /\ IsBV(ts[1]) /\ ts[2] = ts[1] THEN TBV(1) ELSE Ill
      [] op = "bv_concat" ->
            IF n = 2 /\ IsBV(ts[1]) /\ IsBV(ts[2]) /\ Len(t.i) = 1 /\ t.i[1] = ts[1].w + ts[2].w
            THEN TBV(t.i[1]) ELSE Ill
      [] op = "bv_extract" ->
            IF n = 1 /\ IsBV(ts[1]) /\ Len(t.i) = 3
               /\ 0 <= t.i[2] /\ t.i[2] <= t.i[3] /\ t.i[3] < ts[1].w
               /\ t.i[1] = t.i[3] - t.i[2] + 1
            THEN TBV(t.i[1]) ELSE Ill
      [] op \in {"bv_rol", "bv_ror"} ->
            IF n = 1 /\ IsBV(ts[1]) /\ Len(t.i) = 2 /\ t.i[1] = ts[1].w /\ t.i[2] >= 0
            THEN ts[1] ELSE Ill
      [] op \in {"bv_zext", "bv_sext"} ->
            IF n = 1 /\ IsBV(ts[1]) /\ Len(t.i) = 2 /\ t.i[2] >= 0 /\ t.i[1] = ts[1].w + t.i[2]
            THEN TBV(t.i[1]) ELSE Ill
      [] op = "bv_tonatural" -> IF n = 1 /\ IsBV(ts[1]) THEN TInt ELSE Ill
      [] op = "str_length" -> IF n = 1 /\ ts[1] = TString THEN TInt ELSE Ill
      [] op = "str_concat" -> IF n >= 2 /\ AllSame(ts, TString) THEN TString ELSE Ill
      [] op \in {"str_contains", "str_prefixof", "str_suffixof"} ->
            IF n = 2 /\ AllSame(ts, TString) THEN TBool ELSE Ill
      [] op = "str_indexof" ->
            IF n = 3 /\ ts[1] = TString /\ ts[2] = TString /\ ts[3] = TInt THEN TInt ELSE Ill
      [] op = "str_replace" -> IF n = 3 /\ AllSame(ts, TString) THEN TString ELSE Ill
      [] op = "str_substr" ->
            IF n = 3 /\ ts[1] = TString /\ ts[2] = TInt /\ ts[3] = TInt THEN TString ELSE Ill
      [] op = "str_to_int" -> IF n = 1 /\ ts[1] = TString THEN TInt ELSE Ill
      [] op = "int_to_str" -> IF n = 1 /\ ts[1] = TInt THEN TString ELSE Ill
      [] op = "str_charat" -> IF n = 2 /\ ts[1] = TString /\ ts[2] = TInt THEN TString ELSE Ill
      [] op = "array_select" ->
            IF n = 2 /\ ts[1].k = "Array" /\ ts[1].a[1] = ts[2] THEN ts[1].a[2] ELSE Ill
      [] op = "array_store" ->
            IF n = 3 /\ ts[1].k = "Array" /\ ts[1].a[1] = ts[2] /\ ts[1].a[2] = ts[3]
            THEN ts[1] ELSE Ill
      [] op = "array_value" ->
            IF n >= 1 /\ n % 2 = 1 /\ IsTermSort(t.ty) /\ IsTermSort(ts[1])
               /\ \A j \in 2..n : IF j % 2 = 0
                                    THEN ts[j] = t.ty /\ t.a[j].op \in ConstOps
                                    ELSE ts[j] = ts[1]
            THEN TArray(t.ty, ts[1]) ELSE Ill
      [] OTHER -> Ill

\* checking type derivation
RECURSIVE TypeOf(_)
TypeOf(t) == TypeRule(t, [j \in 1..Len(t.a) |-> TypeOf(t.a[j])])

WellTyped(t) == TypeOf(t) # Ill

\* fast sort look-up for terms already known to be well-typed: reads the
\* width payload instead of descending
RECURSIVE TyF(_)
TyF(t) ==
    LET op == t.op IN
    CASE op = "symbol" -> t.ty
      [] op = "function" -> FunRet(t.ty)
      [] op \in BoolOps \cup {"forall", "exists", "bool_constant", "le", "lt", "equals",
                              "str_contains", "str_prefixof", "str_suffixof"} \cup BVRelOps -> TBool
      [] op \in {"int_constant", "bv_tonatural", "str_length", "str_indexof", "str_to_int"} -> TInt
      [] op \in {"real_constant", "toreal", "pow"} -> TReal
      [] op \in {"str_constant", "str_concat", "str_replace", "str_substr", "int_to_str",
                 "str_charat"} -> TString
      [] op = "bv_constant" -> TBV(t.i[2])
      [] op = "bv_comp" -> TBV(1)
      [] op \in BVUnOps \cup BVBinOps \cup {"bv_concat", "bv_extract", "bv_rol", "bv_ror",
                                            "bv_zext", "bv_sext"} -> TBV(t.i[1])
      [] op \in {"plus", "minus", "times", "div"} -> TyF(t.a[1])
      [] op = "ite" -> TyF(t.a[2])
      [] op = "array_select" -> TyF(t.a[1]).a[2]
      [] op = "array_store" -> TyF(t.a[1])
      [] op = "array_value" -> TArray(t.ty, TyF(t.a[1]))
      [] OTHER -> Ill

=============================================================================
