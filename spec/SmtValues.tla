----------------------------- MODULE SmtValues -----------------------------
(***************************************************************************)
(* Value domains of the SMT sorts used by pySMT and the arithmetic on them. *)
(*                                                                         *)
(*   Bool    TRUE / FALSE                                                  *)
(*   Int     TLC integer (32 bit; TLC fails loudly on overflow)            *)
(*   Real    <<num, den>>  normalised: den > 0, gcd(num,den) = 1           *)
(*   BV w    natural number < 2^w  (w <= 15 so that products fit)          *)
(*   String  sequence of character codes                                   *)
(*   Array   [d |-> default, m |-> finite function of exceptions]          *)
(*           canonical: no exception equals the default (infinite index    *)
(*           sort) / total table and d = "fin" (finite index sort)         *)
(*   Fun     [d |-> default, m |-> function from argument tuples]          *)
(*   Sort S  natural number (abstract element)                             *)
(***************************************************************************)
EXTENDS Integers, Sequences, FiniteSets, TLC

\* ---------------------------------------------------------------- integers
Abs(x) == IF x < 0 THEN -x ELSE x
Min2(a, b) == IF a <= b THEN a ELSE b
Max2(a, b) == IF a >= b THEN a ELSE b

RECURSIVE GcdN(_, _)
GcdN(a, b) == IF b = 0 THEN a ELSE GcdN(b, a % b)
Gcd(a, b) == GcdN(Abs(a), Abs(b))

RECURSIVE Pow2(_)
Pow2(n) == IF n <= 0 THEN 1 ELSE 2 * Pow2(n - 1)

RECURSIVE IPow(_, _)
IPow(b, e) == IF e <= 0 THEN 1 ELSE b * IPow(b, e - 1)

\* SMT-LIB integer division: the unique q with  a = b*q + r, 0 <= r < |b|
\* (TLC's \div floors, so for b < 0 we go through -b).
IntDiv(a, b) == IF b > 0 THEN a \div b ELSE -(a \div (-b))
IntMod(a, b) == a - b * IntDiv(a, b)

\* ---------------------------------------------------------------- rationals
QNorm(n, d) ==
    LET g == Gcd(n, d)
        s == IF d < 0 THEN -1 ELSE 1
    IN  IF g = 0 THEN <<0, 1>> ELSE <<s * (n \div g), s * (d \div g)>>
    \* n \div g is exact, so flooring is irrelevant

QOfInt(i) == <<i, 1>>
QAdd(a, b) == QNorm(a[1] * b[2] + b[1] * a[2], a[2] * b[2])
QSub(a, b) == QNorm(a[1] * b[2] - b[1] * a[2], a[2] * b[2])
QMul(a, b) == QNorm(a[1] * b[1], a[2] * b[2])
QDiv(a, b) == QNorm(a[1] * b[2], a[2] * b[1])     \* b # 0
QLe(a, b) == a[1] * b[2] <= b[1] * a[2]
QLt(a, b) == a[1] * b[2] < b[1] * a[2]
QIsZero(a) == a[1] = 0
RECURSIVE QPow(_, _)
QPow(b, e) == IF e = 0 THEN <<1, 1>>
              ELSE IF e > 0 THEN QMul(b, QPow(b, e - 1))
              ELSE QDiv(<<1, 1>>, QPow(b, -e))           \* b # 0

\* ---------------------------------------------------------------- bit-vectors
BVMod(x, w) == x % Pow2(w)
BVSigned(x, w) == IF x >= Pow2(w - 1) THEN x - Pow2(w) ELSE x
BVOfSigned(s, w) == IF s < 0 THEN s + Pow2(w) ELSE s
BVBit(x, i) == (x \div Pow2(i)) % 2

RECURSIVE BVBitwise(_, _, _, _)
\* op: 1 = and, 2 = or, 3 = xor
BVBitwise(op, x, y, w) ==
    IF w = 0 THEN 0
    ELSE LET a == x % 2
             b == y % 2
             r == CASE op = 1 -> IF a = 1 /\ b = 1 THEN 1 ELSE 0
                    [] op = 2 -> IF a = 1 \/ b = 1 THEN 1 ELSE 0
                    [] OTHER  -> IF a # b THEN 1 ELSE 0
         IN  r + 2 * BVBitwise(op, x \div 2, y \div 2, w - 1)

BVNot(x, w) == Pow2(w) - 1 - x
BVNeg(x, w) == BVMod(Pow2(w) - x, w)
BVAdd(x, y, w) == BVMod(x + y, w)
BVSub(x, y, w) == BVMod(x - y + Pow2(w), w)
BVMul(x, y, w) == BVMod(x * y, w)
BVUDiv(x, y, w) == IF y = 0 THEN Pow2(w) - 1 ELSE x \div y
BVURem(x, y, w) == IF y = 0 THEN x ELSE x % y
BVShl(x, y, w) == IF y >= w THEN 0 ELSE BVMod(x * Pow2(y), w)
BVLShr(x, y, w) == IF y >= w THEN 0 ELSE x \div Pow2(y)
BVAShr(x, y, w) ==
    \* arithmetic shift = floor division of the signed value
    LET s == BVSigned(x, w)
        k == IF y >= w THEN w - 1 ELSE y       \* saturates: all sign bits
        q == s \div Pow2(k)                   \* TLC \div floors
    IN  IF y >= w THEN (IF s < 0 THEN Pow2(w) - 1 ELSE 0)
        ELSE BVOfSigned(q, w)
\* SMT-LIB: bvsdiv / bvsrem are defined by sign cases over bvudiv / bvurem
BVSDiv(x, y, w) ==
    LET sx == x >= Pow2(w - 1)
        sy == y >= Pow2(w - 1)
    IN  CASE ~sx /\ ~sy -> BVUDiv(x, y, w)
          [] sx /\ ~sy  -> BVNeg(BVUDiv(BVNeg(x, w), y, w), w)
          [] ~sx /\ sy  -> BVNeg(BVUDiv(x, BVNeg(y, w), w), w)
          [] OTHER      -> BVUDiv(BVNeg(x, w), BVNeg(y, w), w)
BVSRem(x, y, w) ==
    LET sx == x >= Pow2(w - 1)
        sy == y >= Pow2(w - 1)
    IN  CASE ~sx /\ ~sy -> BVURem(x, y, w)
          [] sx /\ ~sy  -> BVNeg(BVURem(BVNeg(x, w), y, w), w)
          [] ~sx /\ sy  -> BVURem(x, BVNeg(y, w), w)
          [] OTHER      -> BVNeg(BVURem(BVNeg(x, w), BVNeg(y, w), w), w)
\* bvsmod: SMT-LIB's definition (sign follows the divisor)
BVSMod(x, y, w) ==
    LET sx == x >= Pow2(w - 1)
        sy == y >= Pow2(w - 1)
        ax == IF sx THEN BVNeg(x, w) ELSE x
        ay == IF sy THEN BVNeg(y, w) ELSE y
        u  == BVURem(ax, ay, w)
    IN  CASE u = 0      -> u
          [] ~sx /\ ~sy -> u
          [] sx /\ ~sy  -> BVAdd(BVNeg(u, w), y, w)
          [] ~sx /\ sy  -> BVAdd(u, y, w)
          [] OTHER      -> BVNeg(u, w)
\* second, independent definition used by the self-check MC_Values:
\* truncated division on the signed values
BVSDivT(x, y, w) ==
    LET a == BVSigned(x, w)
        b == BVSigned(y, w)
        q == IF b = 0 THEN (IF a < 0 THEN 1 ELSE -1)
             ELSE (IF (a < 0) = (b < 0) THEN Abs(a) \div Abs(b) ELSE -(Abs(a) \div Abs(b)))
    IN  BVMod(q + Pow2(w), w)
BVSRemT(x, y, w) ==
    LET a == BVSigned(x, w)
        b == BVSigned(y, w)
        r == IF b = 0 THEN a
             ELSE (IF a < 0 THEN -(Abs(a) % Abs(b)) ELSE Abs(a) % Abs(b))
    IN  BVMod(r + Pow2(w), w)
BVSModM(x, y, w) ==
    \* mathematical: result has the sign of the divisor; y = 0 gives x
    LET a == BVSigned(x, w)
        b == BVSigned(y, w)
        r == IF b = 0 THEN a ELSE a - b * (IF b > 0 THEN a \div b ELSE (-a) \div (-b))
    IN  BVMod(r + Pow2(w), w)

BVConcat(x, y, wy) == x * Pow2(wy) + y
BVExtract(x, lo, hi) == (x \div Pow2(lo)) % Pow2(hi - lo + 1)
BVRol(x, k, w) == IF w = 0 THEN x ELSE
    LET r == k % w IN BVMod(x * Pow2(r), w) + (x \div Pow2(w - r))
BVRor(x, k, w) == IF w = 0 THEN x ELSE
    LET r == k % w IN (x \div Pow2(r)) + BVMod(x * Pow2(w - r), w)
BVZExt(x, k, w) == x
BVSExt(x, k, w) == IF x >= Pow2(w - 1) THEN x + (Pow2(k) - 1) * Pow2(w) ELSE x

\* ---------------------------------------------------------------- strings
IsPrefixS(s, t) == Len(s) <= Len(t) /\ SubSeq(t, 1, Len(s)) = s
IsSuffixS(s, t) == Len(s) <= Len(t) /\ SubSeq(t, Len(t) - Len(s) + 1, Len(t)) = s
OccursAt(s, t, j) == \* t occurs in s at 0-based position j
    j >= 0 /\ j + Len(t) <= Len(s) /\ SubSeq(s, j + 1, j + Len(t)) = t
StrContains(s, t) == \E j \in 0..Len(s) : OccursAt(s, t, j)
StrIndexOf(s, t, i) ==
    IF i < 0 \/ i > Len(s) THEN -1
    ELSE LET js == {j \in i..Len(s) : OccursAt(s, t, j)}
         IN  IF js = {} THEN -1 ELSE CHOOSE j \in js : \A k \in js : j <= k
StrAt(s, i) == IF 0 <= i /\ i < Len(s) THEN <<s[i + 1]>> ELSE <<>>
StrSubstr(s, i, n) ==
    IF 0 <= i /\ i < Len(s) /\ n > 0
    THEN SubSeq(s, i + 1, i + Min2(n, Len(s) - i)) ELSE <<>>
StrReplace(s, t, u) ==
    LET j == StrIndexOf(s, t, 0)
    IN  IF j < 0 THEN s
        ELSE SubSeq(s, 1, j) \o u \o SubSeq(s, j + Len(t) + 1, Len(s))
IsDigit(c) == 48 <= c /\ c <= 57
RECURSIVE DigitsVal(_, _)
DigitsVal(s, acc) == IF s = <<>> THEN acc ELSE DigitsVal(Tail(s), 10 * acc + (Head(s) - 48))
StrToInt(s) == IF s # <<>> /\ \A k \in 1..Len(s) : IsDigit(s[k]) THEN DigitsVal(s, 0) ELSE -1
RECURSIVE NatToStr(_)
NatToStr(n) == IF n < 10 THEN <<48 + n>> ELSE NatToStr(n \div 10) \o <<48 + (n % 10)>>
StrFromInt(n) == IF n < 0 THEN <<>> ELSE NatToStr(n)

\* ---------------------------------------------------------------- finite maps
EmptyMap == << >>          \* the function with empty domain
MapGet(m, d, k) == IF k \in DOMAIN m THEN m[k] ELSE d
MapPut(m, k, v) == [x \in DOMAIN m \cup {k} |-> IF x = k THEN v ELSE m[x]]
MapDropDefault(m, d) == LET ks == {k \in DOMAIN m : m[k] # d} IN [k \in ks |-> m[k]]

=============================================================================
