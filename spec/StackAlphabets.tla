---------------------------- MODULE StackAlphabets ----------------------------
(* Command alphabets shared by the history generators, the design checks and the simulators *)
EXTENDS AssertionStack

ScriptCmds ==
    {Cmd("assert", 1, 0, ""), Cmd("assert", 2, 0, ""),
     Cmd("soft", 3, 1, "g1"), Cmd("soft", 4, 3, "g1"), Cmd("soft", 3, 2, "g2"),
     Cmd("push", 0, 0, ""), Cmd("push", 0, 1, ""), Cmd("push", 0, 2, ""),
     Cmd("pop", 0, 0, ""), Cmd("pop", 0, 1, ""), Cmd("pop", 0, 2, ""),
     Cmd("reset", 0, 0, ""), Cmd("check", 0, 0, ""),
     Cmd("maximize", 5, 0, ""), Cmd("minimize", 6, 0, ""),
     \* objectives with attributes: n = 1 means :signed, id names the goal (the text puts :id before :signed)
     Cmd("maximize", 5, 1, "g7"), Cmd("minimize", 6, 1, "")}

SolverCmds ==
    {Cmd("assert", 1, 0, ""), Cmd("assert", 2, 0, ""),
     Cmd("push", 0, 0, ""), Cmd("push", 0, 1, ""), Cmd("push", 0, 2, ""),
     Cmd("pop", 0, 0, ""), Cmd("pop", 0, 1, ""), Cmd("pop", 0, 2, ""),
     Cmd("reset", 0, 0, ""), Cmd("solve", 0, 0, ""), Cmd("solve_assuming", 3, 0, ""),
     Cmd("is_sat", 3, 0, ""), Cmd("is_valid", 4, 0, ""), Cmd("is_unsat", 3, 0, "")}

\* the API of a solver driven through the textual SMT-LIB interface (C17)
SlsCmds ==
    {Cmd("assert", 1, 0, ""), Cmd("assert", 2, 0, ""), Cmd("assert", 3, 0, ""),
     Cmd("push", 0, 1, ""), Cmd("push", 0, 2, ""), Cmd("pop", 0, 1, ""), Cmd("pop", 0, 2, ""),
     Cmd("reset", 0, 0, ""), Cmd("solve", 0, 0, ""), Cmd("get_value", 0, 0, ""), Cmd("get_model", 0, 0, ""),
     Cmd("is_sat", 4, 0, ""), Cmd("is_valid", 5, 0, ""), Cmd("is_unsat", 4, 0, "")}
\* declaration scoping of C17: terms 1 and 3 share the symbols p, x, y; 2 uses q, b
SlsDeclCmds ==
    {Cmd("assert", 1, 0, ""), Cmd("assert", 2, 0, ""), Cmd("assert", 3, 0, ""),
     Cmd("push", 0, 1, ""), Cmd("push", 0, 2, ""), Cmd("pop", 0, 1, ""), Cmd("pop", 0, 2, "")}
=============================================================================
