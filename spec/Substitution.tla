---------------------------- MODULE Substitution ----------------------------
(***************************************************************************)
(* Reference substitution functions (C05).                                  *)
(*   MGS(t, s)  most general: look the node up BEFORE rebuilding it         *)
(*   MSS(t, s)  most specific: rebuild from substituted children, THEN look *)
(*              the rebuilt node up                                         *)
(* s is a function from terms to terms.  When a binder is entered every key *)
(* with a free symbol among the bound variables is dropped.  Nodes are      *)
(* rebuilt through the constructors, whose only normalisation inside the    *)
(* exact fragment is Not(Not(a)) = a.                                       *)
(* Function interpretations FI: name -> [params, body].                     *)
(***************************************************************************)
EXTENDS Derived

Rebuild(t, args) ==
    IF t.op = "not" /\ args[1].op = "not" THEN args[1].a[1] ELSE [t EXCEPT !.a = args]

DropBound(s, t) ==
    LET bn == BoundNames(t)
        ks == {k \in DOMAIN s : FreeNames(k) \cap bn = {}}
    IN  [k \in ks |-> s[k]]

\* interpretation of an applied function symbol: substitute actual for formal parameters (MGS)
RECURSIVE MGS(_, _, _)
RECURSIVE MSS(_, _, _)

Interpret(fi, actuals, strat) ==
    LET sub == [k \in {Sym(fi.params[j].n, fi.params[j].ty) : j \in 1..Len(fi.params)} |->
                   actuals[CHOOSE j \in 1..Len(fi.params) : fi.params[j].n = k.n]]
    IN  IF strat = "MG" THEN MGS(fi.body, sub, EmptyMap) ELSE MSS(fi.body, sub, EmptyMap)

MGS(t, s, FI) ==
    IF t.op \in {"forall", "exists"}
    THEN LET body == MGS(t.a[1], DropBound(s, t), FI)
         IN  IF t \in DOMAIN s THEN s[t] ELSE [t EXCEPT !.a = <<body>>]
    ELSE LET args == [j \in 1..Len(t.a) |-> MGS(t.a[j], s, FI)]
         IN  IF t \in DOMAIN s THEN s[t]
             ELSE IF t.op = "function" /\ t.n \in DOMAIN FI THEN Interpret(FI[t.n], args, "MG")
             ELSE Rebuild(t, args)

MSS(t, s, FI) ==
    IF t.op \in {"forall", "exists"}
    THEN LET r == [t EXCEPT !.a = <<MSS(t.a[1], DropBound(s, t), FI)>>]
         IN  IF r \in DOMAIN s THEN s[r] ELSE r
    ELSE LET args == [j \in 1..Len(t.a) |-> MSS(t.a[j], s, FI)]
             r == IF t.op = "function" /\ t.n \in DOMAIN FI THEN Interpret(FI[t.n], args, "MG")
                  ELSE Rebuild(t, args)
         IN  IF r \in DOMAIN s THEN s[r] ELSE r

\* operators whose rebuild is structural (or the Not normalisation)
ExactOps == (BoolOps \cup {"forall", "exists", "symbol", "function", "equals", "le", "lt", "plus", "minus",
                           "times", "ite", "array_select", "array_store", "bv_tonatural"}
             \cup ConstOps \cup BVUnOps \cup BVBinOps \cup BVRelOps \cup {"bv_comp"}
             \cup {"str_length", "str_concat", "str_contains", "str_indexof", "str_replace", "str_substr",
                   "str_prefixof", "str_suffixof", "str_to_int", "int_to_str", "str_charat"})
RECURSIVE InExactFragment(_)
InExactFragment(t) == t.op \in ExactOps /\ \A j \in 1..Len(t.a) : InExactFragment(t.a[j])

\* all names bound anywhere in t
RECURSIVE AllBoundNames(_)
AllBoundNames(t) ==
    (IF t.op \in {"forall", "exists"} THEN BoundNames(t) ELSE {}) \cup UNION {AllBoundNames(t.a[j]) : j \in 1..Len(t.a)}

\* conservative capture-freedom: no free symbol of a replacement is bound anywhere in t
CaptureFree(t, s) == \A k \in DOMAIN s : FreeNames(s[k]) \cap AllBoundNames(t) = {}

=============================================================================
