--------------------------- MODULE TrackingSolver ---------------------------
(***************************************************************************)
(* Implementation-shaped model of pysmt.solvers.solver                      *)
(* IncrementalTrackingSolver + Solver.is_sat + the clear_pending_pop        *)
(* decorator (as applied in the in-tree solvers to the _add_assertion /     *)
(* _push / _pop / _solve / assertions entry points), and its refinement of  *)
(* the abstract assertion stack of SmtLibScript.                            *)
(*   stack    = _assertion_stack      bps = _backtrack_points               *)
(*   pending  = pending_pop                                                 *)
(***************************************************************************)
EXTENDS Integers, Sequences, FiniteSets, TLC

CONSTANTS Cmds, MaxLen

VARIABLES stack, bps, pending,      \* implementation state
          levels, hist              \* abstract state and history

A == INSTANCE SmtLibScript

vars == <<stack, bps, pending, levels, hist>>

\* one pop of the implementation
Pop1(st, bp) == <<SubSeq(st, 1, bp[Len(bp)]), SubSeq(bp, 1, Len(bp) - 1)>>
RECURSIVE PopN(_, _, _)
PopN(st, bp, n) == IF n = 0 THEN <<st, bp>> ELSE LET r == Pop1(st, bp) IN PopN(r[1], r[2], n - 1)
RECURSIVE PushN(_, _, _)
PushN(bp, point, n) == IF n = 0 THEN bp ELSE PushN(Append(bp, point), point, n - 1)

\* clear_pending_pop: executed on entry of every decorated method
Cleared == IF pending THEN Pop1(stack, bps) ELSE <<stack, bps>>

Init == stack = <<>> /\ bps = <<>> /\ pending = FALSE /\ levels = A!InitLevels /\ hist = <<>>

AddAssertion(x) ==
    /\ stack' = Append(Cleared[1], x) /\ bps' = Cleared[2] /\ pending' = FALSE
Push(n) ==
    /\ stack' = Cleared[1] /\ bps' = PushN(Cleared[2], Len(Cleared[1]), n) /\ pending' = FALSE
Pop(n) ==
    LET r == PopN(Cleared[1], Cleared[2], n) IN stack' = r[1] /\ bps' = r[2] /\ pending' = FALSE
Reset ==
    \* reset_assertions clears the tracked list but neither the backtrack points nor pending_pop
    \* (the in-tree _reset_assertions is decorated, so a pending pop is cleared first)
    /\ stack' = <<>> /\ bps' = Cleared[2] /\ pending' = FALSE
Solve == stack' = Cleared[1] /\ bps' = Cleared[2] /\ pending' = FALSE
IsSat(x) ==
    \* push(); add_assertion(x); solve(); pending_pop := True
    LET c == Cleared
    IN  stack' = Append(c[1], x) /\ bps' = Append(c[2], Len(c[1])) /\ pending' = TRUE

Do(cmd) ==
    /\ A!Legal(levels, cmd)
    /\ levels' = A!Step(levels, cmd)
    /\ hist' = Append(hist, cmd)
    /\ CASE cmd.c = "assert" -> AddAssertion(cmd.x)
         [] cmd.c = "push" -> Push(cmd.n)
         [] cmd.c = "pop" -> Pop(cmd.n)
         [] cmd.c = "reset" -> Reset
         [] cmd.c \in {"solve", "solve_assuming"} -> Solve
         [] cmd.c \in {"is_sat", "is_valid", "is_unsat"} -> IsSat(cmd.x)

Next == Len(hist) < MaxLen /\ \E cmd \in Cmds : Do(cmd)
Spec == Init /\ [][Next]_vars

\* what the `assertions` property reports (it is decorated too)
Reported == Cleared[1]

\* ---- refinement: the reported assertion list is exactly the live assertions
AbstractAsserts == [j \in 1..Len(A!LiveAsserts(levels)) |-> A!LiveAsserts(levels)[j].x]
TracksLiveAssertions == Reported = AbstractAsserts
\* every legal pop finds enough backtrack points
PopIsSafe == Len(Cleared[2]) >= A!StackDepth(levels)
=============================================================================
