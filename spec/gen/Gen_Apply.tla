------------------------------ MODULE Gen_Apply ------------------------------
(***************************************************************************)
(* Generator for C03: every operator (constructor entry point) applied to   *)
(* every tuple of argument sorts from a sort universe, plus payload grids   *)
(* (extract bounds, rotate / extend steps, array-value shapes, function     *)
(* arities).  An application is the record [op, args, p, n, ty]; the node   *)
(* the constructor is meant to build is Contracts!IntendedNode(app).        *)
(***************************************************************************)
EXTENDS SmtTypes, Json, IOUtils, SequencesExt

CONSTANTS Layer, NShards, Shard

TAII == TArray(TInt, TInt)
TAVB == TArray(TBV(2), TBool)
TAIR == TArray(TInt, TReal)
TS   == TSort("S")
TF1  == TFun(TInt, <<TInt>>)
TF2  == TFun(TBool, <<TBV(2), TInt>>)

\* one leaf per sort of the universe
Leaves == << Sym("p", TBool), Sym("x", TInt), Sym("r", TReal), Sym("e", TBV(1)), Sym("b", TBV(2)),
             Sym("d", TBV(3)), Sym("s", TString), Sym("a", TAII), Sym("m", TAVB), Sym("ar", TAIR),
             Sym("k", TS), Sym("f", TF1) >>
\* constants (array-value keys must be constants; Pow exponents too)
Consts == << BoolC(TRUE), IntC(2), RealC(<<1, 2>>), BVC(1, 1), BVC(2, 2), BVC(5, 3), StrC(<<97>>) >>
LeafSet == {Leaves[j] : j \in 1..(Len(Leaves) - 1)}   \* the function symbol is not a term: never an argument
ConstSet == {Consts[j] : j \in 1..Len(Consts)}
Small == {Leaves[j] : j \in {1, 2, 3, 5, 7, 8}}       \* Bool Int Real BV2 String Array

Ap(op, args, p) == [op |-> op, args |-> args, p |-> p, n |-> "", ty |-> TNone]
AppF(fn, fty, args) == [op |-> "function", args |-> args, p |-> <<>>, n |-> fn, ty |-> fty]
AppA(ity, args) == [op |-> "array_value", args |-> args, p |-> <<>>, n |-> "", ty |-> ity]

Unary == {"not", "toreal", "bv_not", "bv_neg", "bv_tonatural", "str_length", "str_to_int", "int_to_str"}
Binary == {"implies", "iff", "minus", "div", "le", "lt", "equals", "pow",
           "bv_and", "bv_or", "bv_xor", "bv_add", "bv_sub", "bv_mul", "bv_udiv", "bv_urem", "bv_lshl",
           "bv_lshr", "bv_sdiv", "bv_srem", "bv_ashr", "bv_ult", "bv_ule", "bv_slt", "bv_sle", "bv_comp",
           "bv_concat", "str_contains", "str_prefixof", "str_suffixof", "str_charat", "array_select"}
Ternary == {"ite", "str_indexof", "str_replace", "str_substr", "array_store"}
Nary == {"and", "or", "plus", "times", "str_concat"}

Un == {Ap(o, <<x>>, <<>>) : o \in Unary, x \in LeafSet \cup ConstSet}
Bin == {Ap(o, <<x, y>>, <<>>) : o \in Binary, x \in LeafSet, y \in LeafSet \cup ConstSet}
Ter == {Ap(o, <<x, y, z>>, <<>>) : o \in Ternary, x \in LeafSet, y \in LeafSet, z \in LeafSet}
NA ==  {Ap(o, <<>>, <<>>) : o \in Nary}
       \cup {Ap(o, <<x>>, <<>>) : o \in Nary, x \in LeafSet}
       \cup {Ap(o, <<x, y>>, <<>>) : o \in Nary, x \in LeafSet, y \in LeafSet}
       \cup {Ap(o, <<x, y, z>>, <<>>) : o \in Nary, x \in Small, y \in Small, z \in Small}
       \cup {Ap(o, <<x, y, z, u>>, <<>>) : o \in Nary, x \in {Leaves[1], Leaves[2], Leaves[7]},
                y \in {Leaves[1], Leaves[2], Leaves[7]}, z \in {Leaves[1], Leaves[2], Leaves[7]},
                u \in {Leaves[1], Leaves[2], Leaves[3], Leaves[7]}}
BVArgs == {Leaves[4], Leaves[5], Leaves[6], Leaves[2], Leaves[1], BVC(5, 3)}
WOf(x) == IF TyF(x).k = "BV" THEN TyF(x).w ELSE 2
Idx == {Ap("bv_extract", <<x>>, <<lo, hi>>) : x \in BVArgs, lo \in -1..4, hi \in -1..4}
       \cup {Ap(o, <<x>>, <<k>>) : o \in {"bv_rol", "bv_ror"}, x \in BVArgs, k \in -1..4}
       \cup {Ap(o, <<x>>, <<k>>) : o \in {"bv_zext", "bv_sext"}, x \in BVArgs, k \in -1..2}
Quants == {[op |-> q, args |-> <<body>>, p |-> <<>>, n |-> "", ty |-> TNone, bv |-> vs] :
              q \in {"forall", "exists"}, body \in LeafSet \cup {BoolC(TRUE), IntC(2)},
              vs \in {<<>>, <<BVar("x", TInt)>>, <<BVar("p", TBool), BVar("b", TBV(2))>>, <<BVar("k", TS)>>,
                      <<BVar("a", TAII)>>}}
Funs == {AppF("f", TF1, args) : args \in {<<>>} \cup {<<x>> : x \in LeafSet \cup ConstSet}
                                         \cup {<<x, y>> : x \in Small, y \in Small}}
        \cup {AppF("g", TF2, args) : args \in {<<>>} \cup {<<x>> : x \in Small}
                                         \cup {<<x, y>> : x \in LeafSet, y \in LeafSet}
                                         \cup {<<x, y, z>> : x \in Small, y \in Small, z \in {Leaves[1]}}}
ArrVals == {AppA(ity, <<d>>) : ity \in {TInt, TBV(2), TS}, d \in LeafSet \cup ConstSet}
           \cup {AppA(ity, <<d, k, v>>) : ity \in {TInt, TBV(2)}, d \in {Leaves[2], Leaves[1], IntC(2)},
                    k \in ConstSet \cup {Leaves[2]}, v \in {Leaves[2], Leaves[1], Leaves[3], IntC(2)}}

\* user-declared sorts that are NAMED like built-in sorts (Type("Int") is not Int), alone and inside array /
\* function sorts, mixed with the built-in sorts they are named after
KI == Sym("ki", TSort("Int"))
KR == Sym("kr", TSort("Real"))
KB == Sym("kb", TSort("Bool"))
LeafC == {KI, KR, KB, Sym("x", TInt), Sym("r", TReal), Sym("p", TBool), Sym("a", TAII),
          Sym("ak", TArray(TSort("Int"), TInt)), Sym("av", TArray(TInt, TSort("Real")))}
TFK == TFun(TBool, <<TSort("Int")>>)
Clash == {Ap(o, <<x>>, <<>>) : o \in Unary, x \in LeafC}
         \cup {Ap(o, <<x, y>>, <<>>) : o \in Binary \cup Nary, x \in LeafC, y \in LeafC \cup {IntC(2), RealC(<<1, 2>>)}}
         \cup {Ap(o, <<x, y, z>>, <<>>) : o \in {"ite", "array_store"}, x \in LeafC, y \in LeafC, z \in LeafC}
         \cup {AppF("f", TF1, <<x>>) : x \in LeafC} \cup {AppF("fk", TFK, <<x>>) : x \in LeafC}
         \cup {AppA(ity, <<d>>) : ity \in {TInt, TSort("Int")}, d \in LeafC}
         \cup {AppA(ity, <<d, k, v>>) : ity \in {TInt, TSort("Int")}, d \in {KI, Sym("x", TInt)}, k \in {IntC(2)}, v \in {KI, Sym("x", TInt)}}

\* the boundary width 0 (which pySMT lets one declare) against ordinary widths, in both operand positions
Z0 == Sym("z0", TBV(0))
ZeroW == {Ap(o, <<x, y>>, <<>>) : o \in {"bv_ult", "bv_ule", "bv_slt", "bv_sle", "equals", "bv_and", "bv_add", "bv_comp", "bv_concat", "bv_udiv"},
                                    x \in {Z0, Sym("e", TBV(1)), Sym("b", TBV(2))}, y \in {Z0, Sym("e", TBV(1)), Sym("b", TBV(2)), Sym("x", TInt)}}
         \cup {Ap("ite", <<Sym("p", TBool), x, y>>, <<>>) : x \in {Z0, Sym("b", TBV(2))}, y \in {Z0, Sym("b", TBV(2))}}
Corpus == CASE Layer = "APPLY" -> Un \cup Bin \cup Ter \cup NA \cup Idx \cup Funs \cup ArrVals \cup ZeroW
            [] Layer = "QUANT" -> Quants
            [] Layer = "CLASH" -> Clash

VARIABLE done
Init == done = FALSE /\ LET c == SetToSeq(Corpus)
                         IN  ndJsonSerialize(IOEnv.OUT_FILE, c) /\ PrintT(<<"corpus", Layer, Len(c)>>)
Next == ~done /\ done' = TRUE
Spec == Init /\ [][Next]_done
=============================================================================
