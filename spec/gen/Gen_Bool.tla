------------------------------- MODULE Gen_Bool -------------------------------
(***************************************************************************)
(* Generator for C10 / C11: Boolean structure over theory atoms.            *)
(*   QF    quantifier-free, depth <= 3, connectives and/or/not/implies/iff/ *)
(*         ite, Boolean constants in every position, shared sub-formulas    *)
(*   QB    with binders forall/exists over {p}, {b}, {p,q}, {x} incl.       *)
(*         nested, shadowing, free-and-bound occurrences of a symbol        *)
(*   ARITH arithmetic terms for TimesDistributor                            *)
(*   EQS   conjunctions of equalities (all union-find shapes) for           *)
(*         propagate_toplevel                                               *)
(*   UF    formulas with nested / repeated function applications            *)
(***************************************************************************)
EXTENDS SmtTypes, Json, IOUtils, SequencesExt

CONSTANTS Layer, NShards, Shard

TG1 == TFun(TBool, <<TBV(2)>>)
P == Sym("p", TBool)
Q == Sym("q", TBool)
R == Sym("r", TBool)
X == Sym("x", TInt)
Y == Sym("y", TInt)
B == Sym("b", TBV(2))
C == Sym("c", TBV(2))
LeXY == Op("le", <<X, Y>>)
EqBC == Op("equals", <<B, C>>)
GB == App("g", TG1, <<B>>)
Tt == BoolC(TRUE)
Ff == BoolC(FALSE)

Atoms5 == {P, Q, LeXY, EqBC, GB}
Atoms3 == {P, Q, LeXY}
Leafs == Atoms5 \cup {Tt, Ff}

D1(A) == A \cup {Op("not", <<a>>) : a \in A}
         \cup {Op(o, <<a, b>>) : o \in {"and", "or", "implies", "iff"}, a \in A, b \in A}
         \cup {Op("ite", <<a, b, c>>) : a \in Atoms3, b \in A, c \in Atoms3}
D1s == D1(Atoms3 \cup {Tt})
D1f == D1(Leafs)
D2 == {Op(o, <<d, a>>) : o \in {"and", "or", "implies", "iff"}, d \in D1s, a \in Atoms3 \cup {Ff}}
      \cup {Op(o, <<a, d>>) : o \in {"implies", "iff", "and"}, d \in D1s, a \in {P, LeXY}}
      \cup {Op("not", <<d>>) : d \in D1f}
      \cup {Op("ite", <<d, a, b>>) : d \in D1s, a \in {P, EqBC}, b \in {Q, Ff}}
      \cup {Op("ite", <<a, d, b>>) : d \in D1s, a \in {P, LeXY}, b \in {Q, Tt}}
      \cup {Op("and", <<d, d, a>>) : d \in D1s, a \in {Q}}
D3 == {Op("not", <<d>>) : d \in D2} \cup {Op(o, <<d, Op("not", <<d2>>)>>) : o \in {"and", "or"}, d \in {Op("iff", <<P, Q>>), Op("implies", <<LeXY, P>>)}, d2 \in D1s}
\* a NEGATED COMPOUND sub-formula that is needed in both polarities: below iff, as the condition of an ite, and shared
\* between a positive and a negative context
Rb == Sym("rb", TBool)
NegC == {Op("not", <<c>>) : c \in {Op("and", <<P, Q>>), Op("or", <<P, LeXY>>), Op("implies", <<Q, P>>), Op("iff", <<P, Q>>),
                                    Op("ite", <<P, Q, LeXY>>)}}
D4 == {Op("iff", <<n, a>>) : n \in NegC, a \in {Rb, LeXY}} \cup {Op("iff", <<a, n>>) : n \in NegC, a \in {Rb}}
      \cup {Op("ite", <<n, a, b>>) : n \in NegC, a \in {Rb}, b \in {EqBC, Ff}}
      \cup {Op("and", <<Op("implies", <<n, Rb>>), Op("implies", <<EqBC, n>>)>>) : n \in NegC}
      \cup {Op("or", <<Op("and", <<n, Rb>>), Op("not", <<Op("or", <<n, EqBC>>)>>)>>) : n \in NegC}
      \cup {Op("iff", <<n, m>>) : n \in NegC, m \in NegC}
      \* a non-commutative connective over the same operands in BOTH argument orders (and permuted ite)
      \cup {Op(o, <<Op("implies", <<a, b>>), Op("not", <<Op("implies", <<b, a>>)>>)>>) :
                o \in {"and", "or"}, a \in {P, LeXY}, b \in {Q, EqBC}}
      \cup {Op("and", <<Op("ite", <<P, Q, Rb>>), Op("not", <<Op("ite", <<Q, P, Rb>>)>>)>>),
            Op("or", <<Op("ite", <<P, Q, Rb>>), Op("ite", <<P, Rb, Q>>)>>),
            Op("iff", <<Op("implies", <<P, Q>>), Op("implies", <<Q, P>>)>>)}
QF == D1f \cup D2 \cup D3 \cup D4

VarSets == {<<BVar("p", TBool)>>, <<BVar("b", TBV(2))>>, <<BVar("p", TBool), BVar("q", TBool)>>, <<BVar("x", TInt)>>}
Qn == {"forall", "exists"}
Q1 == {Quant(qk, vs, d) : qk \in Qn, vs \in VarSets, d \in D1(Atoms5)}
Q1small == {Quant(qk, vs, d) : qk \in Qn, vs \in {<<BVar("p", TBool)>>, <<BVar("b", TBV(2))>>, <<BVar("x", TInt)>>},
                               d \in {Op("or", <<P, Q>>), Op("and", <<P, EqBC>>), Op("implies", <<LeXY, P>>),
                                      Op("iff", <<P, GB>>), EqBC, Op("not", <<P>>)}}
Q2 == {Op(o, <<qt, a>>) : o \in {"and", "or", "implies", "iff"}, qt \in Q1small, a \in {P, EqBC, LeXY}}
      \cup {Op(o, <<a, qt>>) : o \in {"implies", "iff"}, qt \in Q1small, a \in {P, EqBC}}
      \cup {Op("not", <<qt>>) : qt \in Q1}
      \cup {Op("ite", <<qt, a, b>>) : qt \in Q1small, a \in {P}, b \in {Q, EqBC}}
      \cup {Op("ite", <<a, qt, b>>) : qt \in Q1small, a \in {P, Q}, b \in {Q}}
      \cup {Op(o, <<qt, qt2>>) : o \in {"and", "or", "iff"}, qt \in Q1small, qt2 \in Q1small}
Q3 == {Quant(qk, vs, Op(o, <<qt, a>>)) : qk \in Qn, vs \in {<<BVar("p", TBool)>>, <<BVar("b", TBV(2))>>, <<BVar("q", TBool)>>},
            o \in {"and", "or", "implies"}, qt \in Q1small, a \in {P, EqBC}}
      \cup {Quant(qk, vs, Op("not", <<qt>>)) : qk \in Qn, vs \in {<<BVar("p", TBool)>>, <<BVar("b", TBV(2))>>}, qt \in Q1small}
QB == Q1 \cup Q2 \cup Q3

\* ---- arithmetic for TimesDistributor
Rr == Sym("r", TReal)
Uu == Sym("u", TReal)
IA == {X, Y, IntC(2), IntC(-1), Op("plus", <<X, Y>>), Op("minus", <<X, IntC(1)>>), Op("plus", <<X, IntC(3), Y>>),
       Op("times", <<X, IntC(2)>>), Op("minus", <<Y, X>>)}
RA == {Rr, Uu, RealC(<<1, 2>>), Op("plus", <<Rr, Uu>>), Op("minus", <<Rr, RealC(<<2, 1>>)>>), Op("times", <<Rr, RealC(<<-1, 1>>)>>)}
AR1 == {Op(o, <<a, b>>) : o \in {"times", "plus", "minus"}, a \in IA, b \in IA}
       \cup {Op(o, <<a, b>>) : o \in {"times", "plus", "minus"}, a \in RA, b \in RA}
       \cup {Op("times", <<a, b, c>>) : a \in {X, Op("plus", <<X, Y>>)}, b \in IA, c \in {IntC(2), Op("minus", <<Y, X>>)}}
\* n-ary products with the literal -1 (first / middle / last) and their subtraction, also produced by distribution
NegProds == {Op("times", fs) : fs \in {<<IntC(-1), X, Y>>, <<X, IntC(-1), Y>>, <<X, Y, IntC(-1)>>, <<IntC(-1), X, Y, X>>,
                                       <<IntC(-1), Op("plus", <<X, Y>>), Y>>, <<IntC(-1), IntC(-1), X>>, <<IntC(-1), X>>}}
AR2 == NegProds \cup {Op("minus", <<a, t>>) : a \in {X, IntC(0), Op("plus", <<X, Y>>)}, t \in NegProds}
       \cup {Op("minus", <<t, a>>) : a \in {Y, IntC(2)}, t \in NegProds}
       \cup {Op("minus", <<X, Op("minus", <<Y, t>>)>>) : t \in NegProds}
       \cup {Op("times", <<Op("minus", <<X, t>>), Op("plus", <<Y, IntC(1)>>)>>) : t \in NegProds}
       \cup {Op("minus", <<Rr, Op("times", <<RealC(<<-1, 1>>), Rr, Uu>>)>>), Op("minus", <<Rr, Op("times", <<RealC(<<-1, 1>>), Op("plus", <<Rr, Uu>>), Uu>>)>>)}
ARITH == AR1 \cup AR2 \cup {Op("le", <<t, IntC(0)>>) : t \in {u \in AR1 \cup AR2 : TyF(u) = TInt}}
         \cup {Op("times", <<t, Op("plus", <<X, IntC(1)>>)>>) : t \in {u \in AR1 : TyF(u) = TInt /\ u.op = "times"}}

\* ---- equalities for propagate_toplevel
Zz == Sym("z", TInt)
EqAtoms == {Op("equals", <<a, b>>) : a \in {X, Y, Zz, IntC(0), IntC(1)}, b \in {X, Y, Zz, IntC(0), IntC(1)}}
           \cup {Op("equals", <<B, C>>), Op("equals", <<B, BVC(1, 2)>>), Op("equals", <<C, BVC(2, 2)>>),
                 Op("equals", <<Sym("s", TString), StrC(<<97>>)>>), Op("equals", <<Sym("t", TString), Sym("s", TString)>>),
                 Op("equals", <<Rr, RealC(<<1, 2>>)>>), Op("equals", <<Rr, Uu>>)}
Others == {Op("le", <<X, Y>>), P, Op("or", <<P, Op("equals", <<X, IntC(1)>>)>>), Op("lt", <<Zz, Op("plus", <<X, Y>>)>>),
           Op("bv_ult", <<B, C>>), Op("not", <<Op("equals", <<X, Y>>)>>)}
EQS == {Op("and", <<e1, e2, o>>) : e1 \in EqAtoms, e2 \in EqAtoms, o \in Others}
       \cup {Op("and", <<e1, e2, e3, o>>) : e1 \in {Op("equals", <<X, Y>>), Op("equals", <<Y, X>>), Op("equals", <<X, IntC(0)>>)},
                                             e2 \in EqAtoms, e3 \in EqAtoms, o \in {Op("le", <<X, Zz>>)}}
       \cup {Op("and", <<e1, o>>) : e1 \in EqAtoms, o \in Others} \cup EqAtoms
       \* a constant joins a class that already has a leader (r = 2 after / before q = r): the constant must lead, also
       \* where only constants are allowed (the exponent of pow)
       \cup {Op("and", es \o <<o>>) :
                es \in {<<Op("equals", <<Rr, RealC(<<2, 1>>)>>), Op("equals", <<Uu, Rr>>)>>,
                        <<Op("equals", <<Uu, Rr>>), Op("equals", <<Rr, RealC(<<2, 1>>)>>)>>,
                        <<Op("equals", <<Uu, Rr>>), Op("equals", <<RealC(<<2, 1>>), Uu>>)>>},
                o \in {Op("lt", <<RealC(<<1, 1>>), Op("pow", <<Uu, RealC(<<2, 1>>)>>)>>),
                       Op("lt", <<RealC(<<1, 1>>), Op("times", <<RealC(<<2, 1>>), Uu>>)>>),
                       Op("lt", <<Op("pow", <<Rr, RealC(<<2, 1>>)>>), Op("plus", <<Uu, RealC(<<2, 1>>)>>)>>)}}
       \* equalities next to quantifiers that BIND one side of the equality (propagating the other side must not capture)
       \cup {Op("and", <<e1, Quant(qk, <<BVar(v, TInt)>>, body)>>) :
                e1 \in {Op("equals", <<X, Y>>), Op("equals", <<Y, X>>), Op("equals", <<Zz, X>>), Op("equals", <<Y, IntC(1)>>)},
                qk \in {"exists", "forall"}, v \in {"x", "y", "z"},
                body \in {Op("lt", <<X, Y>>), Op("le", <<Y, Op("plus", <<X, Zz>>)>>), Op("not", <<Op("equals", <<X, Y>>)>>)}}

\* ---- UF formulas for Ackermannization
TF1 == TFun(TInt, <<TInt>>)
TF2 == TFun(TInt, <<TInt, TInt>>)
TGI == TFun(TBool, <<TInt>>)
Fa(a) == App("f", TF1, <<a>>)
Ha(a, b) == App("h", TF2, <<a, b>>)
Ga(a) == App("gi", TGI, <<a>>)
UT == {X, Y, IntC(0), Fa(X), Fa(Y), Fa(Fa(X)), Fa(Op("plus", <<Fa(X), IntC(1)>>)), Ha(X, Y), Ha(Y, X), Ha(Fa(X), X),
       Op("plus", <<Fa(X), IntC(1)>>), Fa(IntC(0)), Fa(Op("plus", <<X, IntC(1)>>))}
UA == {Op(o, <<a, b>>) : o \in {"equals", "le"}, a \in UT, b \in UT} \cup {Ga(a) : a \in UT}
UF == UA \cup {Op(o, <<a, b>>) : o \in {"and", "or", "implies"}, a \in {Op("equals", <<Fa(X), Fa(Y)>>), Ga(X), Op("not", <<Ga(Fa(X))>>),
                                                                     Op("equals", <<X, Y>>)},
                                 b \in {u \in UA : u.op = "equals"} \cup {Op("not", <<Ga(Y)>>), Ga(Fa(Y))}}
         \cup {Op("not", <<a>>) : a \in UA}

\* ---- wide connectives: n-ary and / or with 3 .. 14 operands (every operand decisive under some interpretation),
\* plain, with negated operands, and under not / implies / iff.  At most 10 distinct symbols, so that the
\* interpretations can be enumerated (beyond 10 operands the first symbol is repeated in front).
W(j) == Sym(<<"w1", "w2", "w3", "w4", "w5", "w6", "w7", "w8", "w9", "w10">>[j], TBool)
WideArgs(n) == IF n <= 10 THEN [j \in 1..n |-> W(j)] ELSE [j \in 1..n |-> IF j <= n - 10 THEN W(1) ELSE W(j - (n - 10))]
NegOdd(a) == [j \in 1..Len(a) |-> IF j % 2 = 1 THEN Op("not", <<a[j]>>) ELSE a[j]]
WIDE == UNION {{Op(o, WideArgs(n)), Op(o, NegOdd(WideArgs(n))), Op("not", <<Op(o, WideArgs(n))>>),
                Op("implies", <<Op(o, WideArgs(n)), W(1)>>), Op("iff", <<Op("and", WideArgs(n)), Op("or", WideArgs(n))>>)}
               : o \in {"and", "or"}, n \in 3..14}

Corpus == CASE Layer = "WIDE" -> WIDE [] Layer = "POL" -> D4 [] Layer = "QF" -> QF [] Layer = "QB" -> QB [] Layer = "ARITH" -> ARITH [] Layer = "EQS" -> EQS [] Layer = "UF" -> UF

VARIABLE done
Init == done = FALSE /\ LET c == SetToSeq(Corpus)
                         IN  ndJsonSerialize(IOEnv.OUT_FILE, c) /\ PrintT(<<"corpus", Layer, Len(c)>>)
Next == ~done /\ done' = TRUE
Spec == Init /\ [][Next]_done
=============================================================================
