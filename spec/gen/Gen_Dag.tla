-------------------------------- MODULE Gen_Dag --------------------------------
(* Generator for C20: every rooted DAG shape with up to 5 nodes and fan-out <= 2 *)
EXTENDS DagShapes, Json, IOUtils, SequencesExt, TLC
CONSTANTS Layer, NShards, Shard
Corpus == CASE Layer = "DAG5" -> UNION {RootedShapes(n, 2) : n \in 1..5}
            [] Layer = "DAG6" -> RootedShapes(6, 2)
VARIABLE done
Init == done = FALSE /\ LET c == SetToSeq(Corpus)
                         IN  ndJsonSerialize(IOEnv.OUT_FILE, c) /\ PrintT(<<"corpus", Layer, Len(c)>>)
Next == ~done /\ done' = TRUE
Spec == Init /\ [][Next]_done
=============================================================================
