----------------------------- MODULE Gen_Derived -----------------------------
(***************************************************************************)
(* Generator for C06: derived constructor / infix operator x arity x        *)
(* argument shape.  A case is [name, a, lit, p]: a = argument terms,        *)
(* lit[j] = 1 if argument j is passed as a plain Python literal (int, bool, *)
(* Fraction) and must be promoted by pySMT, p = Python-level parameters.    *)
(* Symbols are distinct, so the interpretations enumerate all value tuples. *)
(***************************************************************************)
EXTENDS SmtTypes, Json, IOUtils, SequencesExt

CONSTANTS Layer, NShards, Shard

Case(name, a, lit, p) == [name |-> name, a |-> a, lit |-> lit, p |-> p]
NoLit(a) == [j \in 1..Len(a) |-> 0]
C(name, a) == Case(name, a, NoLit(a), <<>>)
CP(name, a, p) == Case(name, a, NoLit(a), p)

BS == <<Sym("p1", TBool), Sym("p2", TBool), Sym("p3", TBool), Sym("p4", TBool), Sym("p5", TBool)>>
IS == <<Sym("x1", TInt), Sym("x2", TInt), Sym("x3", TInt), Sym("x4", TInt), Sym("x5", TInt)>>
RS == <<Sym("r1", TReal), Sym("r2", TReal), Sym("r3", TReal), Sym("r4", TReal)>>
VS(w) == <<Sym(IF w = 1 THEN "e1" ELSE IF w = 2 THEN "b1" ELSE "d1", TBV(w)),
           Sym(IF w = 1 THEN "e2" ELSE IF w = 2 THEN "b2" ELSE "d2", TBV(w)),
           Sym(IF w = 1 THEN "e3" ELSE IF w = 2 THEN "b3" ELSE "d3", TBV(w)),
           Sym(IF w = 1 THEN "e4" ELSE IF w = 2 THEN "b4" ELSE "d4", TBV(w))>>
SS == <<Sym("s1", TString), Sym("s2", TString)>>
AI == Sym("a1", TArray(TInt, TInt))

Pre(sq, n) == SubSeq(sq, 1, n)
\* argument tuples of length n: distinct symbols, plus variants with a repeated symbol / a constant
Variants(sq, n, consts) ==
    {Pre(sq, n)}
    \cup (IF n >= 2 THEN {[Pre(sq, n) EXCEPT ![n] = sq[1]]} ELSE {})
    \cup (IF n >= 1 THEN {[Pre(sq, n) EXCEPT ![1] = c] : c \in consts} ELSE {})

BoolCases ==
    UNION {{C(nm, a) : a \in Variants(BS, n, {BoolC(TRUE), BoolC(FALSE)})} : nm \in {"AtMostOne", "ExactlyOne"}, n \in 0..5}
    \cup UNION {{C("AllDifferent", a) : a \in Variants(BS, n, {BoolC(TRUE)})} : n \in 0..3}
    \cup UNION {{C("AllDifferent", a) : a \in Variants(IS, n, {IntC(1)})} : n \in 0..4}
    \cup UNION {{C("AllDifferent", a) : a \in Variants(VS(2), n, {BVC(1, 2)})} : n \in 2..4}
    \cup {C(nm, a) : nm \in {"Xor", "EqualsOrIff"}, a \in Variants(BS, 2, {BoolC(TRUE), BoolC(FALSE)})}
    \cup {C(nm, a) : nm \in {"EqualsOrIff", "NotEquals", "GE", "GT"}, a \in Variants(IS, 2, {IntC(0), IntC(2)})}
    \cup {C(nm, a) : nm \in {"EqualsOrIff", "NotEquals", "GE", "GT"}, a \in Variants(RS, 2, {RealC(<<1, 2>>)})}
    \cup {C(nm, a) : nm \in {"EqualsOrIff", "NotEquals"}, a \in Variants(VS(2), 2, {BVC(3, 2)}) \cup Variants(SS, 2, {StrC(<<97>>)})}

MinMaxCases ==
    UNION {{C(nm, a) : a \in Variants(IS, n, {IntC(1)})} : nm \in {"Min", "Max"}, n \in 1..5}
    \cup UNION {{C(nm, a) : a \in Variants(RS, n, {RealC(<<1, 2>>)})} : nm \in {"Min", "Max"}, n \in 1..4}
    \cup UNION {{CP(nm, a, <<sg>>) : a \in Variants(VS(w), n, {BVC(1, w)})} :
                    nm \in {"MinBV", "MaxBV"}, sg \in {0, 1}, w \in {2, 3}, n \in 1..4}
    \cup {C("Abs", <<x>>) : x \in {IS[1], RS[1], IntC(-3), RealC(<<-1, 2>>), IntC(0)}}
    \* arguments that already LOOK like an expansion (ite between t and 0 - t under an unrelated condition, a min / max
    \* shaped ite): a derived constructor must not recognise them by shape
    \cup {C("Abs", <<x>>) : x \in {Op("ite", <<BS[1], IS[1], Op("minus", <<IntC(0), IS[1]>>)>>),
                                     Op("ite", <<Op("lt", <<IS[1], IntC(0)>>), IS[1], Op("minus", <<IntC(0), IS[1]>>)>>),
                                     Op("ite", <<BS[1], RS[1], Op("minus", <<RealC(<<0, 1>>), RS[1]>>)>>),
                                     Op("ite", <<Op("lt", <<IntC(0), IS[1]>>), IS[1], Op("minus", <<IntC(0), IS[1]>>)>>),
                                     Op("minus", <<IntC(0), IS[1]>>), Op("plus", <<IS[1], IS[2]>>)}}
    \cup {C(nm, <<Op("ite", <<BS[1], IS[1], IS[2]>>), y>>) : nm \in {"Min", "Max"}, y \in {IS[1], IS[2], IS[3]}}
    \cup {C(nm, <<Op("ite", <<Op("lt", <<IS[1], IS[2]>>), IS[2], IS[1]>>), y>>) : nm \in {"Min", "Max"}, y \in {IS[1], IS[2]}}

BVCases ==
    UNION {{C(nm, Pre(VS(w), 2)), C(nm, <<VS(w)[1], VS(w)[1]>>)} :
               nm \in {"BVSMod", "BVNand", "BVNor", "BVXnor", "BVUGT", "BVUGE", "BVSGT", "BVSGE"}, w \in 1..3}
    \cup {CP("BVRepeat", <<VS(w)[1]>>, <<k>>) : w \in 1..3, k \in 1..3}
    \cup UNION {{C(nm, Pre(VS(w), n))} : nm \in {"BVAndN", "BVOrN", "BVAddN", "BVMulN"}, w \in {2, 3}, n \in 1..4}
    \cup {C("BVConcatN", a) : a \in {<<VS(1)[1], VS(2)[1]>>, <<VS(2)[1], VS(1)[1], VS(3)[1]>>,
                                     <<VS(2)[1], VS(2)[2], VS(2)[3], VS(1)[1]>>, <<VS(3)[1], VS(3)[1]>>}}
    \cup UNION {{CP(nm, <<VS(w)[1]>>, <<k>>) : k \in 0..(Pow2(w) - 1)} :
                    nm \in {"BVLShlInt", "BVLShrInt", "BVAShrInt"}, w \in 1..3}
    \cup UNION {{CP("SBV", <<>>, <<v, w>>) : v \in (-Pow2(w - 1))..(Pow2(w - 1) - 1)} : w \in 1..4}
    \cup {CP(nm, <<>>, <<w>>) : nm \in {"BVOne", "BVZero"}, w \in 1..4}

\* infix: self is a symbol, other a symbol or a literal (lit = 1) of the promoted sort
Lits(ty) == CASE ty.k = "Int" -> {IntC(-2), IntC(0), IntC(3)}
              [] ty.k = "Real" -> {RealC(<<2, 1>>), RealC(<<-1, 2>>), RealC(<<0, 1>>)}
              [] ty.k = "BV" -> {BVC(k, ty.w) : k \in {0, 1, Pow2(ty.w) - 1}}
              [] ty.k = "Bool" -> {BoolC(TRUE), BoolC(FALSE)}
              [] OTHER -> {}
Inf(nm, x, y) == {C(nm, <<x, y>>)} \cup {Case(nm, <<x, l>>, <<0, 1>>, <<>>) : l \in Lits(x.ty)}
InfixCases ==
    UNION {Inf(nm, IS[1], IS[2]) : nm \in {"add", "sub", "mul", "gt", "ge", "lt", "le", "div", "radd", "rmul", "rsub"}}
    \cup UNION {Inf(nm, RS[1], RS[2]) : nm \in {"add", "sub", "mul", "gt", "ge", "lt", "le", "div", "radd", "rmul", "rsub"}}
    \cup UNION {UNION {Inf(nm, VS(w)[1], VS(w)[2]) :
                    nm \in {"add", "sub", "mul", "gt", "ge", "lt", "le", "div", "mod", "and", "or", "xor",
                            "lshift", "rshift", "radd", "rmul", "rsub", "rand", "ror", "rxor"}} : w \in {2, 3}}
    \cup UNION {Inf(nm, BS[1], BS[2]) : nm \in {"and", "or", "xor", "rand", "ror", "rxor"}}
    \cup {C(nm, <<x>>) : nm \in {"neg"}, x \in {IS[1], RS[1], VS(2)[1], VS(3)[1]}}
    \cup {C("invert", <<x>>) : x \in {BS[1], VS(2)[1], VS(1)[1]}}
    \cup {CP(nm, <<VS(3)[1]>>, <<pr[1], pr[2]>>) : nm \in {"getitem", "m_BVExtract"},
              pr \in {q \in (0..2) \X (0..2) : q[1] <= q[2]}}
    \cup UNION {Inf(nm, BS[1], BS[2]) : nm \in {"m_Implies", "m_Iff", "m_And", "m_Or"}}
    \cup UNION {Inf(nm, IS[1], IS[2]) : nm \in {"m_Equals", "m_NotEquals"}}
    \cup UNION {Inf(nm, VS(2)[1], VS(2)[2]) : nm \in {"m_Equals", "m_NotEquals", "m_BVSMod", "m_BVNand", "m_BVSGE",
                                                     "m_BVUGT", "m_BVComp", "m_BVAShr", "m_BVSDiv", "m_BVSRem", "m_BVXnor"}}
    \cup UNION {Inf(nm, VS(3)[1], VS(3)[2]) : nm \in {"m_BVSMod", "m_BVSDiv", "m_BVSRem", "m_BVAShr"}}
    \cup {C("m_BVConcat", <<VS(2)[1], VS(3)[1]>>), C("m_BVConcat", <<VS(1)[1], VS(2)[1]>>)}
    \cup {C("m_Ite", <<BS[1], x, y>>) : x \in {IS[1]}, y \in {IS[2]}} \cup {C("m_Ite", <<BS[1], VS(2)[1], VS(2)[2]>>),
                                                                       C("m_Ite", <<BS[1], BS[2], BS[3]>>)}
    \cup {CP(nm, <<VS(w)[1]>>, <<k>>) : nm \in {"m_BVRepeat"}, w \in {1, 2}, k \in 1..3}
    \cup UNION {{CP(nm, <<VS(w)[1]>>, <<k>>) : nm \in {"m_BVRol", "m_BVRor"}, k \in 0..w} : w \in {2, 3}}
    \cup {CP(nm, <<VS(w)[1]>>, <<k>>) : nm \in {"m_BVZExt", "m_BVSExt"}, w \in {1, 2}, k \in 0..2}
    \cup {C("m_Select", <<AI, IS[1]>>), C("m_Store", <<AI, IS[1], IS[2]>>)}

Corpus == BoolCases \cup MinMaxCases \cup BVCases \cup InfixCases

VARIABLE done
Init == done = FALSE /\ LET c == SetToSeq(Corpus)
                         IN  ndJsonSerialize(IOEnv.OUT_FILE, c) /\ PrintT(<<"corpus", Layer, Len(c)>>)
Next == ~done /\ done' = TRUE
Spec == Init /\ [][Next]_done
=============================================================================
