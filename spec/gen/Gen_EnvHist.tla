----------------------------- MODULE Gen_EnvHist -----------------------------
(* Generator for C14 / C15: call histories of the Environment machine *)
EXTENDS Json, IOUtils, SequencesExt, Integers, Sequences, FiniteSets, TLC
CONSTANTS Layer, NShards, Shard
EnvC14 == INSTANCE Environment WITH NGood <- 23, NFail <- 0, MaxLen <- 2, MinFail <- 0, hist <- <<>>
EnvC15 == INSTANCE Environment WITH NGood <- 6, NFail <- 32, MaxLen <- 3, MinFail <- 1, hist <- <<>>
Corpus == CASE Layer = "C14" -> EnvC14!AllHists_(0)
            [] Layer = "C15" -> {[h |-> h, twin |-> EnvC15!Twin(h)] : h \in EnvC15!AllHists_(0)}
VARIABLE done
Init == done = FALSE /\ LET c == SetToSeq(Corpus)
                         IN  ndJsonSerialize(IOEnv.OUT_FILE, c) /\ PrintT(<<"corpus", Layer, Len(c)>>)
Next == ~done /\ done' = TRUE
Spec == Init /\ [][Next]_done
=============================================================================
