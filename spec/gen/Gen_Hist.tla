------------------------------- MODULE Gen_Hist -------------------------------
(***************************************************************************)
(* Generator for C16 (and the history parts of C14/C15/C17): all LEGAL      *)
(* command histories of the abstract assertion-stack machine up to a length *)
(* bound, for the script alphabet and the solver alphabet.  Longer random   *)
(* histories come from `tlc -simulate` on SmtLibScript / TrackingSolver.    *)
(***************************************************************************)
EXTENDS StackAlphabets, Json, IOUtils, SequencesExt

CONSTANTS Layer, NShards, Shard

RECURSIVE StateOf(_)
StateOf(h) == IF h = <<>> THEN InitLevels ELSE Step(StateOf(SubSeq(h, 1, Len(h) - 1)), h[Len(h)])

RECURSIVE Hists(_, _)
\* all legal histories of length exactly n
Hists(cmds, n) ==
    IF n = 0 THEN {<<>>}
    ELSE {Append(h, c) : h \in Hists(cmds, n - 1), c \in cmds} \cap
         {h \in UNION {{Append(g, c) : c \in cmds} : g \in Hists(cmds, n - 1)} :
              Legal(StateOf(SubSeq(h, 1, Len(h) - 1)), h[Len(h)])}

UpTo(cmds, n) == UNION {Hists(cmds, k) : k \in 1..n}

Corpus == CASE Layer = "SCRIPT3" -> UpTo(ScriptCmds, 3) [] Layer = "SCRIPT4" -> Hists(ScriptCmds, 4)
            [] Layer = "SOLVER3" -> UpTo(SolverCmds, 3) [] Layer = "SOLVER4" -> Hists(SolverCmds, 4)
            [] Layer = "SOLVER5" -> Hists(SolverCmds, 5)
            [] Layer = "SLS3" -> UpTo(SlsCmds, 3) [] Layer = "SLS4" -> Hists(SlsCmds, 4)
            \* declaration scoping: every legal history that opens levels first, over asserts (sharing symbols) / push / pop
            [] Layer = "SLSDECL4" -> {h \in Hists(SlsDeclCmds, 4) : h[1].c = "push"}
            [] Layer = "SLSDECL5" -> {h \in Hists(SlsDeclCmds, 5) : h[1].c = "push"}

VARIABLE done
Init == done = FALSE /\ LET c == SetToSeq(Corpus)
                         IN  ndJsonSerialize(IOEnv.OUT_FILE, c) /\ PrintT(<<"corpus", Layer, Len(c)>>)
Next == ~done /\ done' = TRUE
Spec == Init /\ [][Next]_done
=============================================================================
