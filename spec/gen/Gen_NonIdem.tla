---------------------------- MODULE Gen_NonIdem ----------------------------
(***************************************************************************)
(* Terms of a Gen_Terms layer on which the simplifier's RULE MODEL is not a *)
(* fix-point: simplifying the result changes it again, beyond the order of  *)
(* commutative arguments.  (Selected from the specification, not by asking  *)
(* the implementation under test.)  Used by C14: a simplifier that          *)
(* remembers its own results as already simplified is noticed exactly here. *)
(***************************************************************************)
EXTENDS Simplifier, Json, IOUtils

CONSTANTS Layer, NShards, Shard

G == INSTANCE Gen_Terms WITH done <- FALSE

NotFixpoint(t) == LET o1 == Simp(t) IN ~ACEq(Simp(o1), o1)
Corpus == {t \in G!Corpus : NotFixpoint(t)}

VARIABLE done
Init == done = FALSE /\ LET c == SetToSeqBy(Corpus)
                         IN  ndJsonSerialize(IOEnv.OUT_FILE, c) /\ PrintT(<<"corpus", Layer, Len(c)>>)
Next == ~done /\ done' = TRUE
Spec == Init /\ [][Next]_done
=============================================================================
