----------------------------- MODULE Gen_Portfolio -----------------------------
(***************************************************************************)
(* Generator for C19: schedules of a portfolio query.  A schedule fixes the *)
(* behaviour of each member, the ORDER in which members are released to     *)
(* complete, the members released only once the parent has chosen a winner  *)
(* and is about to terminate the others (`late`: "a loser finishing while   *)
(* the winner is being selected"), and which consecutive releases are       *)
(* near-ties (released together, without waiting for the first to post).    *)
(***************************************************************************)
EXTENDS Integers, Sequences, FiniteSets, TLC, Json, IOUtils, SequencesExt

CONSTANTS Layer, NShards, Shard

Outcomes == {"ans", "unknown", "raise", "crash_pre", "ctor_raise", "crash_post"}
Perms(n) == {p \in [1..n -> 1..n] : \A i, j \in 1..n : i # j => p[i] # p[j]}

Sched(n) == {[beh |-> b, order |-> o, late |-> l, tie |-> t, verdict |-> v] :
                b \in [1..n -> Outcomes], o \in Perms(n), l \in SUBSET (1..n), t \in BOOLEAN, v \in {"sat", "unsat"}}
\* at least one member is released before the parent waits, otherwise `late` ones would never be released
Useful(s) == \E i \in 1..Len(s.beh) : i \notin s.late

Corpus == CASE Layer = "N2" -> {s \in Sched(2) : Useful(s)}
            [] Layer = "N3" -> {s \in Sched(3) : Useful(s) /\ Cardinality(s.late) <= 1}
VARIABLE done
Init == done = FALSE /\ LET c == SetToSeq(Corpus)
                         IN  ndJsonSerialize(IOEnv.OUT_FILE, c) /\ PrintT(<<"corpus", Layer, Len(c)>>)
Next == ~done /\ done' = TRUE
Spec == Init /\ [][Next]_done
=============================================================================
