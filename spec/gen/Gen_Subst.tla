------------------------------ MODULE Gen_Subst ------------------------------
(***************************************************************************)
(* Generator for C05: (term, substitution map) pairs.  Terms of depth <= 3  *)
(* over {and, or, not, implies, iff, =, <=, +, ite, f(.), g(.), forall,     *)
(* exists} incl. nested and shadowing binders; maps from symbols AND        *)
(* arbitrary sub-terms (singletons and pairs, overlapping keys, keys that   *)
(* mention bound symbols, capturing replacements) to sort-correct terms.    *)
(***************************************************************************)
EXTENDS SmtSyntaxFns, Json, IOUtils, SequencesExt

CONSTANTS Layer, NShards, Shard

TF == TFun(TInt, <<TInt>>)
TG == TFun(TBool, <<TInt>>)
P == Sym("p", TBool)
Q == Sym("q", TBool)
X == Sym("x", TInt)
Y == Sym("y", TInt)
F(a) == App("f", TF, <<a>>)
G(a) == App("g", TG, <<a>>)

Int1 == {X, Y, IntC(0), IntC(1), Op("plus", <<X, IntC(1)>>), Op("plus", <<X, Y>>), F(X), F(Y),
         Op("ite", <<P, X, Y>>), F(Op("plus", <<X, IntC(1)>>))}
Bool1 == {P, Q, Op("not", <<P>>), Op("and", <<P, Q>>), Op("or", <<P, Q>>), Op("le", <<X, Y>>),
          Op("equals", <<X, Y>>), Op("equals", <<F(X), Y>>), G(X), Op("le", <<Op("plus", <<X, IntC(1)>>), Y>>),
          Op("and", <<P, Op("le", <<X, IntC(1)>>)>>), Op("not", <<Op("le", <<X, Y>>)>>),
          Op("equals", <<Op("ite", <<P, X, Y>>), IntC(0)>>)}
BoolSmall == {Q, Op("le", <<X, Y>>), Op("and", <<P, Q>>), G(Y), Op("not", <<P>>)}
Bool2 == {Op(o, <<b1, b2>>) : o \in {"and", "or", "implies", "iff"}, b1 \in Bool1, b2 \in BoolSmall}
VarSets == {<<BVar("x", TInt)>>, <<BVar("p", TBool)>>, <<BVar("x", TInt), BVar("y", TInt)>>, <<BVar("y", TInt)>>}
Bodies == Bool1 \cup {Op("and", <<Op("le", <<X, Y>>), Q>>), Op("implies", <<P, Op("equals", <<X, Y>>)>>),
                      Op("or", <<G(X), Op("le", <<Y, IntC(0)>>)>>), Op("iff", <<P, Op("le", <<X, F(Y)>>)>>)}
Quant1 == {Quant(qk, vs, b) : qk \in {"forall", "exists"}, vs \in VarSets, b \in Bodies}
QSmall == {Quant(qk, vs, b) : qk \in {"forall", "exists"}, vs \in {<<BVar("x", TInt)>>, <<BVar("p", TBool)>>},
                              b \in {Op("le", <<X, Y>>), Op("and", <<P, Op("le", <<X, IntC(1)>>)>>), Op("or", <<P, Q>>)}}
Nested == {Op(o, <<qt, b>>) : o \in {"and", "or"}, qt \in QSmall, b \in {P, Op("le", <<X, Y>>), Op("equals", <<X, IntC(0)>>)}}
          \cup {Quant(qk, vs, Op("and", <<qt, b>>)) : qk \in {"forall", "exists"},
                    vs \in {<<BVar("x", TInt)>>, <<BVar("y", TInt)>>, <<BVar("p", TBool)>>},
                    qt \in QSmall, b \in {Op("le", <<X, Y>>), P}}
Terms == Int1 \cup Bool1 \cup Bool2 \cup Quant1 \cup Nested

PoolB == <<Q, BoolC(TRUE), Op("and", <<P, Q>>), Op("le", <<X, Y>>)>>
PoolI == <<Y, IntC(0), Op("plus", <<X, IntC(1)>>), F(Y)>>
PoolOf(t) == IF TyF(t) = TBool THEN PoolB ELSE PoolI

Keys(t) == {k \in SubTerms(t) \cup {P, Q, X, Y} : k.op \notin ConstOps}

TermSeq == SetToSeq(Terms)
MyTerms == {TermSeq[i] : i \in {i \in 1..Len(TermSeq) : i % NShards = Shard}}

CaseOf(t, ks, vs) == [f |-> t, keys |-> ks, vals |-> vs]
Singles(t) == {CaseOf(t, <<k>>, <<PoolOf(k)[j]>>) : k \in Keys(t), j \in 1..4}
Pairs(t) == LET KS == SetToSeq(Keys(t))
                n == Len(KS)
            IN  {CaseOf(t, <<KS[pr[1]], KS[pr[2]]>>, <<PoolOf(KS[pr[1]])[c[1]], PoolOf(KS[pr[2]])[c[2]]>>) :
                    pr \in {q \in (1..n) \X (1..n) : q[1] < q[2]}, c \in {<<1, 3>>, <<3, 1>>, <<2, 4>>, <<4, 3>>}}
\* chained maps (they tell the most-specific strategy from the most-general one): every symbol child of a
\* sub-term s is replaced by a symbol that does not occur in the formula, and the REBUILT s is itself a key
Ren(k) == CASE k = P -> Sym("c1", TBool) [] k = Q -> Sym("c2", TBool) [] k = X -> Sym("u1", TInt) [] k = Y -> Sym("u2", TInt)
Chained(t) ==
    {LET kids == SetToSeq({s.a[j] : j \in 1..Len(s.a)} \cap {P, Q, X, Y})
         key  == [s EXCEPT !.a = [j \in 1..Len(s.a) |-> IF s.a[j] \in {P, Q, X, Y} THEN Ren(s.a[j]) ELSE s.a[j]]]
     IN  CaseOf(t, kids \o <<key>>, [j \in 1..Len(kids) |-> Ren(kids[j])] \o <<PoolOf(s)[c]>>) :
        s \in {u \in SubTerms(t) : u.op \notin {"forall", "exists", "symbol"} \cup ConstOps
                                    /\ \E j \in 1..Len(u.a) : u.a[j] \in {P, Q, X, Y}},
        c \in {1, 2}}
Corpus == UNION {Singles(t) \cup Pairs(t) \cup Chained(t) : t \in MyTerms}

VARIABLE done
Init == done = FALSE /\ LET c == SetToSeq(Corpus)
                         IN  ndJsonSerialize(IOEnv.OUT_FILE, c) /\ PrintT(<<"corpus", Layer, Len(c)>>)
Next == ~done /\ done' = TRUE
Spec == Init /\ [][Next]_done
=============================================================================
