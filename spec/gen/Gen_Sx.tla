-------------------------------- MODULE Gen_Sx --------------------------------
(***************************************************************************)
(* Generator for C08: SMT-LIB scripts as S-expressions, by construct family *)
(* x syntactic variant.  A case is [sxs, expect, fam]: the command list, the *)
(* verdict the standard gives ("accept" = well-formed and within the        *)
(* fragment modelled by SmtLibSyntax.tla, "reject" = not SMT-LIB) and the    *)
(* family name.  The harness prints the S-expressions to text with a        *)
(* trivial printer and feeds the real SmtLibParser.                         *)
(***************************************************************************)
EXTENDS Integers, Sequences, FiniteSets, TLC, Json, IOUtils, SequencesExt

CONSTANTS Layer, NShards, Shard

Sx(k, s, n, cs, l) == [k |-> k, s |-> s, n |-> n, cs |-> cs, l |-> l]
A(s) == Sx("sym", s, <<>>, <<>>, <<>>)
Kw(s) == Sx("kw", s, <<>>, <<>>, <<>>)
Nm(v) == Sx("num", "", <<v>>, <<>>, <<>>)
Dc(num, den) == Sx("dec", "", <<num, den>>, <<>>, <<>>)
Hx(v, w) == Sx("hex", "", <<v, w>>, <<>>, <<>>)
Bn(v, w) == Sx("bin", "", <<v, w>>, <<>>, <<>>)
BvL(v, w) == Sx("bvlit", "", <<v, w>>, <<>>, <<>>)
St(cs) == Sx("str", "", <<>>, cs, <<>>)
L(xs) == Sx("list", "", <<>>, <<>>, xs)
Ap(op, args) == L(<<A(op)>> \o args)
Ix(op, idx, args) == L(<<L(<<A("_"), A(op)>> \o [j \in 1..Len(idx) |-> Nm(idx[j])])>> \o args)

BVs(w) == L(<<A("_"), A("BitVec"), Nm(w)>>)
ArrS(i, e) == L(<<A("Array"), i, e>>)
DeclFun(nm, ps, r) == L(<<A("declare-fun"), A(nm), L(ps), r>>)
DeclConst(nm, r) == L(<<A("declare-const"), A(nm), r>>)
Asrt(t) == L(<<A("assert"), t>>)
SetLogic(l) == L(<<A("set-logic"), A(l)>>)
DefFun(nm, ps, r, body) == L(<<A("define-fun"), A(nm), L([j \in 1..Len(ps) |-> L(<<A(ps[j][1]), ps[j][2]>>)]), r, body>>)
Let(bs, body) == L(<<A("let"), L([j \in 1..Len(bs) |-> L(<<A(bs[j][1]), bs[j][2]>>)]), body>>)
Q(q, vs, body) == L(<<A(q), L([j \in 1..Len(vs) |-> L(<<A(vs[j][1]), vs[j][2]>>)]), body>>)

SInt == A("Int")
SReal == A("Real")
SBool == A("Bool")
SStr == A("String")
p == A("p")
q == A("q")
x == A("x")
y == A("y")
z == A("z")
r == A("r")
u == A("u")
b == A("b")
c == A("c")
s == A("s")
a == A("a")

Prelude == << DeclFun("p", <<>>, SBool), DeclFun("q", <<>>, SBool), DeclFun("x", <<>>, SInt), DeclConst("y", SInt),
              DeclFun("z", <<>>, SInt), DeclFun("r", <<>>, SReal), DeclConst("u", SReal),
              DeclFun("b", <<>>, BVs(4)), DeclFun("c", <<>>, BVs(4)), DeclFun("s", <<>>, SStr),
              DeclFun("a", <<>>, ArrS(SInt, SInt)), DeclFun("f", <<SInt>>, SInt), DeclFun("g", <<SInt, SInt>>, SBool) >>

Case(sxs, expect, fam) == [sxs |-> sxs, expect |-> expect, fam |-> fam]
One(t, fam) == Case(Prelude \o <<Asrt(t)>>, "accept", fam)
Rej(t, fam) == Case(Prelude \o <<Asrt(t)>>, "reject", fam)
Lt(a1, a2) == Ap("<", <<a1, a2>>)
Eq(a1, a2) == Ap("=", <<a1, a2>>)
SPlus(a1, a2) == Ap("+", <<a1, a2>>)

\* ------------------------------------------------------------------ let
LetCases == {
  One(Let(<<<<"x", Nm(1)>>, <<"y", x>>>>, Eq(SPlus(x, y), z)), "let-parallel"),
  One(Let(<<<<"x", y>>, <<"y", x>>>>, Lt(x, y)), "let-parallel-swap"),
  One(Let(<<<<"x", SPlus(x, Nm(1))>>>>, Let(<<<<"x", SPlus(x, Nm(1))>>>>, Lt(x, y))), "let-nested-rebinding"),
  One(Let(<<<<"t", SPlus(x, y)>>>>, Let(<<<<"w", SPlus(A("t"), A("t"))>>, <<"t", Nm(0)>>>>, Lt(A("w"), A("t")))), "let-nested-parallel"),
  One(Let(<<<<"p", Lt(x, y)>>>>, Ap("and", <<p, q>>)), "let-shadows-global-other-sort-same"),
  One(Let(<<<<"x", p>>>>, Ap("or", <<x, q>>)), "let-shadows-global-different-sort"),
  One(Let(<<<<"v", x>>>>, Q("forall", <<<<"x", SInt>>>>, Ap(">", <<A("v"), x>>))), "let-value-under-binder-capture"),
  One(Let(<<<<"v", SPlus(x, y)>>>>, Q("exists", <<<<"y", SInt>>>>, Eq(A("v"), y))), "let-value-under-binder-capture2"),
  One(Q("forall", <<<<"x", SInt>>>>, Let(<<<<"y", SPlus(x, Nm(1))>>>>, Lt(x, y))), "let-under-binder"),
  One(Let(<<<<"k", Nm(2)>>>>, Let(<<<<"k", SPlus(A("k"), A("k"))>>, <<"m", A("k")>>>>, Eq(SPlus(A("k"), A("m")), x))), "let-nested-parallel-2"),
  One(Let(<<<<"e", Eq(x, y)>>>>, Ap("=>", <<A("e"), A("e")>>)), "let-bool"),
  \* an inner scope rebinding a name to the very value it already has, the name used again after the inner scope
  One(Let(<<<<"x", Nm(1)>>>>, Ap("and", <<Let(<<<<"x", Nm(1)>>>>, Ap(">", <<x, Nm(0)>>)), Eq(x, Nm(1)), Lt(x, y)>>)), "let-rebind-same-value"),
  One(Let(<<<<"x", y>>>>, Ap("and", <<Let(<<<<"x", y>>>>, Lt(x, z)), Lt(z, x)>>)), "let-rebind-same-symbol"),
  One(Q("forall", <<<<"x", SInt>>>>, Ap("and", <<Q("exists", <<<<"x", SInt>>>>, Lt(x, y)), Lt(y, x)>>)), "quant-rebind-same-variable"),
  Rej(Let(<<<<"k", Nm(2)>>, <<"k", Nm(3)>>>>, Eq(A("k"), x)), "let-duplicate-binder"),
  Rej(Let(<<<<"k", A("undefined_w")>>>>, Eq(A("k"), x)), "let-undeclared-in-value") }

\* ------------------------------------------------------------------ binders
BinderCases == {
  One(Q("forall", <<<<"x", SInt>>>>, Ap("or", <<Lt(x, y), Q("exists", <<<<"x", SInt>>>>, Lt(y, x))>>)), "binder-shadow-nested"),
  One(Q("exists", <<<<"x", SBool>>>>, Ap("or", <<x, p>>)), "binder-same-name-other-sort"),
  One(Ap("and", <<Lt(x, y), Q("forall", <<<<"x", SReal>>>>, Ap("<=", <<r, x>>))>>), "binder-same-name-other-sort-2"),
  One(Q("forall", <<<<"i", SInt>>, <<"j", SInt>>>>, Ap("=>", <<Lt(A("i"), A("j")), Ap("g", <<A("i"), A("j")>>)>>)), "binder-two-vars"),
  One(Q("exists", <<<<"w", BVs(4)>>>>, Eq(Ap("bvadd", <<A("w"), b>>), c)), "binder-bv"),
  One(Q("forall", <<<<"m", ArrS(SInt, SInt)>>>>, Eq(Ap("select", <<A("m"), x>>), Ap("select", <<a, x>>))), "binder-array"),
  One(Ap("not", <<Q("forall", <<<<"x", SInt>>>>, Q("forall", <<<<"y", SInt>>>>, Lt(x, y)))>>), "binder-nested-not"),
  Rej(Q("forall", <<<<"x", A("UnknownSort")>>>>, p), "binder-unknown-sort"),
  Rej(Q("forall", <<<<"x", SInt>>>>, SPlus(x, Nm(1))), "binder-non-bool-body") }

\* ------------------------------------------------------------------ define-fun
DefCases == {
  Case(Prelude \o <<DefFun("k0", <<>>, SInt, SPlus(x, Nm(1))), Asrt(Lt(A("k0"), y))>>, "accept", "define-0ary"),
  \* a definition whose body has another sort than the declared result is ill-sorted text, with or without parameters
  Case(Prelude \o <<DefFun("fr", <<<<"n", SInt>>>>, SReal, SPlus(A("n"), Nm(1))), Asrt(Eq(Ap("fr", <<y>>), y))>>, "reject", "define-int-body-real-result"),
  Case(Prelude \o <<DefFun("kr", <<>>, SReal, SPlus(x, Nm(1))), Asrt(Lt(A("kr"), r))>>, "reject", "define-0ary-int-body-real-result"),
  Case(Prelude \o <<DefFun("fb", <<<<"n", SInt>>>>, SInt, Lt(A("n"), x)), Asrt(Eq(Ap("fb", <<y>>), y))>>, "reject", "define-bool-body-int-result"),
  Case(Prelude \o <<DefFun("fi", <<<<"n", SReal>>>>, SInt, A("n")), Asrt(Eq(Ap("fi", <<r>>), x))>>, "reject", "define-real-body-int-result"),
  Case(Prelude \o <<DefFun("ge1", <<<<"n", SInt>>>>, SBool, Ap("<=", <<Nm(1), A("n")>>)), Asrt(Ap("ge1", <<r>>))>>, "reject", "define-applied-to-other-sort"),
  Case(Prelude \o <<DefFun("inc", <<<<"n", SInt>>>>, SInt, SPlus(A("n"), Nm(1))), Asrt(Lt(Ap("inc", <<x>>), Ap("inc", <<Ap("inc", <<y>>)>>)))>>,
       "accept", "define-param-nested-use"),
  Case(Prelude \o <<DefFun("sh", <<<<"x", SInt>>>>, SBool, Lt(x, y)), Asrt(Ap("sh", <<SPlus(x, Nm(2))>>))>>, "accept", "define-param-named-as-global"),
  Case(Prelude \o <<DefFun("ad", <<<<"m", SInt>>, <<"n", SInt>>>>, SInt, SPlus(A("m"), SPlus(A("n"), x))), Asrt(Eq(Ap("ad", <<y, z>>), Ap("ad", <<z, y>>)))>>,
       "accept", "define-two-params-free-global"),
  Case(Prelude \o <<DefFun("ge0", <<<<"n", SInt>>>>, SBool, Ap("<=", <<Nm(0), A("n")>>)),
                   Asrt(Q("forall", <<<<"n", SInt>>>>, Ap("=>", <<Ap("ge0", <<A("n")>>), Ap("ge0", <<SPlus(A("n"), x)>>)>>)))>>,
       "accept", "define-used-under-binder"),
  Case(Prelude \o <<DefFun("dx", <<>>, SInt, x), Asrt(Q("forall", <<<<"x", SInt>>>>, Ap(">=", <<A("dx"), x>>)))>>, "accept", "define-0ary-under-binder-capture"),
  \* a binder whose name is declared with ANOTHER sort, next to declared symbols named like the renamed binder (x0, x1)
  Case(Prelude \o <<DeclFun("x0", <<>>, SBool), Asrt(Q("forall", <<<<"x", SBool>>>>, Ap("or", <<x, A("x0")>>)))>>, "accept", "binder-other-sort-suffixed-global"),
  Case(Prelude \o <<DeclFun("x0", <<>>, SBool), DeclFun("x1", <<>>, SBool),
                    Asrt(Q("exists", <<<<"x", SBool>>>>, Ap("and", <<Ap("not", <<x>>), A("x0"), Ap("not", <<A("x1")>>)>>)))>>, "accept", "binder-other-sort-two-suffixed-globals"),
  Case(Prelude \o <<DeclFun("p0", <<>>, SInt), Asrt(Q("forall", <<<<"p", SInt>>>>, Lt(p, SPlus(A("p0"), Nm(1)))))>>, "accept", "binder-int-over-bool-global"),
  Case(Prelude \o <<DefFun("le", <<<<"m", SInt>>>>, SBool, Ap("<=", <<A("m"), x>>)), Asrt(Q("exists", <<<<"x", SInt>>>>, Ap("le", <<x>>)))>>,
       "accept", "define-body-global-vs-binder-capture"),
  Case(Prelude \o <<DefFun("dd", <<>>, SInt, Nm(5)), Asrt(Let(<<<<"dd", Nm(1)>>>>, Eq(A("dd"), x)))>>, "accept", "define-name-shadowed-by-let"),
  Case(Prelude \o <<DefFun("dq", <<>>, SInt, Nm(5)), Asrt(Q("exists", <<<<"dq", SInt>>>>, Eq(A("dq"), Nm(7))))>>, "accept", "define-name-shadowed-by-binder"),
  Case(Prelude \o <<DefFun("bad", <<<<"n", SInt>>>>, SBool, SPlus(A("n"), Nm(1)))>>, "reject", "define-wrong-result-sort"),
  Case(Prelude \o <<DefFun("inc", <<<<"n", SInt>>>>, SInt, SPlus(A("n"), Nm(1))), Asrt(Lt(Ap("inc", <<x, y>>), y))>>, "reject", "define-wrong-arity-use") }

\* ------------------------------------------------------------------ numerals / literals by logic
NumTerm == Ap("<=", <<SPlus(r, Nm(2)), Ap("*", <<Nm(3), u>>)>>)
NumCases == {
  Case(<<SetLogic("QF_LRA")>> \o Prelude \o <<Asrt(NumTerm)>>, "accept", "numeral-real-logic"),
  Case(<<SetLogic("QF_LRA")>> \o Prelude \o <<Asrt(Ap("<", <<Nm(1), r>>))>>, "accept", "numeral-real-logic-2"),
  Case(<<SetLogic("QF_LIA")>> \o Prelude \o <<Asrt(Ap("<=", <<SPlus(x, Nm(2)), Ap("*", <<Nm(3), y>>)>>))>>, "accept", "numeral-int-logic"),
  \* numerals under a real logic are Reals: (/ (+ 1 2) 2) is 3/2, never an integer division
  Case(<<SetLogic("QF_LRA")>> \o Prelude \o <<Asrt(Eq(r, Ap("/", <<SPlus(Nm(1), Nm(2)), Nm(2)>>)))>>, "accept", "numeral-real-logic-compound-division"),
  Case(<<SetLogic("QF_LRA")>> \o Prelude \o <<Asrt(Lt(Ap("*", <<Nm(2), SPlus(Nm(1), Nm(2))>>), SPlus(r, Nm(1))))>>, "accept", "numeral-real-logic-compound"),
  Case(<<SetLogic("QF_LIRA")>> \o Prelude \o <<Asrt(Ap("<=", <<Ap("to_real", <<SPlus(x, Nm(2))>>), SPlus(r, Dc(15, 10))>>))>>, "accept", "numeral-mixed-logic"),
  One(Ap("<=", <<SPlus(r, Dc(25, 10)), Ap("*", <<Dc(5, 10), u>>)>>), "decimals"),
  One(Ap("<", <<Ap("/", <<Nm(1), Nm(3)>>), r>>), "rational-constant"),
  One(Ap("<", <<Ap("-", <<Ap("/", <<Nm(1), Nm(3)>>)>>), r>>), "negative-rational-constant"),
  \* ... exactly: three thirds are one, seven times two sevenths is two (a quotient folded through a float is not)
  One(Eq(Ap("*", <<Ap("/", <<Nm(1), Nm(3)>>), Dc(30, 10)>>), Dc(10, 10)), "rational-constant-exact-thirds"),
  One(Ap("not", <<Lt(Ap("*", <<Dc(70, 10), Ap("/", <<Nm(2), Nm(7)>>)>>), Dc(20, 10))>>), "rational-constant-exact-sevenths"),
  One(Eq(Ap("+", <<Ap("/", <<Nm(1), Nm(3)>>), Ap("/", <<Nm(1), Nm(6)>>)>>), Ap("/", <<Nm(1), Nm(2)>>)), "rational-constants-sum-exact"),
  One(Ap("<", <<Ap("/", <<Dc(10, 10), Dc(40, 10)>>), r>>), "rational-decimal-constant"),
  One(Ap("<", <<Ap("-", <<Nm(5)>>), x>>), "negative-int-constant"),
  One(Ap("<", <<Ap("-", <<x>>), Ap("-", <<x, y, z>>)>>), "unary-and-nary-minus"),
  One(Eq(b, Hx(10, 4)), "hex-literal"), One(Eq(b, Bn(5, 4)), "bin-literal"), One(Eq(b, BvL(9, 4)), "bv-underscore-literal"),
  One(Eq(Ap("concat", <<b, Hx(171, 8)>>), Ap("concat", <<c, Bn(2, 8)>>)), "hex-width"),
  One(Eq(s, St(<<97, 34, 98>>)), "string-with-quote"), One(Eq(s, St(<<>>)), "empty-string"),
  \* carriage return, tab and line feed are ordinary characters inside string literals and quoted symbols
  One(Eq(Ap("str.len", <<St(<<97, 13, 10, 98>>)>>), Nm(4)), "string-with-cr-lf"),
  One(Eq(Ap("str.len", <<St(<<9, 13>>)>>), Nm(2)), "string-with-tab-cr"),
  Case(Prelude \o <<DeclFun("p\rq", <<>>, SInt), DeclFun("pq", <<>>, SInt), Asrt(Ap("not", <<Eq(A("p\rq"), A("pq"))>>))>>,
       "accept", "quoted-symbol-with-cr"),
  Case(Prelude \o <<DeclFun("a\tb", <<>>, SInt), DeclFun("a b", <<>>, SInt), Asrt(Lt(A("a\tb"), A("a b")))>>,
       "accept", "quoted-symbols-tab-vs-space"),
  \* escape sequences of the Strings theory: "\u{41}" and "\u0041" are the one-character string "A"
  One(Eq(Ap("str.len", <<St(<<92, 117, 123, 52, 49, 125>>)>>), Nm(1)), "string-escape-braces"),
  One(Eq(s, St(<<97, 92, 117, 48, 48, 52, 49, 98>>)), "string-escape-four-digits"),
  One(Eq(s, St(<<92, 117, 123, 51, 98, 49, 125, 92, 120>>)), "string-escape-greek-and-plain-backslash"),
  One(Eq(s, St(<<233, 92, 117, 123, 122, 125>>)), "string-non-ascii-and-non-escape"),
  \* near misses are plain text: capital U, three digits, empty / six-digit / non-hex braces, \x, a value above 2FFFF
  One(Eq(Ap("str.len", <<St(<<92, 85, 48, 48, 52, 49>>)>>), Nm(6)), "string-near-escape-capital-U"),
  One(Eq(s, St(<<120, 92, 85, 123, 52, 97, 125, 121>>)), "string-near-escape-capital-U-braces"),
  One(Eq(Ap("str.len", <<St(<<92, 117, 48, 48, 52, 103>>)>>), Nm(6)), "string-near-escape-three-digits"),
  One(Eq(Ap("str.len", <<St(<<92, 117, 123, 125>>)>>), Nm(4)), "string-near-escape-empty-braces"),
  One(Eq(Ap("str.len", <<St(<<92, 117, 123, 48, 48, 48, 48, 52, 49, 125>>)>>), Nm(10)), "string-near-escape-six-digits"),
  One(Eq(Ap("str.len", <<St(<<92, 117, 123, 51, 48, 48, 48, 48, 125>>)>>), Nm(9)), "string-near-escape-above-2FFFF"),
  One(Eq(s, St(<<92, 120, 52, 49, 92, 110>>)), "string-near-escape-x-and-n"),
  One(Eq(s, St(<<92, 117, 48, 48, 52, 65, 92, 117, 123, 52, 65, 125>>)), "string-escape-capital-hex-digits"),
  Rej(Eq(b, BvL(16, 4)), "bv-literal-out-of-range"),
  Rej(Eq(b, Hx(10, 8)), "hex-wrong-width") }

\* ------------------------------------------------------------------ operators and their attributes
OpCases == {
  One(Ap("=", <<x, y, z>>), "chainable-eq"), One(Ap("<", <<x, y, z, Nm(7)>>), "chainable-lt"),
  One(Ap(">=", <<x, y, z>>), "chainable-ge"), One(Ap("=", <<p, q, Lt(x, y)>>), "chainable-eq-bool"),
  One(Ap("distinct", <<x, y, z>>), "distinct-3"), One(Ap("distinct", <<p, q>>), "distinct-bool"),
  One(Ap("=>", <<p, q, Lt(x, y)>>), "implies-right-assoc"), One(Ap("xor", <<p, q, Lt(x, y)>>), "xor-left-assoc"),
  One(Ap("and", <<p, q, Lt(x, y), Eq(x, y)>>), "and-nary"), One(Ap("or", <<p>>), "or-unary"),
  One(Lt(Ap("+", <<x, y, z, Nm(1)>>), Ap("*", <<Nm(2), x, Nm(3)>>)), "plus-times-nary"),
  One(Lt(Ap("-", <<x, y, z>>), Ap("-", <<x, Ap("-", <<y, z>>)>>)), "minus-left-assoc"),
  One(Eq(Ap("ite", <<p, x, SPlus(y, Nm(1))>>), z), "ite-int"), One(Ap("ite", <<p, q, Lt(x, y)>>), "ite-bool"),
  One(Eq(Ap("bvadd", <<b, c, b>>), Ap("bvmul", <<b, c>>)), "bvadd-nary"),
  One(Eq(Ap("bvand", <<b, c, Hx(7, 4)>>), Ap("bvor", <<b, c>>)), "bvand-nary"),
  One(Ap("bvult", <<Ap("bvsub", <<b, c>>), Ap("bvneg", <<Ap("bvnot", <<b>>)>>)>>), "bv-basic"),
  One(Ap("bvsle", <<Ap("bvsdiv", <<b, c>>), Ap("bvsrem", <<b, c>>)>>), "bv-signed"),
  One(Ap("bvuge", <<Ap("bvsmod", <<b, c>>), Ap("bvashr", <<b, c>>)>>), "bv-smod-ashr"),
  One(Ap("bvsgt", <<Ap("bvnand", <<b, c>>), Ap("bvxnor", <<b, c>>)>>), "bv-nand-xnor"),
  One(Eq(Ap("bvcomp", <<b, c>>), Bn(1, 1)), "bvcomp"),
  One(Eq(Ix("extract", <<2, 1>>, <<b>>), Bn(2, 2)), "extract"), One(Eq(Ix("extract", <<3, 3>>, <<b>>), Bn(1, 1)), "extract-msb"),
  One(Eq(Ix("zero_extend", <<2>>, <<b>>), Ix("sign_extend", <<2>>, <<c>>)), "extend"),
  One(Eq(Ix("rotate_left", <<1>>, <<b>>), Ix("rotate_right", <<3>>, <<c>>)), "rotate"),
  One(Eq(Ix("repeat", <<2>>, <<b>>), Ap("concat", <<c, c>>)), "repeat"),
  One(Lt(Ap("bv2nat", <<b>>), x), "bv2nat"),
  One(Eq(Ap("select", <<Ap("store", <<a, x, SPlus(y, Nm(1))>>), z>>), Ap("f", <<x>>)), "arrays"),
  One(Eq(a, L(<<L(<<A("as"), A("const"), ArrS(SInt, SInt)>>), Nm(0)>>)), "const-array"),
  One(Ap("g", <<Ap("f", <<x>>), Ap("f", <<Ap("f", <<y>>)>>)>>), "uf-nested"),
  One(Lt(Ap("str.len", <<Ap("str.++", <<s, St(<<97>>), s>>)>>), x), "str-len-concat"),
  One(Ap("str.contains", <<s, Ap("str.at", <<s, x>>)>>), "str-contains-at"),
  One(Eq(Ap("str.indexof", <<s, St(<<97>>), Nm(0)>>), Ap("str.to.int", <<Ap("str.substr", <<s, Nm(0), x>>)>>)), "str-indexof-toint"),
  One(Ap("str.prefixof", <<Ap("str.replace", <<s, St(<<97>>), St(<<98>>)>>), Ap("int.to.str", <<x>>)>>), "str-replace-fromint"),
  One(Ap("str.suffixof", <<St(<<97>>), s>>), "str-suffixof"),
  One(L(<<A("!"), Ap("and", <<p, q>>), Kw(":named"), A("n1")>>), "annotation-named"),
  One(Lt(Ap("to_real", <<x>>), r), "to_real"),
  One(Lt(Ap("div", <<x, y>>), z), "int-div"),
  One(Lt(Ap("/", <<r, u>>), r), "real-div"),
  Rej(Ap("foo", <<p, q>>), "unknown-operator"), Rej(Ap("and", <<p, A("undeclared_sym")>>), "undeclared-symbol"),
  Rej(Eq(s, A("undeclared_sym")), "undeclared-symbol-vs-string"),
  Rej(Ap("not", <<p, q>>), "not-wrong-arity"), Rej(Eq(Ix("extract", <<1, 2>>, <<b>>), Bn(1, 2)), "extract-bad-index"),
  Rej(Eq(Ix("extract", <<4, 0>>, <<b>>), Bn(1, 5)), "extract-out-of-range"),
  Rej(Lt(SPlus(p, Nm(1)), x), "plus-bool"), Rej(Eq(x, p), "eq-mixed-sorts"), Rej(Ap("bvadd", <<b, Bn(1, 3)>>), "bvadd-widths"),
  Rej(Ap("f", <<x, y>>), "uf-wrong-arity"), Rej(Ap("ite", <<x, y, z>>), "ite-non-bool-condition"),
  Rej(Ap("select", <<a, p>>), "select-wrong-index-sort") }

\* ------------------------------------------------------------------ command-level scripts
CmdCases == {
  Case(Prelude \o <<Asrt(p), L(<<A("push"), Nm(1)>>), Asrt(Lt(x, y)), L(<<A("check-sat")>>), L(<<A("pop"), Nm(1)>>), Asrt(q), L(<<A("check-sat")>>)>>,
       "accept", "push-pop"),
  Case(Prelude \o <<L(<<A("push"), Nm(1)>>), DeclFun("loc", <<>>, SInt), Asrt(Lt(A("loc"), x)), L(<<A("pop"), Nm(1)>>), Asrt(p)>>, "accept", "push-local-declaration"),
  Case(Prelude \o <<L(<<A("push"), Nm(2)>>), Asrt(p), L(<<A("pop"), Nm(2)>>), Asrt(q)>>, "accept", "push2-pop2"),
  \* a name defined / declared again after the level that introduced it was popped
  Case(Prelude \o <<L(<<A("push"), Nm(1)>>), DefFun("inc", <<<<"n", SInt>>>>, SInt, SPlus(A("n"), Nm(1))), Asrt(Eq(Ap("inc", <<x>>), Nm(0))),
                    L(<<A("pop"), Nm(1)>>), DefFun("inc", <<<<"n", SInt>>>>, SInt, Ap("-", <<A("n"), Nm(1)>>)),
                    Asrt(Eq(Ap("inc", <<y>>), Nm(0))), Asrt(Eq(Ap("inc", <<x>>), Nm(0)))>>, "accept", "define-again-after-pop"),
  Case(Prelude \o <<L(<<A("push"), Nm(1)>>), DeclFun("loc", <<>>, SInt), Asrt(Lt(A("loc"), x)), L(<<A("pop"), Nm(1)>>),
                    L(<<A("push"), Nm(1)>>), DeclFun("loc", <<>>, SInt), Asrt(Lt(x, A("loc"))), L(<<A("pop"), Nm(1)>>),
                    DeclFun("loc", <<>>, SInt), Asrt(Lt(A("loc"), y))>>, "accept", "declare-again-after-pop"),
  Case(Prelude \o <<Asrt(p), L(<<A("check-sat-assuming"), L(<<p, Ap("not", <<q>>)>>)>>)>>, "accept", "check-sat-assuming"),
  Case(Prelude \o <<L(<<A("declare-sort"), A("U"), Nm(0)>>), DeclFun("e1", <<>>, A("U")), DeclFun("h", <<A("U")>>, A("U")),
                   Asrt(Eq(Ap("h", <<A("e1")>>), A("e1")))>>, "accept", "declare-sort"),
  \* names that need quoting in the positions of a sort name, a defined function and its parameters
  Case(Prelude \o <<L(<<A("declare-sort"), A("My Sort"), Nm(0)>>), DeclFun("e1", <<>>, A("My Sort")), DeclFun("h h", <<A("My Sort")>>, A("My Sort")),
                   Asrt(Eq(Ap("h h", <<A("e1")>>), A("e1")))>>, "accept", "declare-sort-quoted-name"),
  Case(Prelude \o <<DefFun("a b", <<<<"p q", SInt>>>>, SInt, SPlus(A("p q"), Nm(1))), Asrt(Lt(Ap("a b", <<x>>), y))>>, "accept", "define-fun-quoted-names"),
  Case(Prelude \o <<L(<<A("define-sort"), A("Word"), L(<<>>), BVs(4)>>), DeclFun("w1", <<>>, A("Word")), Asrt(Eq(A("w1"), b))>>, "accept", "define-sort"),
  Case(Prelude \o <<L(<<A("define-sort"), A("AI"), L(<<A("T")>>), ArrS(SInt, A("T"))>>), DeclFun("ai", <<>>, L(<<A("AI"), SInt>>)), Asrt(Eq(A("ai"), a))>>,
       "accept", "define-sort-parametric"),
  Case(Prelude \o <<L(<<A("assert-soft"), p, Kw(":id"), A("g1"), Kw(":weight"), Nm(3)>>), L(<<A("assert-soft"), Lt(x, y), Kw(":weight"), Nm(2)>>),
                   L(<<A("minimize"), SPlus(x, y)>>), L(<<A("maximize"), x>>), L(<<A("check-sat")>>)>>, "accept", "omt"),
  \* objectives over bit-vectors: the :signed attribute decides the ORDER the objective is read in; :id names the goal
  Case(Prelude \o <<Asrt(Ap("bvult", <<b, c>>)), L(<<A("maximize"), b>>), L(<<A("minimize"), c, Kw(":signed")>>), L(<<A("check-sat")>>)>>, "accept", "omt-bv-signed"),
  Case(Prelude \o <<L(<<A("maximize"), b, Kw(":id"), A("goal1")>>), L(<<A("minimize"), c, Kw(":signed"), Kw(":id"), A("goal2")>>),
                    L(<<A("minimize"), x, Kw(":id"), A("goal3")>>)>>, "accept", "omt-id"),
  Case(Prelude \o <<L(<<A("minmax"), x, y>>), L(<<A("maxmin"), b, c, Kw(":signed")>>), L(<<A("minmax"), b, c, Kw(":id"), A("g2")>>),
                    L(<<A("maxmin"), x, y, z>>)>>, "accept", "omt-minmax"),
  Case(Prelude \o <<L(<<A("set-option"), Kw(":produce-models"), A("true")>>), L(<<A("set-info"), Kw(":status"), A("sat")>>), Asrt(p),
                   L(<<A("check-sat")>>), L(<<A("get-value"), L(<<x, SPlus(x, y)>>)>>), L(<<A("get-model")>>), L(<<A("exit")>>)>>, "accept", "options-info-getvalue"),
  Case(Prelude \o <<Asrt(p), L(<<A("reset-assertions")>>)>>, "accept", "reset-assertions"),
  Case(Prelude \o <<L(<<A("frobnicate"), p>>)>>, "reject", "unknown-command"),
  Case(Prelude \o <<DeclFun("p", <<>>, SInt)>>, "reject", "redeclaration-other-sort"),
  Case(Prelude \o <<L(<<A("assert")>>)>>, "reject", "assert-without-term"),
  Case(Prelude \o <<L(<<A("assert"), p, q>>)>>, "reject", "assert-two-terms"),
  Case(Prelude \o <<DeclFun("v1", <<>>, A("NoSuchSort"))>>, "reject", "declare-unknown-sort") }

Corpus == LetCases \cup BinderCases \cup DefCases \cup NumCases \cup OpCases \cup CmdCases

VARIABLE done
Init == done = FALSE /\ LET cs == SetToSeq(Corpus)
                         IN  ndJsonSerialize(IOEnv.OUT_FILE, cs) /\ PrintT(<<"corpus", Layer, Len(cs)>>)
Next == ~done /\ done' = TRUE
Spec == Init /\ [][Next]_done
=============================================================================
