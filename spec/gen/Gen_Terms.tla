------------------------------ MODULE Gen_Terms ------------------------------
(***************************************************************************)
(* Term generator: TLC enumerates well-typed terms layer by layer and       *)
(* writes them as newline-delimited JSON for the harness to build through   *)
(* the public pySMT constructors.                                           *)
(*   L1  every operator applied to every tuple of leaves of a per-sort pool *)
(*   L2  every operator applied to (one L1s term, small leaves elsewhere),  *)
(*       where L1s = L1 over a 3-leaf pool: all two-operator compositions   *)
(*   LQ  quantifier shapes (nested, shadowing, unused, partially used)      *)
(* Layer selects what is written to OUT_FILE.                               *)
(***************************************************************************)
EXTENDS SmtTypes, Json, IOUtils, SequencesExt

CONSTANTS Layer,      \* "L1" | "L2" | "LQ"
          NShards, Shard \* L2 is generated in NShards independent parts (by outer signature)

TAII == TArray(TInt, TInt)
TAVB == TArray(TBV(2), TBool)
TF1  == TFun(TInt, <<TInt>>)
TG1  == TFun(TBool, <<TBV(2)>>)
TH2  == TFun(TReal, <<TBool, TReal>>)

SortOf == [B |-> TBool, I |-> TInt, R |-> TReal, V2 |-> TBV(2), V3 |-> TBV(3), V1 |-> TBV(1),
           S |-> TString, AII |-> TAII, AVB |-> TAVB, X |-> TInt,
           V4 |-> TBV(4), V5 |-> TBV(5)]
\* X = Int in index position of string operators (own pool)

Str(s) == StrC(s)
K0 == ArrV(TInt, <<IntC(0)>>)
K0s == ArrV(TInt, <<IntC(0), IntC(1), IntC(2)>>)
KB == ArrV(TBV(2), <<BoolC(FALSE), BVC(1, 2), BoolC(TRUE)>>)

BigPool ==
    [B |-> {Sym("p", TBool), Sym("q", TBool), BoolC(TRUE), BoolC(FALSE)},
     I |-> {Sym("x", TInt), Sym("y", TInt), IntC(-1), IntC(0), IntC(1), IntC(2)},
     X |-> {Sym("x", TInt), IntC(-2), IntC(-1), IntC(0), IntC(1), IntC(2), IntC(3)},
     R |-> {Sym("r", TReal), Sym("u", TReal), RealC(<<0, 1>>), RealC(<<1, 1>>), RealC(<<-1, 2>>), RealC(<<2, 1>>)},
     V1 |-> {Sym("e", TBV(1)), BVC(0, 1), BVC(1, 1)},
     V2 |-> {Sym("b", TBV(2)), Sym("c", TBV(2)), BVC(0, 2), BVC(1, 2), BVC(2, 2), BVC(3, 2)},
     V3 |-> {Sym("d", TBV(3)), BVC(0, 3), BVC(5, 3), BVC(7, 3), BVC(3, 3)},
     S |-> {Sym("s", TString), Str(<<>>), Str(<<97>>), Str(<<97, 98>>), Str(<<45, 49>>), Str(<<48, 49>>),
            Str(<<97, 98, 97>>), Str(<<1635>>)},        \* the last one: ARABIC-INDIC DIGIT THREE (a digit for Unicode, not for SMT-LIB)
     AII |-> {Sym("a", TAII), K0, K0s},
     AVB |-> {Sym("m", TAVB), KB}]

SmallPool ==
    [B |-> {Sym("p", TBool), Sym("q", TBool), BoolC(TRUE)},
     I |-> {Sym("x", TInt), Sym("y", TInt), IntC(0)},
     X |-> {Sym("x", TInt), IntC(-1), IntC(1)},
     R |-> {Sym("r", TReal), RealC(<<0, 1>>), RealC(<<-1, 2>>)},
     V1 |-> {Sym("e", TBV(1)), BVC(1, 1)},
     V2 |-> {Sym("b", TBV(2)), Sym("c", TBV(2)), BVC(3, 2)},
     V3 |-> {Sym("d", TBV(3)), BVC(5, 3)},
     S |-> {Sym("s", TString), Str(<<97, 98>>), Str(<<>>)},
     AII |-> {Sym("a", TAII), K0s},
     AVB |-> {Sym("m", TAVB), KB}]

Sig(op, as, ps) == [op |-> op, as |-> as, ps |-> ps]
NoP == {<<>>}

BVSigs(V, w) ==
    {Sig(o, <<V, V>>, NoP) : o \in BVBinOps \cup BVRelOps \cup {"bv_comp", "equals"}}
    \cup {Sig(o, <<V>>, NoP) : o \in BVUnOps \cup {"bv_tonatural"}}
    \cup {Sig("bv_extract", <<V>>, {<<lo, hi>> : lo \in 0..(w - 1), hi \in 0..(w - 1)} \cap {p \in (0..w) \X (0..w) : p[1] <= p[2]})}
    \cup {Sig(o, <<V>>, {<<k>> : k \in 0..w}) : o \in {"bv_rol", "bv_ror"}}
    \cup {Sig(o, <<V>>, {<<k>> : k \in 0..2}) : o \in {"bv_zext", "bv_sext"}}
    \cup {Sig("ite", <<"B", V, V>>, NoP)}

Sigs ==
    {Sig(o, <<"B", "B">>, NoP) : o \in {"and", "or", "implies", "iff"}}
    \cup {Sig("and", <<"B", "B", "B">>, NoP), Sig("or", <<"B", "B", "B">>, NoP)}
    \cup {Sig("not", <<"B">>, NoP), Sig("ite", <<"B", "B", "B">>, NoP)}
    \cup {Sig(o, <<"I", "I">>, NoP) : o \in {"plus", "minus", "times", "div", "le", "lt", "equals"}}
    \cup {Sig(o, <<"R", "R">>, NoP) : o \in {"plus", "minus", "times", "div", "le", "lt", "equals"}}
    \cup {Sig("plus", <<"I", "I", "I">>, NoP), Sig("times", <<"I", "I", "I">>, NoP),
          Sig("plus", <<"R", "R", "R">>, NoP), Sig("times", <<"R", "R", "R">>, NoP)}
    \cup {Sig("ite", <<"B", "I", "I">>, NoP), Sig("ite", <<"B", "R", "R">>, NoP),
          Sig("ite", <<"B", "S", "S">>, NoP), Sig("ite", <<"B", "AII", "AII">>, NoP)}
    \cup {Sig("toreal", <<"I">>, NoP)}
    \cup {Sig("pow", <<"I">>, {<<0>>, <<1>>, <<2>>, <<3>>, <<-1>>, <<-2>>}), Sig("pow", <<"R">>, {<<0>>, <<2>>, <<-1>>, <<-2>>})}
    \cup BVSigs("V2", 2) \cup BVSigs("V3", 3) \cup BVSigs("V1", 1)
    \cup {Sig("bv_concat", <<"V2", "V3">>, NoP), Sig("bv_concat", <<"V1", "V2">>, NoP),
          Sig("bv_concat", <<"V2", "V2">>, NoP)}
    \cup {Sig("str_length", <<"S">>, NoP), Sig("str_to_int", <<"S">>, NoP), Sig("int_to_str", <<"I">>, NoP),
          Sig("str_concat", <<"S", "S">>, NoP), Sig("str_concat", <<"S", "S", "S">>, NoP),
          Sig("str_contains", <<"S", "S">>, NoP), Sig("str_prefixof", <<"S", "S">>, NoP),
          Sig("str_suffixof", <<"S", "S">>, NoP), Sig("equals", <<"S", "S">>, NoP),
          Sig("str_charat", <<"S", "X">>, NoP), Sig("str_indexof", <<"S", "S", "X">>, NoP),
          Sig("str_replace", <<"S", "S", "S">>, NoP), Sig("str_substr", <<"S", "X", "X">>, NoP)}
    \cup {Sig("array_select", <<"AII", "I">>, NoP), Sig("array_store", <<"AII", "I", "I">>, NoP),
          Sig("equals", <<"AII", "AII">>, NoP),
          Sig("array_select", <<"AVB", "V2">>, NoP), Sig("array_store", <<"AVB", "V2", "B">>, NoP),
          Sig("equals", <<"AVB", "AVB">>, NoP)}
    \cup {Sig("fn_f", <<"I">>, NoP), Sig("fn_g", <<"V2">>, NoP), Sig("fn_h", <<"B", "R">>, NoP)}
    \cup {Sig("arrval_I", <<"I">>, {<<>>, <<0>>, <<0, 1>>}), Sig("arrval_V2", <<"B">>, {<<>>, <<2>>})}

\* build the node the way the pySMT constructor would compute its payload
Mk(sig, args, p) ==
    LET op == sig.op
        w1 == TyF(args[1]).w
    IN
    CASE op \in BVUnOps \cup BVBinOps -> OpI(op, args, <<w1>>)
      [] op = "bv_comp" -> OpI(op, args, <<1>>)
      [] op = "bv_concat" -> OpI(op, args, <<w1 + TyF(args[2]).w>>)
      [] op = "bv_extract" -> OpI(op, args, <<p[2] - p[1] + 1, p[1], p[2]>>)
      [] op \in {"bv_rol", "bv_ror"} -> OpI(op, args, <<w1, p[1]>>)
      [] op \in {"bv_zext", "bv_sext"} -> OpI(op, args, <<w1 + p[1], p[1]>>)
      [] op = "pow" -> Op(op, <<args[1], IF TyF(args[1]) = TInt THEN IntC(p[1]) ELSE RealC(<<p[1], 1>>)>>)
      [] op = "fn_f" -> App("f", TF1, args)
      [] op = "fn_g" -> App("g", TG1, args)
      [] op = "fn_h" -> App("h", TH2, args)
      [] op = "arrval_I" ->
            \* constant array over Int with default args[1] and values at the listed keys
            ArrV(TInt, <<args[1]>> \o
                 (IF Len(p) >= 1 THEN <<IntC(p[1]), IntC(5)>> ELSE <<>>) \o
                 (IF Len(p) >= 2 THEN <<IntC(p[2]), Sym("y", TInt)>> ELSE <<>>))
      [] op = "arrval_V2" ->
            ArrV(TBV(2), <<args[1]>> \o (IF Len(p) >= 1 THEN <<BVC(p[1], 2), Sym("q", TBool)>> ELSE <<>>))
      [] OTHER -> Op(op, args)

RECURSIVE Tuples(_, _)
\* all sequences choosing element j from pool[as[j]]
Tuples(as, pool) ==
    IF as = <<>> THEN {<<>>}
    ELSE {<<h>> \o t : h \in pool[Head(as)], t \in Tuples(Tail(as), pool)}

Apply(sigs, pool) ==
    UNION {{Mk(sg, args, p) : args \in Tuples(sg.as, pool), p \in sg.ps} : sg \in sigs}

L1_(z) == Apply(Sigs, BigPool)
L1s_(z) == Apply(Sigs, SmallPool)

\* sort key of an L1s_(z) term, for plugging it into an outer operator
KeyOfSort(ty) ==
    CASE ty = TBool -> {"B"} [] ty = TInt -> {"I", "X"} [] ty = TReal -> {"R"}
      [] ty = TBV(1) -> {"V1"} [] ty = TBV(2) -> {"V2"} [] ty = TBV(3) -> {"V3"}
      [] ty = TString -> {"S"} [] ty = TAII -> {"AII"} [] ty = TAVB -> {"AVB"}
      [] OTHER -> {}

Tiny == [B |-> {Sym("p", TBool)}, I |-> {Sym("x", TInt), IntC(0)}, X |-> {IntC(1)},
         R |-> {Sym("r", TReal)}, V1 |-> {BVC(1, 1)}, V2 |-> {Sym("b", TBV(2)), BVC(3, 2)},
         V3 |-> {Sym("d", TBV(3))}, S |-> {Sym("s", TString), Str(<<97, 98>>)},
         AII |-> {Sym("a", TAII)}, AVB |-> {Sym("m", TAVB)}]

SigSeq == SetToSeq(Sigs)
MySigs == {SigSeq[i] : i \in {i \in 1..Len(SigSeq) : i % NShards = Shard}}

\* outer operator with an L1s_(z) term at position j and tiny leaves elsewhere
L2_(z) ==
    LET l1s == L1s_(z)
        inner == [k \in DOMAIN Tiny |-> {t \in l1s : k \in KeyOfSort(TyF(t))}]
    IN  UNION { UNION { { Mk(sg, [args EXCEPT ![j] = u], p) :
                              args \in Tuples(sg.as, Tiny), u \in inner[sg.as[j]], p \in sg.ps }
                        : j \in 1..Len(sg.as) }
                : sg \in MySigs }

\* quantifier shapes
P == Sym("p", TBool)
Qs == Sym("q", TBool)
Bb == Sym("b", TBV(2))
Cc == Sym("c", TBV(2))
E1 == Sym("e", TBV(1))
Xx == Sym("x", TInt)
Yy == Sym("y", TInt)
Bodies ==
    {P, Op("and", <<P, Qs>>), Op("or", <<P, Op("not", <<Qs>>)>>), Op("iff", <<P, Qs>>),
     Op("equals", <<Bb, Cc>>), Op("bv_ult", <<Bb, Cc>>), Op("equals", <<OpI("bv_add", <<Bb, Cc>>, <<2>>), BVC(1, 2)>>),
     Op("and", <<P, Op("equals", <<Bb, BVC(2, 2)>>)>>), Op("equals", <<E1, BVC(1, 1)>>),
     Op("le", <<Xx, Yy>>), Op("or", <<Op("lt", <<Xx, IntC(1)>>), P>>), Op("equals", <<Xx, Yy>>),
     BoolC(TRUE), App("g", TG1, <<Bb>>), Op("implies", <<Op("le", <<Xx, IntC(0)>>), Op("le", <<Yy, Xx>>)>>)}
VarSets == {<<BVar("p", TBool)>>, <<BVar("q", TBool)>>, <<BVar("p", TBool), BVar("q", TBool)>>,
            <<BVar("b", TBV(2))>>, <<BVar("c", TBV(2)), BVar("b", TBV(2))>>, <<BVar("e", TBV(1))>>,
            <<BVar("x", TInt)>>, <<BVar("y", TInt), BVar("p", TBool)>>, <<BVar("z", TInt)>>}
Q1_(z) == {Quant(qk, vs, bd) : qk \in {"forall", "exists"}, vs \in VarSets, bd \in Bodies}
SmallVarSets == {<<BVar("p", TBool)>>, <<BVar("b", TBV(2))>>, <<BVar("x", TInt)>>, <<BVar("q", TBool), BVar("p", TBool)>>}
Q1s_(z) == {Quant(qk, vs, bd) : qk \in {"forall", "exists"}, vs \in SmallVarSets,
                            bd \in {Op("or", <<P, Op("not", <<Qs>>)>>), Op("bv_ult", <<Bb, Cc>>), Op("le", <<Xx, Yy>>),
                                    Op("and", <<P, Op("equals", <<Bb, BVC(2, 2)>>)>>)}}
\* nesting / shadowing / free-and-bound occurrences, and Boolean contexts around a quantifier
Q2_(z) == {Quant(qk, vs, Op(c, <<inner, extra>>)) :
            qk \in {"forall", "exists"}, vs \in SmallVarSets, c \in {"and", "or", "implies"},
            inner \in Q1s_(z), extra \in {P, Op("bv_ult", <<Cc, Bb>>), Op("lt", <<Yy, Xx>>)}}
      \cup {Op(c, <<inner, extra>>) : c \in {"and", "or", "iff", "implies"}, inner \in Q1_(z),
                                      extra \in {P, Op("equals", <<Bb, Cc>>)}}
      \cup {Op("not", <<inner>>) : inner \in Q1_(z)}
\* DIRECTLY nested quantifiers (same kind and alternations), the body relating variables of both binders
NestVarSets == SmallVarSets \cup {<<BVar("q", TBool)>>, <<BVar("c", TBV(2))>>, <<BVar("y", TInt)>>}
NestBodies == {Op("iff", <<P, Qs>>), Op("and", <<P, Op("not", <<Qs>>)>>), Op("bv_ult", <<Bb, Cc>>), Op("equals", <<Bb, Cc>>),
               Op("le", <<Xx, Yy>>), Op("lt", <<Yy, Xx>>)}
Q3_(z) == {Quant(q1, vs1, Quant(q2, vs2, bd)) : q1 \in {"forall", "exists"}, q2 \in {"forall", "exists"},
                                                vs1 \in NestVarSets, vs2 \in NestVarSets, bd \in NestBodies}
      \cup {Quant(q1, vs1, Op("not", <<Quant(q2, vs2, bd)>>)) : q1 \in {"forall", "exists"}, q2 \in {"forall", "exists"},
                                                vs1 \in {<<BVar("p", TBool)>>, <<BVar("b", TBV(2))>>},
                                                vs2 \in {<<BVar("q", TBool)>>, <<BVar("c", TBV(2))>>},
                                                bd \in {Op("iff", <<P, Qs>>), Op("bv_ult", <<Bb, Cc>>)}}
      \cup {Quant(q1, <<BVar("p", TBool)>>, Quant(q2, <<BVar("q", TBool)>>, Quant(q3, <<BVar("b", TBV(2))>>,
                    Op("or", <<Op("iff", <<P, Qs>>), Op("bv_ult", <<Bb, Cc>>)>>)))) :
                q1 \in {"forall", "exists"}, q2 \in {"forall", "exists"}, q3 \in {"forall", "exists"}}
\* the SAME compound sub-term inside the scope of a binder for one of its symbols and outside it (both orders)
Q4_(z) == {Op(c, <<Quant(qk, vs, bd), bd>>) : c \in {"and", "or"}, qk \in {"forall", "exists"}, vs \in NestVarSets, bd \in NestBodies}
      \cup {Op(c, <<bd, Quant(qk, vs, bd)>>) : c \in {"and", "iff"}, qk \in {"forall", "exists"}, vs \in NestVarSets, bd \in NestBodies}
      \cup {Op("and", <<Quant("forall", <<BVar("b", TBV(2))>>, bd), Quant("exists", <<BVar("c", TBV(2))>>, bd)>>) :
                bd \in {Op("bv_ult", <<Bb, Cc>>), Op("equals", <<Bb, Cc>>)}}
LQ_(z) == Q1_(z) \cup Q2_(z) \cup Q3_(z) \cup Q4_(z)


\* ---------------------------------------------------------------------------
\* Ground operator tables (C02): every non-UF signature applied to positional
\* symbols v1..vn, paired with every tuple of values from ValPool.
PosSym(j, key) == Sym((CASE j = 1 -> "v1_" [] j = 2 -> "v2_" [] j = 3 -> "v3_" [] OTHER -> "v4_") \o key, SortOf[key])
K1 == ArrV(TInt, <<IntC(1), IntC(0), IntC(0)>>)
K2 == ArrV(TInt, <<IntC(0), IntC(-1), IntC(2), IntC(1), IntC(1)>>)
KF == ArrV(TBV(2), <<BoolC(FALSE)>>)
ValPool ==
    [B |-> {BoolC(TRUE), BoolC(FALSE)},
     I |-> {IntC(k) : k \in -7..7},
     X |-> {IntC(k) : k \in -3..4},
     R |-> {RealC(q) : q \in {<<-2, 1>>, <<-1, 1>>, <<-1, 2>>, <<0, 1>>, <<1, 3>>, <<1, 2>>, <<1, 1>>, <<3, 2>>, <<2, 1>>}},
     V1 |-> {BVC(k, 1) : k \in 0..1}, V2 |-> {BVC(k, 2) : k \in 0..3}, V3 |-> {BVC(k, 3) : k \in 0..7},
     V4 |-> {BVC(k, 4) : k \in 0..15}, V5 |-> {BVC(k, 5) : k \in 0..31},
     S |-> {Str(<<>>), Str(<<97>>), Str(<<98>>), Str(<<97, 98>>), Str(<<98, 97>>), Str(<<97, 97>>),
            Str(<<48>>), Str(<<49, 48>>), Str(<<45, 53>>), Str(<<97, 98, 97>>), Str(<<32, 55>>),
            \* characters Unicode classifies as digits / letters without being SMT-LIB digits:
            \* ARABIC-INDIC THREE, FULLWIDTH SEVEN + "1", SUPERSCRIPT TWO, e-acute
            Str(<<1635>>), Str(<<65303, 49>>), Str(<<178>>), Str(<<233>>)},
     AII |-> {K0, K0s, K1, K2},
     AVB |-> {KB, KF}]

GSigs(wide) ==
    {sg \in Sigs : sg.op \notin {"fn_f", "fn_g", "fn_h", "arrval_I", "arrval_V2"}
                   /\ ~(Len(sg.as) = 3 /\ sg.as[1] \in {"I", "R"})}
    \cup (IF wide THEN BVSigs("V4", 4) \cup BVSigs("V5", 5) ELSE {})

MyGSigs(wide) == LET sq == SetToSeq(GSigs(wide)) IN {sq[i] : i \in {i \in 1..Len(sq) : i % NShards = Shard}}

GroundCases(wide) ==
    UNION { { [f |-> Mk(sg, [j \in 1..Len(sg.as) |-> PosSym(j, sg.as[j])], p),
               asg |-> [j \in 1..Len(sg.as) |-> [n |-> PosSym(j, sg.as[j]).n, ty |-> SortOf[sg.as[j]], v |-> vals[j]]]]
              : vals \in Tuples(sg.as, ValPool), p \in sg.ps }
            : sg \in MyGSigs(wide) }

\* ---------------------------------------------------------------------------
\* terms over custom sorts, composite sorts and Boolean terms nested in theory terms (C12, C13)
TSs == TSort("S")
TPair == Ty("Sort", 0, "Pair", <<TInt, TSs>>)
K1s == Sym("k1", TSs)
K2s == Sym("k2", TSs)
PP == Sym("pp", TPair)
TPair2 == Ty("Sort", 0, "Pair", <<TSs, TInt>>)       \* a second instance of the same parametric sort
FS == TFun(TSs, <<TSs, TInt>>)
GS == TFun(TBool, <<TBool, TSs>>)
AS == Sym("as", TArray(TSs, TBool))
ANest == Sym("an", TArray(TInt, TArray(TInt, TReal)))
LSTerms ==
    {Op("equals", <<K1s, K2s>>), Op("equals", <<App("fs", FS, <<K1s, Xx>>), K2s>>),
     App("gs", GS, <<P, K1s>>), App("gs", GS, <<Op("and", <<P, Qs>>), App("fs", FS, <<K2s, IntC(1)>>)>>),
     Op("array_select", <<AS, K1s>>), Op("and", <<Op("array_select", <<AS, K1s>>), P>>),
     Op("equals", <<PP, PP>>), Quant("forall", <<BVar("k1", TSs)>>, Op("equals", <<K1s, K2s>>)),
     \* quantifiers in NON-Boolean positions: the condition of a term-level ite, a Boolean argument of a function
     Op("lt", <<Op("ite", <<Quant("forall", <<BVar("y", TInt)>>, Op("le", <<Xx, Yy>>)), Xx, Sym("z", TInt)>>), IntC(3)>>),
     App("gs", GS, <<Quant("exists", <<BVar("p", TBool)>>, Op("or", <<P, Qs>>)), K1s>>),
     Op("equals", <<Op("ite", <<Quant("exists", <<BVar("b", TBV(2))>>, Op("bv_ult", <<Bb, Cc>>)), Bb, Cc>>), Cc>>),
     Op("le", <<Op("plus", <<Op("ite", <<Op("not", <<Quant("forall", <<BVar("x", TInt)>>, Op("le", <<Xx, Yy>>))>>), IntC(1), Yy>>), Xx>>), IntC(0)>>),
     Op("equals", <<Sym("ap", TArray(TInt, TPair)), Sym("ap2", TArray(TInt, TPair))>>),
     Op("equals", <<Op("array_select", <<Sym("ap", TArray(TInt, TPair)), Xx>>), PP>>),
     App("gp", TFun(TBool, <<TPair, TArray(TSs, TPair)>>), <<PP, Sym("asp", TArray(TSs, TPair))>>),
     Quant("exists", <<BVar("ap", TArray(TInt, TPair))>>, Op("equals", <<Op("array_select", <<Sym("ap", TArray(TInt, TPair)), IntC(0)>>), PP>>)),
     Quant("exists", <<BVar("pp", TPair), BVar("p", TBool)>>, Op("or", <<P, Op("equals", <<K1s, K2s>>)>>)),
     Op("equals", <<Op("array_select", <<Op("array_select", <<ANest, Xx>>), Yy>>), RealC(<<1, 2>>)>>),
     \* function sorts that are permutations of one another (same multiset of sorts, another order / another result)
     Op("le", <<App("fir", TFun(TReal, <<TInt>>), <<Xx>>), Sym("r", TReal)>>),
     Op("le", <<App("fri", TFun(TInt, <<TReal>>), <<Sym("r", TReal)>>), Xx>>),
     App("gir", TFun(TBool, <<TInt, TReal>>), <<Xx, Sym("r", TReal)>>),
     App("gri", TFun(TBool, <<TReal, TInt>>), <<Sym("r", TReal), Xx>>),
     Op("and", <<App("gbi", TFun(TBool, <<TBV(2), TInt>>), <<Bb, Xx>>), Op("equals", <<App("hib", TFun(TBV(2), <<TInt, TBool>>), <<Xx, P>>), Bb>>)>>),
     \* a declared sort that occurs ONLY two array levels down (as element, as index of the inner index sort)
     Op("equals", <<Op("array_select", <<Op("array_select", <<Sym("grid", TArray(TInt, TArray(TInt, TSort("Elem")))), Xx>>), Yy>>),
                    Op("array_select", <<Op("array_select", <<Sym("grid", TArray(TInt, TArray(TInt, TSort("Elem")))), Yy>>), Xx>>)>>),
     Op("array_select", <<Sym("deep", TArray(TArray(TInt, TArray(TSort("Idx"), TInt)), TBool)),
                          Sym("key", TArray(TInt, TArray(TSort("Idx"), TInt)))>>),
     Op("equals", <<Op("ite", <<P, Xx, Yy>>), IntC(1)>>),
     Op("le", <<Op("ite", <<Op("lt", <<Xx, Yy>>), Xx, Yy>>), Op("ite", <<Qs, IntC(0), Xx>>)>>),
     Op("ite", <<Op("ite", <<P, Qs, Op("le", <<Xx, Yy>>)>>), Op("not", <<P>>), Op("equals", <<Bb, Cc>>)>>),
     Op("iff", <<App("g", TG1, <<Op("ite", <<P, Bb, Cc>>)>>), Qs>>),
     Op("and", <<Op("array_select", <<Sym("m", TAVB), Bb>>), Op("array_select", <<Op("array_store", <<Sym("m", TAVB), Cc, P>>), Bb>>)>>),
     Op("or", <<Op("equals", <<Op("plus", <<Xx, Xx>>), Op("times", <<Xx, IntC(2)>>)>>), Op("lt", <<Op("plus", <<Xx, Xx>>), Yy>>)>>),
     Quant("forall", <<BVar("x", TInt)>>, Op("and", <<Op("le", <<Xx, Yy>>), Quant("exists", <<BVar("y", TInt)>>, Op("lt", <<Yy, Xx>>))>>)),
     Op("and", <<P, Quant("exists", <<BVar("p", TBool)>>, Op("or", <<P, Qs>>))>>),
     Op("str_prefixof", <<Sym("s", TString), Op("ite", <<P, StrC(<<97>>), Sym("s", TString)>>)>>),
     Op("bv_ult", <<Bb, Op("ite", <<Op("bv_ult", <<Cc, Bb>>), Cc, BVC(1, 2)>>)>>),
     Op("and", <<Op("equals", <<PP, Sym("pp2", TPair)>>), Op("not", <<Op("equals", <<Sym("pq", TPair2), Sym("pq2", TPair2)>>)>>)>>),
     \* constant arrays whose index sort occurs nowhere else in the formula (a custom sort, a bit-vector sort)
     Op("equals", <<ArrV(TSs, <<IntC(0)>>), ArrV(TSs, <<IntC(1)>>)>>),
     Op("not", <<Op("equals", <<ArrV(TBV(2), <<BoolC(TRUE)>>), ArrV(TBV(2), <<P>>)>>)>>),
     \* string constants whose TEXT looks like an escape sequence of the Strings theory, non-ASCII and control characters:
     \* the six characters \u{41}; a\u0041; e-acute; TAB; GREEK ALPHA + backslash
     Op("equals", <<Op("str_length", <<StrC(<<92, 117, 123, 52, 49, 125>>)>>), IntC(6)>>),
     Op("equals", <<Sym("s", TString), StrC(<<97, 92, 117, 48, 48, 52, 49>>)>>),
     Op("equals", <<Op("str_length", <<StrC(<<97, 92, 117, 48, 48, 52, 49>>)>>), IntC(7)>>),
     Op("str_prefixof", <<StrC(<<92, 117, 98, 101, 101, 102>>), StrC(<<92, 117, 98, 101, 101, 102, 92, 117, 123, 55, 125>>)>>),
     Op("str_prefixof", <<StrC(<<233>>), Op("str_concat", <<StrC(<<233, 9>>), Sym("s", TString)>>)>>),
     Op("equals", <<Op("str_length", <<StrC(<<945, 92>>)>>), IntC(2)>>)}

\* ---------------------------------------------------------------------------
\* operator mixes per feature family for logic detection (C13)
Ss == Sym("s", TString)
\* functions of two / three parameters whose RETURN sort occurs nowhere else in the formula
F2R == TFun(TReal, <<TInt, TInt>>)
F2V == TFun(TBV(8), <<TInt, TInt>>)
F2A == TFun(TArray(TInt, TInt), <<TSs, TSs>>)
F3S == TFun(TSs, <<TInt, TInt, TInt>>)
F2S == TFun(TString, <<TBool, TBool>>)
LGTerms ==
    {Op("not", <<Op("equals", <<App("f2r", F2R, <<Xx, Yy>>), App("f2r", F2R, <<Yy, Xx>>)>>)>>),
     Op("equals", <<App("f2v", F2V, <<Xx, Yy>>), App("f2v", F2V, <<Yy, Xx>>)>>),
     Op("equals", <<App("f2a", F2A, <<K1s, K2s>>), App("f2a", F2A, <<K2s, K1s>>)>>),
     Op("equals", <<App("f3s", F3S, <<Xx, Yy, Xx>>), App("f3s", F3S, <<Yy, Xx, Yy>>)>>),
     Op("equals", <<App("f2s", F2S, <<P, Qs>>), App("f2s", F2S, <<Qs, P>>)>>),
     \* arithmetic that is / is not a difference constraint: nested subtractions over three symbols, sums, scaled symbols
     Op("le", <<Op("minus", <<Op("minus", <<Xx, Yy>>), Sym("z", TInt)>>), IntC(3)>>),
     Op("le", <<Op("minus", <<Xx, Op("minus", <<Yy, Sym("z", TInt)>>)>>), IntC(3)>>),
     Op("lt", <<Op("minus", <<Sym("r", TReal), Sym("u", TReal)>>), Op("minus", <<Sym("v", TReal), RealC(<<1, 2>>)>>)>>),
     Op("le", <<Op("minus", <<Xx, Yy>>), IntC(3)>>), Op("le", <<Op("minus", <<Op("minus", <<Xx, IntC(1)>>), Yy>>), IntC(3)>>),
     Op("equals", <<Op("minus", <<Xx, Yy>>), Op("minus", <<Yy, Xx>>)>>),
     Op("le", <<Op("minus", <<Xx, Yy>>), Sym("z", TInt)>>),
     Op("equals", <<Sym("z", TInt), Op("minus", <<Xx, Yy>>)>>), Op("equals", <<Op("minus", <<Xx, Yy>>), Sym("z", TInt)>>),
     Op("equals", <<Xx, Op("minus", <<IntC(3), Yy>>)>>),
     Op("equals", <<Op("minus", <<Sym("r", TReal), Sym("u", TReal)>>), Sym("v", TReal)>>),
     Op("equals", <<Op("minus", <<Xx, Yy>>), IntC(3)>>),
     Op("le", <<Op("ite", <<P, Xx, Yy>>), Op("minus", <<IntC(3), Sym("z", TInt)>>)>>),
     Op("le", <<Op("minus", <<App("f", TF1, <<Xx>>), Yy>>), Sym("z", TInt)>>),
     Op("lt", <<Op("minus", <<Xx, App("f", TF1, <<Yy>>)>>), IntC(3)>>),
     \* a sort that occurs ONLY as the index / element sort of an INNER array sort (two and three levels down)
     Op("equals", <<Sym("nb", TArray(TInt, TArray(TBV(4), TInt))), Sym("nb2", TArray(TInt, TArray(TBV(4), TInt)))>>),
     Op("equals", <<Sym("nr", TArray(TInt, TArray(TReal, TInt))), Sym("nr2", TArray(TInt, TArray(TReal, TInt)))>>),
     Op("equals", <<Sym("ns", TArray(TInt, TArray(TString, TInt))), Sym("ns2", TArray(TInt, TArray(TString, TInt)))>>),
     Op("equals", <<Sym("nk", TArray(TInt, TArray(TSs, TInt))), Sym("nk2", TArray(TInt, TArray(TSs, TInt)))>>),
     Op("equals", <<Sym("n3", TArray(TBV(2), TArray(TBV(2), TArray(TInt, TBV(2))))), Sym("n3b", TArray(TBV(2), TArray(TBV(2), TArray(TInt, TBV(2)))))>>),
     Op("equals", <<Sym("n4", TArray(TArray(TReal, TInt), TInt)), Sym("n4b", TArray(TArray(TReal, TInt), TInt))>>),
     Quant("forall", <<BVar("n5", TArray(TInt, TArray(TReal, TInt)))>>, P),
     Op("equals", <<Op("int_to_str", <<Xx>>), Op("int_to_str", <<Yy>>)>>),
     Op("equals", <<Op("int_to_str", <<Xx>>), Ss>>),
     Op("le", <<Op("str_length", <<Ss>>), IntC(3)>>), Op("lt", <<Op("str_to_int", <<Ss>>), Xx>>),
     Op("equals", <<Op("str_indexof", <<Ss, StrC(<<97>>), IntC(0)>>), IntC(1)>>),
     Op("str_contains", <<Ss, StrC(<<97>>)>>), Op("equals", <<Op("str_charat", <<Ss, Xx>>), StrC(<<97>>)>>),
     Quant("forall", <<BVar("w8", TBV(8))>>, P), Quant("exists", <<BVar("zi", TInt)>>, P),
     Quant("forall", <<BVar("zr", TReal)>>, Op("or", <<P, Qs>>)), Quant("exists", <<BVar("zs", TString)>>, P),
     Quant("forall", <<BVar("za", TArray(TInt, TInt))>>, P), Quant("forall", <<BVar("k1", TSort("S"))>>, P),
     Op("le", <<Op("bv_tonatural", <<Bb>>), IntC(2)>>), Op("equals", <<Op("bv_tonatural", <<Bb>>), Op("bv_tonatural", <<Cc>>)>>),
     Op("le", <<Op("toreal", <<Xx>>), Sym("r", TReal)>>), Op("lt", <<Op("toreal", <<Xx>>), RealC(<<1, 2>>)>>),
     Op("le", <<Op("times", <<Xx, Yy>>), IntC(1)>>), Op("le", <<Op("times", <<Xx, IntC(2)>>), IntC(1)>>),
     Op("le", <<Op("times", <<Xx, Xx>>), Yy>>), Op("le", <<Op("times", <<App("f", TF1, <<Xx>>), Yy>>), IntC(0)>>),
     Op("le", <<Op("div", <<Xx, Yy>>), IntC(1)>>), Op("le", <<Op("div", <<IntC(1), Xx>>), IntC(1)>>),
     Op("le", <<Op("div", <<Sym("r", TReal), Sym("u", TReal)>>), RealC(<<1, 1>>)>>),
     Op("le", <<Op("div", <<RealC(<<1, 1>>), Sym("r", TReal)>>), RealC(<<1, 1>>)>>),
     Op("le", <<Op("div", <<Xx, IntC(0)>>), IntC(1)>>), Op("le", <<Op("div", <<Xx, IntC(2)>>), IntC(1)>>),
     Op("le", <<Op("pow", <<Sym("r", TReal), RealC(<<2, 1>>)>>), RealC(<<1, 1>>)>>),
     Op("le", <<Op("pow", <<Xx, IntC(2)>>), RealC(<<1, 1>>)>>),
     Op("equals", <<Sym("a", TAII), K0>>), Op("equals", <<Op("array_select", <<K0s, Xx>>), IntC(1)>>),
     Op("equals", <<Op("array_store", <<Sym("a", TAII), Xx, Yy>>), Sym("a", TAII)>>),
     Op("array_select", <<Sym("m", TAVB), Bb>>), Op("equals", <<Sym("m", TAVB), KB>>),
     Op("equals", <<Sym("k1", TSort("S")), Sym("k2", TSort("S"))>>),
     Op("equals", <<Sym("ak", TArray(TSort("S"), TReal)), Sym("ak2", TArray(TSort("S"), TReal))>>),
     App("g", TG1, <<Bb>>), Op("equals", <<App("f", TF1, <<Xx>>), Yy>>), Op("le", <<App("h", TH2, <<P, Sym("r", TReal)>>), RealC(<<0, 1>>)>>),
     Op("le", <<Op("minus", <<Xx, Yy>>), IntC(3)>>), Op("le", <<Op("plus", <<Xx, Yy>>), IntC(3)>>),
     Op("le", <<Op("minus", <<Sym("r", TReal), Sym("u", TReal)>>), RealC(<<3, 1>>)>>),
     Op("and", <<Op("le", <<Xx, Yy>>), Op("bv_ult", <<Bb, Cc>>)>>),
     Op("and", <<Op("le", <<Xx, Yy>>), Op("le", <<Sym("r", TReal), Sym("u", TReal)>>)>>),
     Op("ite", <<P, Op("bv_ult", <<Bb, Cc>>), Op("str_prefixof", <<Ss, Ss>>)>>),
     Op("equals", <<Op("ite", <<P, Xx, Op("str_length", <<Ss>>)>>), IntC(0)>>),
     Op("equals", <<Op("bv_concat", <<Bb, Cc>>), BVC(3, 4)>>) }

\* ---------------------------------------------------------------------------
\* equality of array LITERALS: two literals over a finite index sort denote the same array iff they agree at every
\* index - the defaults matter exactly as long as some index is unassigned.  n common entries (n = 0 .. all indices),
\* equal / different defaults, equal / one different entry; index sorts Bool, BV1, BV2, BV3 (8 indices) and Int.
IdxC(ity, j) == IF ity = TBool THEN BoolC(j = 1) ELSE IF ity = TInt THEN IntC(j) ELSE BVC(j, ity.w)
ArrLit(ity, d, n, twist) ==
    ArrV(ity, <<d>> \o FlattenSeq([j \in 1..n |-> <<IdxC(ity, j - 1), IF j = twist THEN IntC(7) ELSE IntC(j)>>]))
ArrEqTerms ==
    UNION {UNION {{Op("equals", <<ArrLit(ity, IntC(0), n, 0), ArrLit(ity, d2, n, tw)>>) : d2 \in {IntC(0), IntC(9)}, tw \in {0, n}}
                  : n \in 0..(IF ity = TInt THEN 4 ELSE IF ity = TBool THEN 2 ELSE Pow2(ity.w))}
           : ity \in {TBool, TBV(1), TBV(2), TBV(3), TInt}}
    \cup {Op("equals", <<ArrLit(TBV(3), IntC(0), n, 0), ArrLit(TBV(3), IntC(9), n + 1, 0)>>) : n \in 5..7}

Corpus == CASE Layer = "L1" -> L1_(0) [] Layer = "ARREQ" -> ArrEqTerms [] Layer = "L2" -> L2_(0) [] Layer = "LQ" -> LQ_(0)
            [] Layer = "G1" -> GroundCases(FALSE) [] Layer = "G1W" -> GroundCases(TRUE)
            [] Layer = "VALS" -> {ValPool} [] Layer = "LS" -> LSTerms [] Layer = "LG" -> LGTerms

VARIABLE done
Init == done = FALSE /\ LET c == SetToSeq(Corpus)
                         IN  ndJsonSerialize(IOEnv.OUT_FILE, c) /\ PrintT(<<"corpus", Layer, Len(c)>>)
Next == ~done /\ done' = TRUE
Spec == Init /\ [][Next]_done
=============================================================================
