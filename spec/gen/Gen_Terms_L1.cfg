SPECIFICATION Spec
CHECK_DEADLOCK FALSE
CONSTANTS
  Layer = "L1"
  NShards = 1
  Shard = 0
