SPECIFICATION Spec
CHECK_DEADLOCK FALSE
CONSTANTS
  Layer = "L2"
  NShards = 1
  Shard = 0
