SPECIFICATION Spec
CHECK_DEADLOCK FALSE
CONSTANTS
  Layer = "LQ"
  NShards = 1
  Shard = 0
