SPECIFICATION Spec
CONSTANT MaxLen = 3
INVARIANT OneObjectPerStructure
INVARIANT AccessorFidelity
INVARIANT TableInjective
INVARIANT CachesAgree
CHECK_DEADLOCK FALSE
