-------------------------------- MODULE MC_FM --------------------------------
EXTENDS FormulaManager, Json
Emit == Len(hist) = MaxLen => PrintT(ToJson(hist))
Names == [i \in 1..NCalls |-> Calls[i].name]
ASSUME PrintT(ToJson(Names))
=============================================================================
