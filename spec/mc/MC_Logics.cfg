SPECIFICATION Spec
CONSTANT Seed = 0
CHECK_DEADLOCK FALSE
INVARIANT Reflexive
INVARIANT Antisymmetric
INVARIANT Transitive
INVARIANT CombineUpperBound
INVARIANT CombineValid
INVARIANT OrderRespectsExpressiveness
