------------------------------ MODULE MC_Logics ------------------------------
(***************************************************************************)
(* Design check (A) for C13: the implementation-shaped TheoryLE /           *)
(* TheoryCombine (Logics.tla) form a partial order with upper bounds that   *)
(* respects Expressible.  All triples of valid theories over the seven      *)
(* interacting flags (ia, idl, ra, rdl, lin, a, ac) are initial states; the *)
(* five remaining flags are plain implications (product order) and are      *)
(* exercised by one representative (uf).                                    *)
(***************************************************************************)
EXTENDS Logics

BoolV == {TRUE, FALSE}
Ths == {th \in [a : BoolV, ac : BoolV, bv : {FALSE}, fp : {FALSE}, ia : BoolV, ra : BoolV, idl : BoolV,
                rdl : BoolV, lin : BoolV, uf : BoolV, ct : {FALSE}, st : {FALSE}] : ValidTheory(th)}

VARIABLES x, y, z
Init == x \in Ths /\ y \in Ths /\ z \in Ths
Next == UNCHANGED <<x, y, z>>
Spec == Init /\ [][Next]_<<x, y, z>>

Reflexive == TheoryLE(x, x)
Antisymmetric == TheoryLE(x, y) /\ TheoryLE(y, x) => x = y
Transitive == TheoryLE(x, y) /\ TheoryLE(y, z) => TheoryLE(x, z)
CombineUpperBound == TheoryLE(x, TheoryCombine(x, y)) /\ TheoryLE(y, TheoryCombine(x, y))
CombineValid == ValidTheory(TheoryCombine(x, y))
OrderRespectsExpressiveness == TheoryLE(x, y) => Expressible(x, TRUE) \subseteq Expressible(y, TRUE)
=============================================================================
