SPECIFICATION Spec
CONSTANTS
  N = 3
  ExitOnException = TRUE
  DetectAllFailed = TRUE
INVARIANT Agreement
INVARIANT RaisesOnlyIfNobodyAnswered
INVARIANT NoLoserConsumesCtrl
PROPERTY SolveReturns
CHECK_DEADLOCK FALSE
