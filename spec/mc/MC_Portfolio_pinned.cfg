SPECIFICATION Spec
CONSTANTS
  Rounds = 2
  FreshQueuePerSolve = TRUE
  N = 3
  ExitOnException = FALSE
  DetectAllFailed = FALSE
INVARIANT Agreement
INVARIANT RaisesOnlyIfNobodyAnswered
INVARIANT NoLoserConsumesCtrl
PROPERTY SolveReturns
PROPERTY AnswerIfSomeoneAnswers
CHECK_DEADLOCK FALSE
