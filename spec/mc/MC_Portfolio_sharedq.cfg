SPECIFICATION Spec
CONSTANTS
  Rounds = 2
  FreshQueuePerSolve = FALSE
  N = 3
  CacheModelByWinner = FALSE
  ExitOnException = FALSE
  DetectAllFailed = TRUE
INVARIANT Agreement
INVARIANT RaisesOnlyIfNobodyAnswered
INVARIANT NoLoserConsumesCtrl
INVARIANT ModelIsCurrent
PROPERTY SolveReturns
PROPERTY AnswerIfSomeoneAnswers
CHECK_DEADLOCK FALSE
