SPECIFICATION Spec
CONSTANTS
  Rounds = 2
  FreshQueuePerSolve = FALSE
  N = 3
  ExitOnException = FALSE
  DetectAllFailed = TRUE
INVARIANT Agreement
INVARIANT RaisesOnlyIfNobodyAnswered
INVARIANT NoLoserConsumesCtrl
PROPERTY SolveReturns
PROPERTY AnswerIfSomeoneAnswers
CHECK_DEADLOCK FALSE
