----------------------------- MODULE MC_Rewriters -----------------------------
(***************************************************************************)
(* Design check (A) for C10: every formula of a TLC-generated layer of      *)
(* Gen_Bool is an initial state; one step applies the rule model of the     *)
(* NNFizer, of the AIGer or of the PrenexNormalizer; the invariant is the abstract RewriteContract   *)
(* (advertised shape, same type, no new free symbol, same value under every *)
(* enumerated interpretation and quantification domain).                    *)
(***************************************************************************)
EXTENDS Rewriters

CONSTANTS WhichLayer

G == INSTANCE Gen_Bool WITH Layer <- WhichLayer, NShards <- 1, Shard <- 0, done <- FALSE

VARIABLES t, proc, out, pc
Init == t \in G!Corpus /\ proc \in {"nnf", "aig", "prenex"} /\ out = t /\ pc = "in"
Next == pc = "in" /\ out' = RewrModel(proc, t) /\ pc' = "out" /\ UNCHANGED <<t, proc>>
Spec == Init /\ [][Next]_<<t, proc, out, pc>>

Ev == [f |-> t, proc |-> proc, out |-> out, parts |-> <<>>, rty |-> TypeOf(out), res |-> "ok"]
ModelMeetsContract == pc = "out" => RewriteContract(Ev).fail = <<>>
\* the model is not the identity: somewhere it rewrites (vacuity guard, checked by the driver on the counts)
=============================================================================
