SPECIFICATION Spec
CONSTANTS
  WhichLayer = "L1"
  Part = 0
  Parts = 1
  Seed = 0
  Cap = 32
INVARIANT RulesPreserveMeaning
INVARIANT GroundTermsFoldToConstants
CHECK_DEADLOCK FALSE
