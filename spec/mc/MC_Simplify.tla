------------------------------ MODULE MC_Simplify ------------------------------
(***************************************************************************)
(* Design check (A) for C01 / C02: every term of the TLC-generated layers   *)
(* is an initial state; one step applies the rule model Simp; the invariant *)
(* is the abstract contract SimplifyContract (same sort, no new free        *)
(* symbol, same value under every enumerated interpretation), and for       *)
(* ground UF-free terms that the rules fold to a constant (completeness of  *)
(* constant folding, the design-level content of C02).                      *)
(***************************************************************************)
EXTENDS Simplifier

CONSTANTS WhichLayer, Part, Parts

G == INSTANCE Gen_Terms WITH Layer <- WhichLayer, NShards <- 1, Shard <- 0, done <- FALSE

Inputs == IF Parts = 1 THEN G!Corpus
          ELSE LET sq == SetToSeqBy(G!Corpus) IN {sq[i] : i \in {i \in 1..Len(sq) : i % Parts = Part}}

VARIABLES t, out, pc
Init == t \in Inputs /\ out = t /\ pc = "in"
\* both placements of a product's constant factor (it depends on creation order in the code) are explored
Next == pc = "in" /\ out' \in {Simp(t), SimpAlt(t)} /\ pc' = "out" /\ UNCHANGED t
Spec == Init /\ [][Next]_<<t, out, pc>>

Ev == [in |-> t, out |-> out, rin |-> TypeOf(t), rout |-> TypeOf(out)]
\* inputs the pySMT constructors reject (division by the constant zero of an Int ...) are still terms of the model
RulesPreserveMeaning == pc = "out" => SimplifyContract(Ev).fail = <<>>
RECURSIVE Ground(_)
Ground(u) == u.op \notin {"symbol", "function", "forall", "exists"} /\ \A j \in 1..Len(u.a) : Ground(u.a[j])
GroundTermsFoldToConstants ==
    (pc = "out" /\ Ground(t) /\ ~DivZero(t, EmptyMap, QDefault) /\ ~HasOp(t, {"pow"})) => IsC(out) \/ IsConstArr(out)
=============================================================================
