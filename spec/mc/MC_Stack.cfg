SPECIFICATION Spec
CONSTANTS
  Cmds <- MCCmds
  MaxLen = 6
INVARIANT TracksLiveAssertions
INVARIANT PopIsSafe
CHECK_DEADLOCK FALSE
