------------------------------- MODULE MC_Stack -------------------------------
(* Design check (A) for C16: all command histories up to MaxLen over the tracking-solver model *)
EXTENDS TrackingSolver
C(c, x, n) == [c |-> c, x |-> x, n |-> n, id |-> ""]
MCCmds == {C("assert", 1, 0), C("assert", 2, 0), C("push", 0, 0), C("push", 0, 1), C("push", 0, 2),
           C("pop", 0, 0), C("pop", 0, 1), C("pop", 0, 2), C("reset", 0, 0), C("solve", 0, 0),
           C("is_sat", 3, 0), C("is_valid", 4, 0)}
=============================================================================
