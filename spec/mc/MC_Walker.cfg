SPECIFICATION Spec
CONSTANTS
  N = 4
  MaxFan = 2
  OneShot = FALSE
  CleanOnFailure = TRUE
  MaxWalks = 2
INVARIANT VisitOnce
INVARIANT PushBound
INVARIANT VisitsOnlyReachable
INVARIANT FailureTransparent
INVARIANT ChildrenFirst
PROPERTY WalkTerminates
CHECK_DEADLOCK FALSE
