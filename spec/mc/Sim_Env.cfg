SPECIFICATION Spec
CONSTANTS
  NGood = 23
  NFail = 0
  MaxLen = 8
  MinFail = 0
CONSTRAINT Emit
CHECK_DEADLOCK FALSE
