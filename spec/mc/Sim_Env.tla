------------------------------- MODULE Sim_Env -------------------------------
(* Random long call histories of the Environment machine (tlc -simulate) *)
EXTENDS Environment, Json
Emit == Len(hist) = MaxLen => PrintT(ToJson(hist))
=============================================================================
