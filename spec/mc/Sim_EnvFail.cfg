SPECIFICATION Spec
CONSTANTS
  NGood = 6
  NFail = 32
  MaxLen = 7
  MinFail = 1
CONSTRAINT Emit
CHECK_DEADLOCK FALSE
