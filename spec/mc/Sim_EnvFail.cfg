SPECIFICATION Spec
CONSTANTS
  NGood = 5
  NFail = 23
  MaxLen = 7
  MinFail = 1
CONSTRAINT Emit
CHECK_DEADLOCK FALSE
