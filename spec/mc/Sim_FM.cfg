SPECIFICATION Spec
CONSTANT MaxLen = 7
CONSTRAINT Emit
INVARIANT OneObjectPerStructure
INVARIANT AccessorFidelity
CHECK_DEADLOCK FALSE
