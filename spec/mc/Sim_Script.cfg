SPECIFICATION Spec
CONSTANTS
  Cmds <- SimScriptCmds
  MaxLen = 14
CONSTRAINT Emit
INVARIANT TypeOK
INVARIANT NoResurrection
CHECK_DEADLOCK FALSE
