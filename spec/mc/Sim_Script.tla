------------------------------ MODULE Sim_Script ------------------------------
(* Random long histories of the abstract assertion stack (tlc -simulate); every behaviour that
   reaches MaxLen commands prints its history as JSON. *)
EXTENDS SmtLibScript, Json
SA == INSTANCE StackAlphabets
SimScriptCmds == SA!ScriptCmds
SimSolverCmds == SA!SolverCmds
SimSlsCmds == SA!SlsCmds
Emit == Len(hist) = MaxLen => PrintT(ToJson(hist))
=============================================================================
