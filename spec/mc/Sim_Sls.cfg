SPECIFICATION Spec
CONSTANTS
  Cmds <- SimSlsCmds
  MaxLen = 10
CONSTRAINT Emit
INVARIANT TypeOK
CHECK_DEADLOCK FALSE
