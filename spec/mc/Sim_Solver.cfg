SPECIFICATION Spec
CONSTANTS
  Cmds <- SimSolverCmds
  MaxLen = 14
CONSTRAINT Emit
INVARIANT TypeOK
CHECK_DEADLOCK FALSE
