SPECIFICATION Spec
CONSTANTS
  Vals <- ValsU2
  NM = 3
  Kind = "ubv"
  Width = 2
  Goal = "min"
  Strategy = "linear"
  Mode = "pareto"
  CleanupOnLexSuccess = TRUE
INVARIANT CutsRepresentable
INVARIANT NoneIffUnsat
INVARIANT ResultIsOptimum
INVARIANT StackRestored
PROPERTY Termination
CHECK_DEADLOCK FALSE
