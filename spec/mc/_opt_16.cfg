SPECIFICATION Spec
CONSTANTS
  Vals <- ValsInt
  NM = 3
  Kind = "int"
  Width = 2
  Goal = "min"
  Strategy = "linear"
  Mode = "pareto"
  CleanupOnLexSuccess = TRUE
INVARIANT CutsRepresentable
INVARIANT NoneIffUnsat
INVARIANT ResultIsOptimum
INVARIANT StackRestored
PROPERTY Termination
CHECK_DEADLOCK FALSE
