SPECIFICATION Spec
CONSTANTS
  Vals <- ValsU2
  NM = 3
  Kind = "ubv"
  Width = 2
  Goal = "max"
  Strategy = "binary"
  Mode = "lex"
  CleanupOnLexSuccess = TRUE
INVARIANT CutsRepresentable
INVARIANT NoneIffUnsat
INVARIANT ResultIsOptimum
INVARIANT StackRestored
PROPERTY Termination
CHECK_DEADLOCK FALSE
