----------------------------- MODULE Trace_Pure -----------------------------
(***************************************************************************)
(* Trace validator for independent events of pure operations.               *)
(* The trace file (IOEnv.TRACE_FILE) is {"hdr": .., "ev": [event, ...]}.    *)
(* One step per event; an event never blocks the trace: its verdict is      *)
(* printed (only if it fails or a clause had to be skipped) and the next    *)
(* event is examined, so one failure never hides the remaining events.      *)
(***************************************************************************)
EXTENDS SmtLibContracts, Json, IOUtils

Trace == JsonDeserialize(IOEnv.TRACE_FILE)
Ev == Trace.ev

VARIABLE l

Check(e) ==
    CASE e.kind = "simplify" -> SimplifyContract(e)
      [] e.kind = "create" -> CreateContract(e)
      [] e.kind = "getvalue" -> GetValueContract(e)
      [] e.kind = "derived" -> DerivedContract(e)
      [] e.kind = "analyses" -> AnalysesContract(e)
      [] e.kind = "subst" -> SubstContract(e)
      [] e.kind = "rewrite" -> RewriteContract(e)
      [] e.kind = "cnf" -> CnfContract(e)
      [] e.kind = "detect" -> DetectContract(e)
      [] e.kind = "solver_stream" -> SolverStreamContract(e)
      [] e.kind = "print_term" -> PrintTermContract(e)
      [] e.kind = "print_script" -> PrintScriptContract(e)
      [] e.kind = "parse" -> ParseContract(e)
      [] e.kind = "smt_roundtrip" -> SmtRoundTripContract(e)
      [] e.kind = "script_roundtrip" -> ScriptRoundTripContract(e)
      [] e.kind = "hr_roundtrip" -> HRRoundTripContract(e)
      [] e.kind = "portfolio" -> PortfolioContract(e)
      [] e.kind = "opt" -> OptContract(e)
      [] e.kind = "twin" -> TwinContract(e)
      [] e.kind = "walk" -> WalkTraceContract(e)
      [] e.kind = "scale" -> ScaleContract(e)
      [] e.kind = "fm_hist" -> FMHistoryContract(e)
      [] e.kind = "normalize" -> NormalizeContract(e)
      [] e.kind = "script_hist" -> ScriptHistoryContract(e)
      [] e.kind = "solver_hist" -> SolverHistoryContract(e)
      [] e.kind = "order" -> OrderContract(e)
      [] e.kind = "combine" -> CombineContract(e)
      [] e.kind = "closer" -> CloserContract(e, Trace.hdr)
      [] e.kind = "mostgeneric" -> MostGenericContract(e, Trace.hdr)
      [] e.kind = "factory" -> FactoryContract(e, Trace.hdr)
      [] e.kind = "bigarith" -> BigArithContract(e)
      [] e.kind = "bigbv" -> BigBVContract(e)
      [] e.kind = "ack" -> AckContract(e)
      [] OTHER -> Verdict(<<"unknown_event_kind">>, <<>>, -1)

Report(e) ==
    LET v == Check(e)
    IN  IF v.fail = <<>> /\ v.skip = <<>> THEN TRUE
        ELSE PrintT(ToJson([id |-> e.id, fail |-> v.fail, skip |-> v.skip, wit |-> v.wit]))

TraceInit == l = 0
TraceNext == l < Len(Ev) /\ l' = l + 1 /\ Report(Ev[l'])
TraceSpec == TraceInit /\ [][TraceNext]_l
=============================================================================
