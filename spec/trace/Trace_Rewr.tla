----------------------------- MODULE Trace_Rewr -----------------------------
(***************************************************************************)
(* Rule-level conformance of pysmt.rewritings.NNFizer / AIGer to the rule   *)
(* models of Rewriters.tla: one step per recorded (proc, f, out); the       *)
(* recorded output must be the model's output up to the order of            *)
(* commutative arguments.  A difference is MODEL DRIFT, not a violation:    *)
(* the property is decided by RewriteContract on the same event.            *)
(***************************************************************************)
EXTENDS Rewriters, Json, IOUtils

Trace == JsonDeserialize(IOEnv.TRACE_FILE)
Ev == Trace.ev

VARIABLE l

Names(t) == {x.n : x \in AllSyms(t)}
Report(e) ==
    LET m == RewrModel(e.proc, e.f)
        \* the prenexer introduces fresh symbols: the code's and the model's agree up to a bijection of their names
        fc == Names(e.out) \ Names(e.f)
        fm == Names(m) \ Names(e.f)
        same == IF e.proc = "prenex"
                THEN ~QuantInBoolPositionsOnly(e.f) \/ \E b \in Bijections(fc, fm) : ACEq(RenameSyms(e.out, b), m)
                ELSE IF e.proc = "cnf"
                THEN Cardinality(fc) > 5 \/ \E b \in Bijections(fc, fm) : ACEq(RenameSyms(e.out, b), m)    \* (5! renamings at most)
                ELSE ACEq(m, e.out)
    IN  IF same THEN TRUE
        ELSE PrintT(ToJson([id |-> e.id, fail |-> <<"MODEL-DRIFT">>, skip |-> <<>>, wit |-> -1, model |-> m]))

TraceInit == l = 0
TraceNext == l < Len(Ev) /\ l' = l + 1 /\ Report(Ev[l'])
TraceSpec == TraceInit /\ [][TraceNext]_l
=============================================================================
