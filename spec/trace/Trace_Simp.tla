----------------------------- MODULE Trace_Simp -----------------------------
(***************************************************************************)
(* Rule-level conformance of pysmt.simplifier to the rule model             *)
(* Simplifier.tla: one step per recorded (in, out) pair of the real         *)
(* simplifier; the recorded output must be the model's output Simp(in) up   *)
(* to the order of commutative arguments (ACEq).  A difference is MODEL     *)
(* DRIFT (the code and the rule model disagree on which rule fires), not a  *)
(* property violation: the property itself is decided by SimplifyContract   *)
(* on the same pair (Trace_Pure) and by MC_Simplify on the rule model.      *)
(***************************************************************************)
EXTENDS Simplifier, Json, IOUtils

Trace == JsonDeserialize(IOEnv.TRACE_FILE)
Ev == Trace.ev

VARIABLE l

Report(e) ==
    LET m == Simp(e.in)
    IN  IF ACEq(m, e.out) \/ ACEq(SimpAlt(e.in), e.out) THEN TRUE
        ELSE PrintT(ToJson([id |-> e.id, fail |-> <<"MODEL-DRIFT">>, skip |-> <<>>, wit |-> -1, model |-> m]))

TraceInit == l = 0
TraceNext == l < Len(Ev) /\ l' = l + 1 /\ Report(Ev[l'])
TraceSpec == TraceInit /\ [][TraceNext]_l
=============================================================================
