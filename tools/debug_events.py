#!/usr/bin/env python3
"""Validate the events of a JSON file ({"ev":[...]} or a replay file) one by one and show TLC's full error."""
import json, sys, os, tempfile
sys.path.insert(0, os.path.dirname(os.path.dirname(os.path.abspath(__file__))))
from harness import tlc
d = json.load(open(sys.argv[1]))
evs = d["ev"] if "ev" in d else [d["case"]["event"]]
hdr = d.get("hdr", {})
for e in evs[: int(sys.argv[2]) if len(sys.argv) > 2 else 3]:
    e.setdefault("id", 0)
    tf = tempfile.mktemp(suffix=".json")
    json.dump({"hdr": hdr, "ev": [e]}, open(tf, "w"))
    cfg = tempfile.mktemp(suffix=".cfg")
    open(cfg, "w").write("SPECIFICATION TraceSpec\nCHECK_DEADLOCK FALSE\nCONSTANTS\n  Seed = 0\n  Cap = 16\n")
    r = tlc.run("trace/Trace_Pure", cfg=cfg, env={"TRACE_FILE": tf}, workers=1)
    print("event", e.get("id"), e.get("kind"), "->", r.printed() or "", (r.error or "")[:1800])
