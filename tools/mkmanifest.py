#!/usr/bin/env python3
"""Regenerates MANIFEST.json from the table below (single place to edit)."""
import json
import os

HERE = os.path.dirname(os.path.dirname(os.path.abspath(__file__)))
props = [json.loads(l) for l in open(os.path.join(HERE, "properties.jsonl"))]

TECH = "explicit TLA+ specification checked with TLC; "
CLAIMS = {
 "C01": dict(
  text="TLC enumerates the input space (every operator x every leaf tuple of a per-sort pool, all two-operator compositions, quantifier shapes); every real simplify() result is validated by TLC against the TLA+ contract SimplifyContract (TypeOf, FreeSyms, Eval under bounded interpretations, division-by-zero left unconstrained). Bounded-exhaustive with an independent executable semantics as oracle. (A) MC_Simplify: TLC checks that the implementation-shaped rule model spec/Simplifier.tla (one rule per walk_* method) satisfies SimplifyContract and folds ground terms to constants on every term of the enumerated layers; Trace_Simp binds the code to the rule model rule by rule (out = Simp(in) up to commutative-argument order, differences reported as MODEL-DRIFT).",
  note="TLA+ transcription of SMT-LIB semantics (SmtEval), exporter harness/term_io.py, bounded carriers per sort, BV width <= 15 for value checks",
  tech=TECH + "TLC-generated inputs replayed into pySMT, (in,out) traces validated by TLC against the contract", ref="DESIGN.md 3 C01"),
 "C03": dict(
  text="TLC enumerates operator applications over a sort universe (well- and ill-typed, payload grids); every constructor outcome is validated by TLC against CreateContract: a returned formula must be derivable by TypeRule with the reported sort, and an application TypeRule rejects must raise. Output well-typedness of every transformation is a clause of every other contract.",
  note="TypeRule (SmtTypes.tla) written from SMT-LIB and pySMT's documented specifics; function-typed symbols are never arguments",
  tech=TECH + "TLC-enumerated applications replayed on FormulaManager, outcomes validated by TLC against TypeRule", ref="DESIGN.md 3 C03"),
 "C02": dict(
  text="TLC enumerates operator tables (every non-UF operator x every value tuple of the value pools; bit-vector operators at every operand value for width <= 3 quick / <= 5 thorough) and two-operator compositions; every EagerModel.get_value / satisfies outcome (total and partial models, with and without completion) is validated by TLC against GetValueContract, whose oracle is the TLA+ Eval. Constants beyond 32 bits and bit-vectors of width 32-128 are validated against school-book arbitrary-precision reference arithmetic written in TLA+ (BigNat.tla); the plural entry points and a re-used model object are alternative spellings of the same question.",
  note="TLA+ Eval transcription of SMT-LIB operator semantics; value pools bounded (Int -7..7, 9 rationals, 12 strings, 4+2 constant arrays)",
  tech=TECH + "TLC-enumerated (formula, assignment) tables replayed on EagerModel, outcomes validated by TLC against Eval", ref="DESIGN.md 3 C02"),
 "C06": dict(
  text="TLC enumerates derived constructor / infix operator x arity x argument shape (incl. Python literals to be promoted, reflected operators, varargs vs list); each built formula is validated by TLC to denote Derived!Named(name) of its arguments under every interpretation of the argument symbols (exhaustive for Bool and BV width <= 3).",
  note="Derived.tla states the mathematical function per constructor (bvsmod by the mathematical definition, min/max by order, etc.); Int/Real arguments range over carriers",
  tech=TECH + "TLC-enumerated constructions replayed on FormulaManager/FNode operators, validated by TLC against the named function", ref="DESIGN.md 3 C06"),
 "C05": dict(
  text="TLC enumerates (term, substitution map) pairs incl. nested/shadowing binders, sub-term keys, overlapping keys, capturing replacements; both real substituters and the function-interpretation path are run and every result is validated by TLC against SubstContract: exact equality with the reference MGS/MSS functions of Substitution.tla, the semantic substitution lemma (Eval) for capture-free symbol maps, interpreted-symbol elimination. Chained maps (keys that only exist after another replacement) separate the two strategies; a binary interpreted function checks simultaneous binding of the formals.",
  note="Substitution.tla reference semantics; capture-freedom decided conservatively; interpretations bounded by carriers",
  tech=TECH + "TLC-enumerated (term,map) pairs replayed on MGSubstituter/MSSubstituter, results validated by TLC against reference MGS/MSS and the substitution lemma", ref="DESIGN.md 3 C05"),
 "C12": dict(
  text="TLC-generated terms (all operators, quantifier shapes incl. shadowing, custom/composite sorts, Boolean terms nested in theory terms) are analysed by the real oracles; TLC validates free symbols, atoms, qf-ness, sorts, and all six size measures against the structural definitions in SmtSyntaxFns.tla, plus the two semantic consequences (value depends only on reported free symbols; truth is a function of reported atoms) with Eval.",
  note="SmtSyntaxFns.tla definitions; semantic consequences over bounded interpretations",
  tech=TECH + "TLC-generated terms analysed by pySMT oracles, reports validated by TLC against structural definitions and Eval", ref="DESIGN.md 3 C12"),
 "C10": dict(
  text="TLC enumerates Boolean structure over theory atoms (depth <= 3, all connectives in both polarities, constants, binders over Bool / BV / Int incl. nested, shadowing, free-and-bound), arithmetic terms and equality conjunctions; nnf, prenex, aig, TimesDistributor, the partitions, propagate_toplevel and both Boolean quantifier eliminators are run and every result is validated by TLC against RewriteContract: equivalence under every interpretation (Eval; Bool/BV binders exact) plus the advertised shape predicates of NormalForms.tla. Rule models of the NNFizer, the AIGer and the PrenexNormalizer (Rewriters.tla: NnfM, AigM, PrenexM) are model-checked against the same contract on whole layers (MC_Rewriters) and bound to the code by Trace_Rewr (outputs equal up to commutative order and a bijection of fresh names; differences are MODEL-DRIFT).",
  note="NormalForms.tla shape predicates; Int binders over three finite domains; interpretations bounded by carriers",
  tech=TECH + "TLC-enumerated formulas rewritten by pySMT, results validated by TLC for equivalence (Eval) and shape", ref="DESIGN.md 3 C10"),
 "C11": dict(
  text="TLC enumerates quantifier-free Boolean structure (constants in every position, ite/iff, shared sub-formulas) and UF formulas with nested/repeated applications; cnf, cnf_as_set, PolarityCNFizer and Ackermannizer outputs are validated by TLC: shape (IsCNF / NoUF) and the two-way model correspondence with fresh symbols enumerated exhaustively and, for Ackermannization, function tables read off the ack constants. Converter objects are also reused over sequences of formulas.",
  note="fresh-symbol space enumerated up to 4096 combinations; original symbols over bounded carriers",
  tech=TECH + "TLC-enumerated formulas converted by pySMT, model-by-model equisatisfiability validated by TLC with Eval", ref="DESIGN.md 3 C11"),
 "C13": dict(
  text="(A) TLC model-checks the implementation-shaped TheoryLE/TheoryCombine over all triples of valid theories of the interacting flags: partial order, combine is an upper bound, order respects Expressible. (B/C) real get_logic/get_theory results on TLC-generated formulas are validated against the independent feature extraction Features() (bound-variable sorts, operator families, non-linearity, const arrays, custom sorts, quantifiers); the real <= on all named logics (dumped from the code at check time), combine on the closure of reachable theories, and get_closer_logic/most_generic_logic on enumerated supported-logic subsets are validated by TLC against the order axioms and selection contracts. Factory.get_solver is replayed on solver doubles that only declare LOGICS (random solver tables, preference lists, named / unnamed requests) and validated by FactoryContract, a refinement of the closest-logic contract: the solver instantiated supports the request, is the first supporting one of the preference list, and is handed its closest logic.",
  note="Features()/Expressible() of Logics.tla; arithmetic beyond difference logic is derived from the linear form of the atoms (LinOf / BeyondDifference); NoLogicAvailableError is an allowed answer of get_logic",
  tech=TECH + "design model checking of the order + trace validation of recorded detection / order / selection results", ref="DESIGN.md 3 C13"),
 "C16": dict(
  text="(A) TLC explores every command history (length <= 6) of the implementation-shaped TrackingSolver model (pending_pop, backtrack points, clear_pending_pop decorator) and checks it refines the abstract SMT-LIB assertion stack. (B/C) all legal histories of the abstract machine up to length 3-4 (plus TLC-simulated histories of length 14) are replayed into real SmtLibScript objects built by the real parser (get_last_formula with goals read for every prefix) and into real IncrementalTrackingSolver subclasses incl. the in-tree Portfolio; every observation is validated by TLC against the abstract state (live assertions, live objectives, soft groups). Assert commands are also issued through add_assertions with lists, generators and iterators.",
  note="AssertionStack.tla is the SMT-LIB assertion-stack semantics with objectives / soft assertions scoped by level; solver doubles have no-op _push/_pop/_solve",
  tech=TECH + "design model checking (refinement) + TLC-enumerated histories replayed into scripts/solvers, observations validated by TLC", ref="DESIGN.md 3 C16"),
 "C04": dict(
  text="(A) TLC explores all histories of constructor calls (93 documented spellings / normalisations incl. the infix / method routes and lazy iterables, length <= 3) in the implementation-shaped FormulaManager model (node table keyed by content, caches keyed by Python value equality) and checks OneObjectPerStructure, AccessorFidelity, TableInjective, CachesAgree. (B/C) TLC-enumerated (all singles, ordered pairs) and TLC-simulated (length 7) call histories are replayed in fresh Environments interleaved with unrelated constructions; identity classes and accessor read-back after every call are validated by TLC against the denotations of FMCalls.tla. normalize() into a second environment is validated for structural identity, no shared FNode objects, membership in the target manager. Numbers beyond TLC's 32-bit integers (2^60, the double nearest to 1/3) are denoted symbolically by their exact spelling; one long-lived target environment receives the copies of every source environment.",
  note="FMCalls.tla denotations are the documented spellings/normalisations; array-value assignment order (by object address) is abstracted by key-sorting",
  tech=TECH + "design model checking of the hash-consing state machine + TLC-generated call histories replayed on FormulaManager, identity/read-back validated by TLC", ref="DESIGN.md 3 C04"),
 "C20": dict(
  text="(A) TLC model-checks the implementation-shaped DagWalker machine (explicit stack, memo, expand/compute phases, failure path, one-shot memo) for every rooted DAG shape (4 nodes quick / 5 thorough, fan-out <= 2): VisitOnce, PushBound, ChildrenFirst, FailureTransparent and termination (liveness under weak fairness); the pre-fix configuration must yield the known counterexample (vacuity guard). (B/C) the same shapes, instantiated with every nestable operator family, are fed to the real walkers whose per-instance function tables are wrapped from outside; TLC validates every logged callback sequence (each node at most K times, children first, only and all reachable nodes). Scaling families beyond TLC's reach (20,000-deep chains, 2^60-tree diamonds) are run through construction, simplify, substitute, oracles, get_logic, rewriters, DAG printing and re-parsing and validated for success and callbacks <= K * distinct nodes. Expansions (pops of unexpanded stack entries) are logged by wrapping _push_with_children_to_stack and bounded by the incoming edges; theory DAGs are also walked below an atom by the Boolean-level walkers. Collections built by callbacks, all six size measures and one full-depth chain are part of the quick tier.",
  note="the absolute nesting depth reached is an observation on the interpreter; the algorithmic claims (visit-once, no per-level recursion) are model-checked and trace-validated. While the parser reads chains of define-fun the callbacks of the environment's type checker, substituter and simplifier are counted; rejecting an application on top of a 40-level diamond must not walk the tree expansion.",
  tech=TECH + "design model checking of the walker machine over all DAG shapes + trace validation of real callback sequences and scaling runs", ref="DESIGN.md 3 C20"),
 "C14": dict(
  text="Abstract spec (Environment.tla): every query/transformation is a pure function of its arguments; the state kept between calls is unobservable. (A) MC_Walker checks memo reuse across consecutive walks on a long-lived walker over every DAG shape. (B/C) TLC enumerates call histories (all sequences of length <= 2 over a 23-call alphabet, simulated length 8); each is run in one environment followed by a 30-probe suite (two execution orders), the suite alone in a fresh twin; TLC validates pairwise equality up to commutative-argument order and a bijection of fresh names (ACEq / Bijections in TLA+), and that repeating a formula-valued call returns the very same object. A TLC-generated shared-subterm family (one term per two-operator shape: all analyses of T, then of T's sub-terms and T again, vs a fresh twin that only built T) exposes oracles that mutate memoised result objects.",
  note="harness/envcalls.py call catalogue (4 formulas sharing sub-DAGs); raw Theory objects are probed to expose aliasing of memoised values",
  tech=TECH + "TLC-enumerated call histories replayed against twin environments, results validated by TLC up to AC / fresh-name equality", ref="DESIGN.md 3 C14"),
 "C15": dict(
  text="(A) MC_Walker: FailureTransparent over every DAG shape and failing node in the implementation-shaped walker machine (the configuration without the clean-up yields the counterexample of the repaired defect). (B/C) TLC enumerates fault histories (all sequences of length <= 3 over 5 good + 16 failing calls with >= 1 failing call, simulated length 7); each runs on environment A, the history minus the failing calls on twin B, followed by a 20-probe suite incl. reused parser / substituter / simplifier objects; TLC validates that A and B answer every probe identically (up to AC order / fresh names). A catalogue call that fails in a fresh environment must fail whatever was called before it.",
  note="failing-call classes of harness/envcalls.py: ill-typed construction, sort-breaking substitution at 5 depths, exception inside a walk, unsupported node/operator, undefined symbol, malformed SMT-LIB, HR syntax error",
  tech=TECH + "TLC-enumerated fault histories replayed on twin environments, probe results validated by TLC", ref="DESIGN.md 3 C15"),
 "C18": dict(
  text="(A) TLC model-checks the implementation-shaped optimizer (OptSearchInterval bounds/pivot arithmetic, _optimize linear and binary search, min/max, Int / unsigned / signed BV objectives, lexicographic wrapper, Pareto loop) over a nondeterministic satisfiability oracle: every Sat subset of the model space, every objective valuation, every sequence of answers; termination (liveness, weak fairness), result = optimum / lexicographic optimum / exact Pareto front, None iff unsat, cuts representable, stack restored; the model of the pinned lexicographic wrapper must leak a level (vacuity guard). (B/C) the real SUA and incremental mixins run on a brute-force oracle over 8 finite-domain systems x goal kinds (incl. MinMax/MaxMin/MaxSMT) x {linear,binary} x adversarial oracle policies; TLC validates every oracle answer with Eval and the final outcome against the optimum it computes itself, plus the assertion stack before/after. Pareto fronts are also computed for every bit-vector system x signed/unsigned x min/max pairs from worst / first / last starting candidates.",
  note="real-valued bisection excluded as in the property; oracle answers re-validated by TLC; routines are run under a 20 s limit (non-termination is reported as a violation)",
  tech=TECH + "design model checking over a nondeterministic oracle + real optimizer runs on a brute-force oracle validated by TLC", ref="DESIGN.md 3 C18"),
 "C19": dict(
  text="(A) TLC model-checks parent, 3 member processes, the signalling queue and the single shared control pipe for every member-behaviour vector (answer / raise-or-unknown / crash before posting / crash after posting) and every interleaving: Agreement, NoLoserConsumesCtrl, RaisesOnlyIfNobodyAnswered, liveness SolveReturns and AnswerIfSomeoneAnswers under weak fairness; the model of the pinned code must yield the blocking counterexample. (B/C) TLC-enumerated schedules (behaviour vector x release order x members released while the winner is being selected x near-ties) are replayed on the real Portfolio with real forked processes whose completion is gated; blocking is decided structurally (parent inside solve, every member dead, queue empty); TLC validates verdict, error-instead-of-blocking, that only the winner serves control commands, and the model/value against the assertions with Eval, over one or two consecutive solves. The model covers two consecutive solves with a freshly chosen verdict; the design alternative with one signalling queue for the object's life must yield the stale-answer counterexample (vacuity guard), and the replayed two-solve runs change the assertions and the verdict between the solves.",
  note="fake member solvers registered in the environment's factory; the gating wrappers around multiprocessing.Process/Queue only delay and log; get_model on a winner that died after posting is outside the property",
  tech=TECH + "design model checking of the process/queue/pipe protocol (safety + liveness) + TLC-enumerated schedules replayed on real forked processes, outcomes validated by TLC", ref="DESIGN.md 3 C19"),
 "C07": dict(
  text="TLC-generated formulas (all operators, indexed operators, negative/rational constants, strings with quotes, constant arrays, quantifiers, custom and parametric sorts) and variants whose symbols are renamed to names that need quoting or clash with the printer's own let names are printed by to_smtlib (tree and let-DAG form) and smtlibscript_from_formula+serialize; the produced TEXT is read by an independent SMT-LIB reader and validated by TLC against the meaning of SMT-LIB text defined in SmtLibSyntax.tla (elaboration per the standard: operator spellings/argument orders, indexed identifiers, parallel let, binder scoping, declarations before use): well-formed, symbols declared with their sorts, same sort, same value under every interpretation. Huge constants: the printed numerals are compared digit by digit with the constants (BigArithContract).",
  note="harness/sexpr.py reader and SmtLibSyntax.tla elaboration are written from the SMT-LIB 2.6 standard, independent of pysmt.smtlib; Pow has no SMT-LIB spelling and is outside the claim; NoLogicAvailableError from script creation is an allowed answer",
  tech=TECH + "TLC-generated formulas printed by pySMT, text validated by TLC against an SMT-LIB semantics in TLA+", ref="DESIGN.md 3 C07"),
 "C08": dict(
  text="TLC enumerates SMT-LIB scripts as S-expressions by construct family x syntactic variant (parallel/nested/shadowing let, binders, define-fun with static scoping and capture situations, numerals under different logics, literals in every notation, indexed operators, chainable/pairwise/left-/right-assoc operators, arrays, strings, annotations, push/pop, declare-sort/define-sort, OMT commands, malformed variants, truncations); the real SmtLibParser reads their text; TLC elaborates the same S-expressions with the SMT-LIB semantics of SmtLibSyntax.tla and validates: commands one-to-one, same sort and same value of every returned term under every interpretation, ill-formed text rejected, accepted-today baseline still accepted.",
  note="SmtLibSyntax.tla elaboration; spec/gen/accept_baseline.json generated from the repaired tree; four genuine defects are recorded as known findings (sequential let, capture, undeclared symbol as string, duplicate let binder)",
  tech=TECH + "TLC-enumerated SMT-LIB scripts parsed by pySMT, results validated by TLC against an SMT-LIB semantics in TLA+", ref="DESIGN.md 3 C08"),
 "C09": dict(
  text="TLC-generated formulas (incl. variants with symbol names that need quoting) are printed as SMT-LIB scripts (tree and DAG) and parsed back in the same environment; TLC-generated scripts (Gen_Sx) are parsed, re-serialised and parsed again; formulas are serialised to the human-readable syntax and parsed back. TLC validates: the re-parsed formula is the very same object (a constant-array literal comes back as the equivalent chain of stores, AsStores); the two command lists are identical up to the fresh names of definition parameters; the HR round trip preserves type and meaning (Eval) and changes at most the grouping of n-ary operators. The module-level parse shortcut must agree with HRParser(env).parse in every environment.",
  note="non-Boolean terms t are round-tripped inside t = t; scripts with commands pySMT cannot serialise and formulas the HR parser rejects are outside the property",
  tech=TECH + "TLC-generated formulas/scripts round-tripped through the real printers and parsers, results validated by TLC", ref="DESIGN.md 3 C09"),
 "C17": dict(
  text="The strict reference solver IS the specification: the SMT-LIB script semantics of SmtLibSyntax.tla (declarations scoped by assertion level; Illegal on redeclaration in scope, use before declaration or after the declaring level was popped, pop below level 0). TLC enumerates API histories (add_assertion of formulas sharing symbols, push/pop 1-2, solve, get_value, get_model, reset_assertions, is_sat/is_valid/is_unsat; all legal histories up to length 3, length 4 sampled, simulated length 10); each is replayed on a real SmtLibSolver (also via Factory.add_generic_solver) talking to a fake solver process that logs every command before replying and never rejects anything; TLC runs the logged command stream through the strict machine and validates: never Illegal, after each call the solver holds exactly the live assertions of the API history (C16 semantics, meaning-level comparison), each verdict is the reply to the check-sat of that call, get_model/get_value return the solver's values for every symbol of the live assertions.",
  note="commands and API calls are joined by call boundaries (single-threaded library), no wall clock; the fake solver's sat answers are relative to one fixed total model",
  tech=TECH + "TLC-enumerated API histories replayed on the real wrapper with a logging fake solver; command stream validated by TLC against a strict SMT-LIB solver specification", ref="DESIGN.md 3 C17"),
}
NA_REASON = "check under construction in this round (planned with the same TLA+/TLC technique, see DESIGN.md)"

checks = []
for p in props:
    pid = p["id"]
    if pid not in CLAIMS:
        continue
    c = CLAIMS[pid]
    checks.append({
        "property_id": pid,
        "quick_cmd": "bin/check %s --tier quick" % pid,
        "thorough_cmd": "bin/check %s --tier thorough" % pid,
        "evidence_file": "evidence/%s.json" % pid,
        "replay_cmd_template": "bin/check %s --replay {path}" % pid,
        "engine": "tlc",
        "level_claimed": {"category": "model_checking", "text": c["text"], "design_ref": c["ref"]},
        "level_note": c["note"],
        "technique": c["tech"],
    })
m = {
    "version": 1,
    "setup_cmd": "bin/setup",
    "hooks": {"guard": "PYSMT_VERIF",
              "enable": "no source hooks: checks import /repo's working tree directly and observe through public accessors, wrapped walker function tables, monkeypatched multiprocessing primitives and a fake SMT-LIB solver executable",
              "baseline_off_cmd": "cd /repo && /venv/bin/python -m pytest -ra -q -p no:cacheprovider --timeout=900 --continue-on-collection-errors",
              "source_commits": [], "add_only": True},
    "engines": [{"name": "tlc", "path": "/opt/veriftools/tla/tla2tools.jar",
                 "serves_properties": sorted(CLAIMS),
                 "kind_free_text": "TLA+ model checker: design checks, behaviour generation, trace validation"}],
    "checks": checks,
    "not_applicable": [{"property_id": p["id"], "reason": NA_REASON} for p in props if p["id"] not in CLAIMS],
    "notes": "All checks: bin/check <id> --tier quick|thorough. See DESIGN.md.",
}
json.dump(m, open(os.path.join(HERE, "MANIFEST.json"), "w"), indent=1)
print("checks:", [c["property_id"] for c in checks])
