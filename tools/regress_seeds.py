#!/venv/bin/python
"""usage: tools/regress_seeds.py <n> [seed]  - re-applies a random sample of n stored seeded changes to scratch
worktrees of /repo HEAD (outside /repo and /verif, removed afterwards) and runs the property's quick check on each.
A patch that no longer applies (the code it touched was repaired since) is reported as such.  Writes seeded/REGRESSION.md."""
import json, os, random, subprocess, sys, glob
from concurrent.futures import ThreadPoolExecutor
HERE = os.path.dirname(os.path.dirname(os.path.abspath(__file__)))
n = int(sys.argv[1]); rng = random.Random(int(sys.argv[2]) if len(sys.argv) > 2 else 0)
dirs = sorted(glob.glob(os.path.join(HERE, "seeded", "C*_*")))
pick = rng.sample(dirs, min(n, len(dirs)))

def one(kd):
    k, d = kd
    pid = os.path.basename(d)[:3]
    wt = "/tmp/wt/rg_%d" % k
    subprocess.run(["git", "-C", "/repo", "worktree", "add", "--detach", "-q", wt, "HEAD"], check=True)
    try:
        ap = subprocess.run(["git", "-C", wt, "apply", os.path.join(d, "patch.diff")], stderr=subprocess.PIPE)
        if ap.returncode != 0:
            return os.path.basename(d), "patch no longer applies", ""
        r = subprocess.run([os.path.join(HERE, "bin", "check"), pid, "--tier", "quick"], env=dict(os.environ, VERIF_REPO=wt, VERIF_SEED=str(5 + k)),
                           stdout=subprocess.PIPE, stderr=subprocess.DEVNULL, universal_newlines=True, timeout=1500)
        last = [l for l in r.stdout.splitlines() if l.startswith(("PASS", "FAIL", "ERROR"))]
        verdict = "caught" if r.returncode == 1 and "VIOLATION" in r.stdout else ("MISSED" if r.returncode == 0 else "error rc=%d" % r.returncode)
        return os.path.basename(d), verdict, (last[-1] if last else "")[:110]
    finally:
        subprocess.run(["git", "-C", "/repo", "worktree", "remove", "--force", wt])

with ThreadPoolExecutor(max_workers=3) as ex:
    rows = list(ex.map(one, enumerate(pick)))
subprocess.run(["git", "-C", "/repo", "worktree", "prune"])
with open(os.path.join(HERE, "seeded", "REGRESSION.md"), "w") as f:
    f.write("# Stored seeded changes re-applied to /repo HEAD and run through the current quick checks\n\n")
    f.write("(random sample of %d of %d; a fresh check seed per run; patches are relative to the tree of their time)\n\n" % (len(pick), len(dirs)))
    f.write("| seeded change | verdict | check summary |\n|---|---|---|\n")
    for name, v, last in sorted(rows):
        f.write("| `%s` | %s | %s |\n" % (name, v, last))
    f.write("\ncaught: %d, missed: %d, not applicable any more: %d, errors: %d\n" % (
        sum(1 for r in rows if r[1] == "caught"), sum(1 for r in rows if r[1] == "MISSED"),
        sum(1 for r in rows if "applies" in r[1]), sum(1 for r in rows if r[1].startswith("error"))))
print(open(os.path.join(HERE, "seeded", "REGRESSION.md")).read()[-600:])
