#!/bin/sh
# usage: tools/run_all.sh <seed> [tier]  - runs every check once and prints one line per property
cd "$(dirname "$0")/.."
for p in C01 C02 C03 C04 C05 C06 C07 C08 C09 C10 C11 C12 C13 C14 C15 C16 C17 C18 C19 C20; do
  VERIF_SEED=$1 bin/check $p --tier "${2:-quick}" 2>&1 | grep "^PASS\|^FAIL\|^ERROR\|^KNOWN\|violation-class\|MACHINERY" | cut -c1-200
done
