#!/venv/bin/python
"""usage: tools/save_seed.py <worktree> <ID> <name> <what> <needs> <result>
Stores a confirmed seeded change under seeded/<ID>_<name>/ (patch.diff, demo.py, meta.json)."""
import json, os, re, shutil, subprocess, sys
wt, pid, name, what, needs, result = sys.argv[1:7]
d = os.path.join(os.path.dirname(os.path.dirname(os.path.abspath(__file__))), "seeded", "%s_%s" % (pid, name))
os.makedirs(d, exist_ok=True)
diff = subprocess.run(["git", "-C", wt, "diff", "--", "pysmt"], stdout=subprocess.PIPE, universal_newlines=True).stdout
assert diff.strip(), "no diff"
open(os.path.join(d, "patch.diff"), "w").write(diff)
shutil.copy(os.path.join(wt, "demo_%s.py" % pid), os.path.join(d, "demo.py"))
conf = {}
for line in open("/tmp/wt/confirm.log"):
    if line.startswith(pid + " "):
        m = re.match(r"\S+ demo_with_patch=(\d+) demo_without=(\d+) tests_with_patch: (.*?),? \d+ warnings", line)
        conf = {"demo_exit_with_patch": int(m.group(1)), "demo_exit_without_patch": int(m.group(2)), "repo_tests_with_patch": m.group(3)}
assert conf and conf["demo_exit_with_patch"] != 0 and conf["demo_exit_without_patch"] == 0 and "failed" not in conf["repo_tests_with_patch"], conf
conf["how"] = "/tmp/wt/confirm.sh <worktree> <id> (demo with patch, demo after git stash, full pytest with patch)"
meta = {"property": pid, "name": name, "what": what, "needs_to_manifest": needs,
        "produced_by": "independent sub-agent given only the property text and a scratch worktree",
        "confirmed": conf, "checks_run": "VERIF_REPO=<worktree> bin/check %s --tier quick" % pid, "result": result}
json.dump(meta, open(os.path.join(d, "meta.json"), "w"), indent=1)
print("saved", d)
