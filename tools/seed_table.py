#!/venv/bin/python
"""Rewrites the seeded-change table of DESIGN.md (between the SEEDTABLE markers) from seeded/*/meta.json."""
import glob, json, os, re
V = os.path.dirname(os.path.dirname(os.path.abspath(__file__)))
rows = ["| seeded change | what it does | needs | result |", "|---|---|---|---|"]
for f in sorted(glob.glob(os.path.join(V, "seeded", "*", "meta.json"))):
    m = json.load(open(f))
    cell = lambda t: t.replace("|", "\\|").replace("\n", " ")
    rows.append("| `%s_%s` | %s | %s | %s |" % (m["property"], m["name"], cell(m["what"]), cell(m["needs_to_manifest"]), cell(m["result"])))
p = os.path.join(V, "DESIGN.md")
s = open(p).read()
block = "<!-- SEEDTABLE:BEGIN -->\n" + "\n".join(rows) + "\n<!-- SEEDTABLE:END -->"
if "SEEDTABLE:BEGIN" in s:
    s = re.sub(r"<!-- SEEDTABLE:BEGIN -->.*?<!-- SEEDTABLE:END -->", lambda _: block, s, flags=re.S)
else:
    s = s.replace("SEEDTABLE\n", block + "\n", 1)
open(p, "w").write(s)
print(len(rows) - 2, "rows")
