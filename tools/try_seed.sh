#!/bin/sh
# usage: tools/try_seed.sh <worktree-or-patch> <PROP> [tier]
# Runs bin/check <PROP> against a patched copy of the sources WITHOUT touching /repo:
#  - if $1 is a directory it is used as VERIF_REPO (a scratch worktree with the change applied)
#  - if $1 is a patch file it is applied to /repo, the check is run, and it is undone straight afterwards
cd "$(dirname "$0")/.."
if [ -d "$1" ]; then
  VERIF_REPO="$1" bin/check "$2" --tier "${3:-quick}" 2>&1 | grep -v "^VIOLATION" | tail -8
  VERIF_REPO="$1" bin/check "$2" --tier "${3:-quick}" 2>&1 | grep -c "^VIOLATION"
else
  git -C /repo apply "$1" || exit 2
  bin/check "$2" --tier "${3:-quick}" 2>&1 | tail -6
  git -C /repo checkout -- .
fi
